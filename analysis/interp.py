"""Path-sensitive abstract interpreter over the extracted MIR.

* disjunctive states (bounded), joined at loop heads with Houdini-style
  relational invariant inference over live places;
* crate-local callees (and closures) are analysed in context;
* library callees are modelled by summaries.py;
* every panic-capable site becomes an obligation that is recorded as
  discharged / not discharged; rules can also subscribe to call events and ask
  queries about the abstract state at anchored points.

Nothing here runs code of the analysed crate.
"""
from absdom import (Aff, IntV, StructV, EnumV, Place, RefV, VecV, SliceV, PtrV,
                    TopV, FnV, OpaqueV, State, UNIT, INF, assume, holds,
                    int_range, collect_syms)
import facts as F
import zlib

ISIZE_MAX = (1 << 63) - 1
USIZE = (64, False)

TRANSPARENT_FOREIGN_STRUCTS = {
    "core::ops::range::Range", "core::ops::range::RangeInclusive",
    "core::ops::range::RangeFrom", "core::ops::range::RangeTo",
    "core::ops::range::RangeToInclusive", "core::ops::range::RangeFull",
}
VEC_LIKE = {"alloc::vec::Vec", "alloc::string::String"}


class Imprecise(Exception):
    pass


import os
DEBUG_JOIN = os.environ.get("VERIF_DEBUG_JOIN")
DEBUG_SITE = os.environ.get("VERIF_DEBUG_SITE")


class ChangeFlag:
    """list-like flag; with VERIF_DEBUG_JOIN set, reports who set it"""
    def __init__(self):
        self.v = False

    def __getitem__(self, i):
        return self.v

    def __setitem__(self, i, val):
        if val and not self.v and DEBUG_JOIN:
            import sys as _s
            fr = _s._getframe(1)
            print("   [join changed at line %d: name=%s a=%s b=%s]" % (fr.f_lineno, fr.f_locals.get("name") or fr.f_locals.get("key"), str(fr.f_locals.get("a"))[:80], str(fr.f_locals.get("b"))[:80]))
        self.v = self.v or val


class BodyInfo:
    """CFG facts of one body: successors without unwinding, reverse postorder,
    dominators, natural loops, liveness."""

    def __init__(self, body):
        self.body = body
        blocks = body["blocks"]
        n = len(blocks)
        self.succ = [[] for _ in range(n)]
        for i, bb in enumerate(blocks):
            if bb["cleanup"]:
                continue
            t = bb["term"]
            k = t["k"]
            if k == "goto":
                self.succ[i] = [t["t"]]
            elif k == "switch":
                s = [a[1] for a in t["arms"]] + [t["otherwise"]]
                self.succ[i] = list(dict.fromkeys(s))
            elif k in ("call", "assert", "drop"):
                if t.get("t") is not None:
                    self.succ[i] = [t["t"]]
        # reverse postorder
        seen = [False] * n
        order = []
        stack = [(0, iter(self.succ[0]))]
        seen[0] = True
        while stack:
            node, it = stack[-1]
            adv = False
            for s in it:
                if not seen[s]:
                    seen[s] = True
                    stack.append((s, iter(self.succ[s])))
                    adv = True
                    break
            if not adv:
                order.append(node)
                stack.pop()
        self.rpo = order[::-1]
        self.rpo_ix = {b: i for i, b in enumerate(self.rpo)}
        self.pred = [[] for _ in range(n)]
        for b in self.rpo:
            for s in self.succ[b]:
                self.pred[s].append(b)
        # dominators (iterative)
        idom = {self.rpo[0]: self.rpo[0]}
        changed = True
        while changed:
            changed = False
            for b in self.rpo[1:]:
                ps = [p for p in self.pred[b] if p in idom]
                if not ps:
                    continue
                new = ps[0]
                for p in ps[1:]:
                    new = self._intersect(idom, p, new)
                if idom.get(b) != new:
                    idom[b] = new
                    changed = True
        self.idom = idom
        # natural loops
        self.loops = {}  # head -> set(blocks)
        for b in self.rpo:
            for s in self.succ[b]:
                if self.dominates(s, b):
                    body_set = self.loops.setdefault(s, {s})
                    stack2 = [b]
                    while stack2:
                        x = stack2.pop()
                        if x in body_set:
                            continue
                        body_set.add(x)
                        stack2.extend(self.pred[x])
        # innermost loop of each block
        self.inner = {}
        for b in self.rpo:
            best = None
            for h, bs in self.loops.items():
                if b in bs and (best is None or len(bs) < len(self.loops[best])):
                    best = h
            self.inner[b] = best
        self.parent_loop = {}
        for h in self.loops:
            best = None
            for h2, bs in self.loops.items():
                if h2 != h and h in bs and (best is None or len(bs) < len(self.loops[best])):
                    best = h2
            self.parent_loop[h] = best
        self._liveness()

    def _intersect(self, idom, a, b):
        ix = self.rpo_ix
        while a != b:
            while ix[a] > ix[b]:
                a = idom[a]
            while ix[b] > ix[a]:
                b = idom[b]
        return a

    def dominates(self, a, b):
        if b not in self.idom or a not in self.idom:
            return False
        while True:
            if a == b:
                return True
            nb = self.idom[b]
            if nb == b:
                return False
            b = nb

    def _liveness(self):
        blocks = self.body["blocks"]
        n = len(blocks)
        use = [set() for _ in range(n)]
        defs = [set() for _ in range(n)]
        self.addr_taken = set()

        def place_uses(p, acc, is_def=False):
            if p["p"] or not is_def:
                acc.add(p["l"])
            for e in p["p"]:
                if e["k"] == "index":
                    acc.add(e["l"])

        def op_uses(o, acc):
            if o["k"] in ("copy", "move"):
                place_uses(o["place"], acc)

        for i in range(n):
            bb = blocks[i]
            u, d = set(), set()

            def U(x):
                if x not in d:
                    u.add(x)
            for s in bb["stmts"]:
                acc = set()
                if s["k"] == "assign":
                    rv = s["rv"]
                    k = rv["k"]
                    if k in ("use", "cast", "repeat"):
                        op_uses(rv["op"], acc)
                    elif k in ("ref", "rawptr"):
                        place_uses(rv["place"], acc)
                        self.addr_taken.add(rv["place"]["l"])
                    elif k == "bin":
                        op_uses(rv["a"], acc)
                        op_uses(rv["b"], acc)
                    elif k == "un":
                        op_uses(rv["a"], acc)
                    elif k == "discr":
                        place_uses(rv["place"], acc)
                    elif k == "aggregate":
                        for o in rv["ops"]:
                            op_uses(o, acc)
                    place_uses(s["place"], acc, True)
                    for x in acc:
                        U(x)
                    if not s["place"]["p"]:
                        d.add(s["place"]["l"])
                elif s["k"] == "setdiscr":
                    U(s["place"]["l"])
            t = bb["term"]
            acc = set()
            k = t["k"]
            if k == "switch":
                op_uses(t["op"], acc)
            elif k == "call":
                for a in t["args"]:
                    op_uses(a, acc)
                if "indirect" in t:
                    op_uses(t["indirect"], acc)
                place_uses(t["dest"], acc, True)
            elif k == "assert":
                op_uses(t["cond"], acc)
                for a in t["ops"]:
                    op_uses(a, acc)
            elif k == "drop":
                place_uses(t["place"], acc)
            elif k == "return":
                acc.add(0)
            for x in acc:
                U(x)
            if k == "call" and not t["dest"]["p"]:
                d.add(t["dest"]["l"])
            use[i], defs[i] = u, d
        live_in = [set() for _ in range(n)]
        changed = True
        while changed:
            changed = False
            for b in reversed(self.rpo):
                out = set()
                for s in self.succ[b]:
                    out |= live_in[s]
                new = use[b] | (out - defs[b])
                if new != live_in[b]:
                    live_in[b] = new
                    changed = True
        self.live_in = live_in


class Ctx:
    """one activation of a body"""
    __slots__ = ("body", "info", "fid", "subst", "gargs", "depth", "returns", "stack", "enter_n", "cur_site")

    def __init__(self, body, info, fid, subst, gargs, depth, stack):
        self.body = body
        self.info = info
        self.fid = fid
        self.subst = subst
        self.gargs = gargs
        self.depth = depth
        self.returns = []
        self.stack = stack
        self.cur_site = None


class Call:
    __slots__ = ("term", "args", "desc", "gargs", "dest_ty", "site", "ctx", "arg_tys", "path", "name")


class Interp:
    def __init__(self, prog, K=48, max_depth=14):
        self.prog = prog
        self.K = K
        self.K_ret = 3
        self.unroll_max_blocks = 14
        self.no_join_bodies = set()
        self.no_join_prefixes = ()
        self.max_depth = max_depth
        self.infos = {}
        self.nsym = 0
        self.syminfo = {}
        self.recording = True
        self.events = []          # obligations and notes
        self.call_hooks = []      # fn(I, st, call) for every call event (recording passes only)
        self.stmt_hooks = []      # fn(I, ctx, st, bi, si, stmt)
        self.store_hooks = []     # fn(I, ctx, st, Place, new value, site) before an assignment
        self.loop_hooks = []      # fn(I, ctx, head block, head state, back states, exits)
        self.loop_entry_hooks = []  # fn(I, ctx, head block, entry states)
        self.value_hooks = []     # fn(I, ctx, st, value) -> None, on every assigned value (all passes)
        self.return_hooks = {}
        self.unmodelled = {}
        self.imprecise = []
        self.visited_bodies = set()
        self.stats = {"blocks": 0, "calls": 0, "joins": 0, "loop_iters": 0}
        import summaries
        self.summaries = summaries
        self.assume_no_overflow_checks = False
        self.extra_models = {}
        self.addr_syms = {}
        self._err_only = {}
        self.probe_mode = False
        self.edge_hooks = []      # fn(I, ctx, block, err target, err state, other targets)
        self.pure_syms = {}
        self.discr_syms = {}
        self.type_invariants = {}
        self.str_boundaries = {}

    def str_boundary_ok(self, st, s, a, b):
        """are the offsets a and b (relative to str slice s) char boundaries?
        Endpoints of every live &str into the same object are boundaries (str
        invariant); so are positions returned by find() and, for one-byte
        patterns, the byte after them; plus per-state recorded boundaries."""
        from absdom import collect_syms
        cands = [s.off, s.off + s.len]
        base = s.base

        def walk(v):
            if isinstance(v, SliceV):
                if v.base == base:
                    cands.append(v.off)
                    cands.append(v.off + v.len)
            elif isinstance(v, StructV):
                for f in v.fields:
                    walk(f)
            elif isinstance(v, EnumV):
                for p in v.variants.values():
                    if p is not None:
                        walk(p)
            elif isinstance(v, OpaqueV):
                if v.get("base") == base:
                    for k in ("pos", "start", "end"):
                        x = v.get(k)
                        if isinstance(x, Aff):
                            cands.append(x)
                for _, x in v.attrs:
                    if isinstance(x, (SliceV, StructV, EnumV)):
                        walk(x)
        for v in st.cells.values():
            walk(v)
        for x in st.ghost.get(("boundary", base), ()):
            cands.append(x)
        for rel in (a, b):
            X = s.off + rel
            ok = False
            for c in cands:
                if c == X or st.entails_eq(c, X):
                    ok = True
                    break
            if not ok:
                for sym, _ in X.t:
                    inf = self.syminfo.get(sym)
                    if inf and inf[0] == "found_ascii" and inf[1] == base:
                        p0 = inf[2] + Aff.sym(sym)
                        if st.entails_eq(X, p0) or st.entails_eq(X, p0 + 1):
                            ok = True
                            break
                    if inf and inf[0] == "found" and inf[1] == base:
                        if st.entails_eq(X, inf[2] + Aff.sym(sym)):
                            ok = True
                            break
            if not ok:
                return False
        return True

    # ------------------------------------------------------------ utils --
    def info(self, body):
        i = self.infos.get(body["id"])
        if i is None:
            i = BodyInfo(body)
            self.infos[body["id"]] = i
        return i

    def newgen(self):
        self.nsym += 1
        return self.nsym

    def fresh(self, st, hint, lo, hi, info=None):
        self.nsym += 1
        name = "%s#%d" % (hint, self.nsym)
        st.bounds[name] = (lo, hi)
        if info is not None:
            self.syminfo[name] = info
        return name

    def pure_int(self, st, key, hint, ty, lo=None, hi=None, info=None):
        """symbol for the result of a pure operation on the given operands:
        the same operands give the same symbol (value numbering)"""
        name = self.pure_syms.get(key)
        tlo, thi = int_range(ty) if ty else (-INF, INF)
        lo = tlo if lo is None or lo < tlo else lo
        hi = thi if hi is None or hi > thi else hi
        if name is None:
            self.nsym += 1
            name = "%s#%d" % (hint, self.nsym)
            self.pure_syms[key] = name
            if info is not None:
                self.syminfo[name] = info
        old = st.bounds.get(name)
        if old is None:
            st.bounds[name] = (lo, hi)
        else:
            st.bounds[name] = (max(old[0], lo), min(old[1], hi))
        return IntV(Aff.sym(name), ty)

    def fresh_int(self, st, hint, ty, lo=None, hi=None, info=None, bits=None):
        tlo, thi = int_range(ty) if ty else (-INF, INF)
        if lo is None or lo < tlo:
            lo = tlo
        if hi is None or hi > thi:
            hi = thi
        s = self.fresh(st, hint, lo, hi, info)
        return IntV(Aff.sym(s), ty, bits=bits)

    def const_int(self, v, ty=None):
        return IntV(Aff.const(v), ty)

    def site(self, ctx, bi, what=None):
        bb = ctx.body["blocks"][bi]
        sp = bb["tspan"]
        return {"fn": ctx.body["path"], "id": ctx.body["id"], "bb": bi,
                "file": sp.get("cf", sp["f"]) if "exp" in sp else sp["f"], "line": sp.get("cl", sp["l"]) if "exp" in sp else sp["l"],
                "stack": ctx.stack, "what": what}

    def note(self, kind, site, ok, detail=None, st=None, **kw):
        if not self.recording:
            return
        ev = {"kind": kind, "site": site, "ok": ok, "detail": detail}
        ev.update(kw)
        self.events.append(ev)
        if DEBUG_SITE and not ok and str(site.get("line")) == DEBUG_SITE and st is not None:
            print("  [state at failing site line %s: %s]" % (DEBUG_SITE, detail))
            for f in st.facts:
                print("      fact", f, ">= 0")
            for k, v in st.cells.items():
                print("      cell", k[-1] if not (isinstance(k, tuple) and k and k[0] == "h") else k, "=", repr(v)[:200])

    # ------------------------------------------------------------ types --
    def is_vec(self, ty):
        return ty is not None and ty[0] == "adt" and ty[1] in VEC_LIKE

    def int_ty(self, ty):
        if ty is None:
            return None
        if ty[0] == "int":
            return (ty[1], ty[2])
        if ty[0] == "bool":
            return (1, False)
        if ty[0] == "char":
            return (32, False)
        return None

    def field_types(self, ty, variant=0):
        """list of field types of a struct/tuple/closure type (or enum variant)"""
        k = ty[0]
        if k == "tuple":
            return list(ty[1])
        if k == "closure":
            return list(ty[2])
        if k == "adt":
            a = self.prog.adts.get(ty[1])
            if a is None:
                return None
            m = {}
            for i, g in enumerate(a["generics"]):
                if i < len(ty[2]):
                    m[g] = ty[2][i]
            vs = a["variants"]
            if variant >= len(vs):
                return None
            return [self.prog.ty(f["ty"], m or None) for f in vs[variant]["fields"]]
        return None

    def mat(self, st, ty, hint):
        """one-level materialisation of an unknown value of type ty"""
        if ty is None:
            return TopV(None)
        k = ty[0]
        it = self.int_ty(ty)
        if it is not None:
            lo, hi = int_range(it)
            if k == "char":
                hi = 0x10FFFF
            return IntV(Aff.sym(self.fresh(st, hint, lo, hi, ("unknown", hint))), it)
        if k == "adt":
            path = ty[1]
            if path in VEC_LIKE:
                n = self.fresh(st, "len(%s)" % hint, 0, ISIZE_MAX, ("len", hint))
                return VecV(Aff.sym(n), None, ("obj", hint, self.nsym))
            a = self.prog.adts.get(path)
            if ty[3] == "enum" and a is not None:
                return EnumV(path, {i: None for i in range(len(a["variants"]))}, ty)
            if ty[3] == "struct" and a is not None and (a.get("local") or path in TRANSPARENT_FOREIGN_STRUCTS):
                fts = self.field_types(ty)
                inv = self.type_invariants.get(path)
                if inv is not None:
                    return inv(self, st, ty, fts, hint)
                return StructV([TopV(t) for t in fts])
            return OpaqueV(ty, (("unknown", hint),))
        if k in ("tuple", "closure"):
            return StructV([TopV(t) for t in self.field_types(ty)])
        if k == "ref":
            inner = ty[2]
            if inner[0] in ("slice", "str"):
                n = self.fresh(st, "len(%s)" % hint, 0, ISIZE_MAX, ("len", hint))
                return SliceV(Aff.sym(n), ("obj", hint, self.nsym), Aff.const(0), ty[1])
            self.nsym += 1
            key = ("h", "%s*%d" % (hint, self.nsym))
            st.cells[key] = TopV(inner)
            return RefV(Place(key), ty[1])
        if k == "never":
            return TopV(ty)
        return OpaqueV(ty, (("unknown", hint),))

    # ----------------------------------------------------------- memory --
    def read(self, st, place):
        v = st.cells.get(place.key)
        if v is None:
            return TopV(None, "uninit")
        for e in place.proj:
            if e[0] == "f":
                if isinstance(v, StructV) and e[1] < len(v.fields):
                    v = v.fields[e[1]]
                else:
                    return TopV(None)
            elif e[0] == "v":
                if isinstance(v, EnumV):
                    p = v.variants.get(e[1])
                    if p is None:
                        return TopV(None)
                    v = p
                else:
                    return TopV(None)
            else:
                return TopV(None)
        return v

    def write(self, st, place, val):
        if not place.proj:
            st.cells[place.key] = val
            return
        root = st.cells.get(place.key)
        st.cells[place.key] = self._upd(root, place.proj, 0, val)

    def _upd(self, cur, proj, i, val):
        if i == len(proj):
            return val
        e = proj[i]
        if e[0] == "f":
            if isinstance(cur, StructV):
                fs = list(cur.fields)
            else:
                fs = []
            while len(fs) <= e[1]:
                fs.append(TopV(None))
            fs[e[1]] = self._upd(fs[e[1]], proj, i + 1, val)
            return StructV(fs)
        if e[0] == "v":
            if isinstance(cur, EnumV):
                vs = dict(cur.variants)
                vs[e[1]] = self._upd(vs.get(e[1]), proj, i + 1, val)
                return EnumV(cur.path, vs, cur.ty)
            return EnumV("?", {e[1]: self._upd(None, proj, i + 1, val)})
        return cur

    def ensure(self, st, place, ty, hint=None):
        """materialise the value at place (one level) if it is unknown"""
        v = self.read(st, place)
        if isinstance(v, TopV):
            t = v.ty if v.ty is not None else ty
            if t is None:
                return v
            nv = self.mat(st, t, hint or repr(place))
            if isinstance(nv, TopV):
                return nv
            self.write(st, place, nv)
            return nv
        return v

    def hint_of(self, ctx, place):
        k = place.key
        if isinstance(k, tuple) and k and k[0] == "h":
            s = str(k[1]).split("*")[0]
        else:
            s = None
            for nm in ctx.body["names"]:
                if nm["place"]["l"] == k[-1] and not nm["place"]["p"]:
                    s = nm["name"]
                    break
            if s is None:
                s = "_%s" % (k[-1],)
        for e in place.proj:
            s += ".%s" % (e[1],) if e[0] == "f" else "@%s" % (e[1],)
        return s

    # ------------------------------------------------------ MIR places --
    def resolve(self, ctx, st, mp):
        """MIR place -> (Place | ('slice', SliceV, idx) | None, static type)"""
        prog = self.prog
        cur = Place((ctx.fid, mp["l"]))
        ty = prog.ty(ctx.body["locals"][mp["l"]]["ty"], ctx.subst)
        special = None
        for e in mp["p"]:
            k = e["k"]
            if special is not None:
                # projections below a slice element / unknown: give up precisely
                special = ("unknown", None, None)
                ty = prog.ty(e["ty"], ctx.subst) if k == "field" else None
                continue
            if k == "deref":
                v = self.ensure(st, cur, ty, self.hint_of(ctx, cur))
                if isinstance(v, RefV):
                    cur = v.place
                    ty = ty[2] if ty and ty[0] in ("ref", "rawptr") else None
                elif isinstance(v, SliceV):
                    special = ("slice", v, None)
                    ty = ty[2] if ty and ty[0] in ("ref", "rawptr") else None
                elif isinstance(v, PtrV) and v.place is not None:
                    special = ("ptr", v, None)
                    ty = ty[2] if ty and ty[0] in ("ref", "rawptr") else None
                else:
                    special = ("unknown", None, None)
                    ty = ty[2] if ty and ty[0] in ("ref", "rawptr") else None
            elif k == "field":
                v = self.ensure(st, cur, ty, self.hint_of(ctx, cur))
                fty = prog.ty(e["ty"], ctx.subst)
                if isinstance(v, StructV):
                    cur = cur.extend(("f", e["i"]))
                    ty = fty
                elif isinstance(v, EnumV) and len(v.variants) == 1 and ty and ty[0] == "adt" and ty[3] != "enum":
                    cur = cur.extend(("f", e["i"]))
                    ty = fty
                else:
                    special = ("unknown", None, None)
                    ty = fty
            elif k == "downcast":
                v = self.ensure(st, cur, ty, self.hint_of(ctx, cur))
                if isinstance(v, EnumV):
                    vi = e["v"]
                    pl = v.variants.get(vi)
                    if pl is None:
                        fts = self.field_types(ty, vi) if ty and ty[0] == "adt" else None
                        if fts is None:
                            fts = []
                        npl = StructV([TopV(t) for t in fts])
                        vs = dict(v.variants)
                        vs[vi] = npl
                        self.write(st, cur, EnumV(v.path, vs, v.ty))
                    cur = cur.extend(("v", vi))
                else:
                    special = ("unknown", None, None)
            elif k in ("index", "constindex", "subslice"):
                v = self.read(st, cur)
                if k == "index":
                    iv = self.read(st, Place((ctx.fid, e["l"])))
                else:
                    iv = None
                ety = ty[1] if ty and ty[0] in ("slice", "array") else None
                special = ("elem", v, iv)
                ty = ety
            else:
                special = ("unknown", None, None)
        if special is not None:
            if special[0] == "slice" and mp["p"] and mp["p"][-1]["k"] == "deref":
                return special, ty
            return special, ty
        return cur, ty

    def pattern_len_check(self, ctx, st, bv, need):
        """a slice pattern reads position(s) that need `need` elements: the compiler tests the length before, so
        this can only fail on a forced continuation (a probe of the other side of that test) - reported as a
        definite failure there, never otherwise"""
        site = getattr(ctx, "cur_site", None)
        if self.recording and site is not None and isinstance(bv, SliceV) and st.entails(Aff.const(need - 1) - bv.len):
            self.note("assert:PatternLength", site, False, "slice pattern needs %d element(s), the slice is shorter" % need, definite=True)

    def load(self, ctx, st, mp):
        prog = self.prog
        # element of a slice: (*_1)[_43]
        ps = mp["p"]
        if len(ps) >= 2 and ps[-1]["k"] == "index" and ps[-2]["k"] == "deref":
            base_mp = {"l": mp["l"], "p": ps[:-2]}
            bplace, bty = self.resolve(ctx, st, base_mp)
            if isinstance(bplace, Place):
                bv = self.ensure(st, bplace, bty, self.hint_of(ctx, bplace))
                iv = self.read(st, Place((ctx.fid, ps[-1]["l"])))
                if isinstance(bv, SliceV) and isinstance(iv, IntV):
                    ety = bty[2][1] if bty and bty[0] == "ref" and bty[2][0] == "slice" else None
                    it = self.int_ty(ety)
                    if it is not None:
                        return self.fresh_int(st, "elem", it, info=("elem", bv.base, bv.off + iv.aff))
                    return TopV(ety)
        # element of a slice at a constant position (slice patterns): (*_1)[2 of 4]
        if len(ps) >= 2 and ps[-1]["k"] == "constindex" and ps[-2]["k"] == "deref":
            base_mp = {"l": mp["l"], "p": ps[:-2]}
            bplace, bty = self.resolve(ctx, st, base_mp)
            if isinstance(bplace, Place):
                bv = self.ensure(st, bplace, bty, self.hint_of(ctx, bplace))
                if isinstance(bv, SliceV):
                    self.pattern_len_check(ctx, st, bv, int(ps[-1].get("min", 0)))
                    ety = bty[2][1] if bty and bty[0] == "ref" and bty[2][0] == "slice" else None
                    it = self.int_ty(ety)
                    if it is not None:
                        ix_ = (bv.len - int(ps[-1]["off"])) if ps[-1].get("from_end") else Aff.const(int(ps[-1]["off"]))
                        return self.fresh_int(st, "elem", it, info=("elem", bv.base, bv.off + ix_))
                    return TopV(ety)
        # byte k of x.to_be_bytes() / x.to_le_bytes() taken apart by an array pattern (`let [hi, lo] = id.to_be_bytes()`)
        if ps and ps[-1]["k"] == "constindex" and not ps[-1].get("from_end"):
            bplace, bty = self.resolve(ctx, st, {"l": mp["l"], "p": ps[:-1]})
            if isinstance(bplace, Place):
                bv = self.read(st, bplace)
                bo = bv.get("bytes_of") if isinstance(bv, OpaqueV) else None
                if bo and bo[0] in ("to_be_bytes", "to_le_bytes") and isinstance(bo[1], IntV) and bo[1].ty and not bo[1].ty[1] and bo[1].ty[0] % 8 == 0:
                    w = bo[1].ty[0]
                    nb, k = w // 8, int(ps[-1]["off"])
                    if k < nb:
                        sb = self.bits_of(st, bo[1], w)
                        bi = (nb - 1 - k) if bo[0] == "to_be_bytes" else k
                        return self.from_bits(st, tuple(sb[bi * 8 + i] for i in range(8)), (8, False), "byte")
        place, ty = self.resolve(ctx, st, mp)
        if isinstance(place, Place):
            v = self.read(st, place)
            if isinstance(v, TopV):
                t = v.ty if v.ty is not None else ty
                if t is not None and (self.int_ty(t) is not None or t[0] in ("ref", "adt", "tuple", "closure")):
                    v = self.ensure(st, place, t, self.hint_of(ctx, place))
            return v
        if place[0] == "slice":
            return place[1]
        it = self.int_ty(ty)
        if it is not None:
            return self.fresh_int(st, "elem", it, info=("elem?",))
        return TopV(ty)

    def store(self, ctx, st, mp, val):
        place, ty = self.resolve(ctx, st, mp)
        if isinstance(place, Place):
            self.write(st, place, val)
            return place
        return None

    # -------------------------------------------------------- operands --
    def const_val(self, ctx, st, o):
        prog = self.prog
        ty = prog.ty(o["ty"], ctx.subst)
        if "fn" in o:
            return FnV(o["fn"])
        if "int" in o:
            return IntV(Aff.const(int(o["int"])), self.int_ty(ty))
        if "bytes" in o:
            n = len(o["bytes"])
            key = ("const", o.get("str") if "str" in o else tuple(o["bytes"]))
            return SliceV(Aff.const(n), key, Aff.const(0))
        if o.get("zst"):
            if ty[0] == "tuple" and not ty[1]:
                return UNIT
            if ty[0] == "adt":
                a = prog.adts.get(ty[1])
                if a and ty[3] == "struct":
                    return StructV([])
            return self.mat(st, ty, "zst")
        if "promoted" in o:
            pid = None
            for bid in (ctx.body["id"].split("::{promoted#")[0] + "::{promoted#%d}" % o["promoted"],):
                if bid in prog.bodies:
                    pid = bid
            if pid is not None:
                res = self.exec_body(prog.bodies[pid], ctx.gargs, [], st, ctx, ("promoted", o["promoted"]), keep_frame=True)
                if len(res) == 1:
                    st2, v = res[0]
                    # promoted constants have no side effects; their frame holds the constant's storage
                    for k, c in st2.cells.items():
                        if k not in st.cells:
                            st.cells[k] = c
                    st.bounds.update(st2.bounds)
                    return v
        it = self.int_ty(ty)
        if it is not None:
            return self.fresh_int(st, "const?", it)
        return TopV(ty, "const")

    def operand(self, ctx, st, o):
        k = o["k"]
        if k in ("copy", "move"):
            return self.load(ctx, st, o["place"])
        if k == "const":
            return self.const_val(ctx, st, o)
        if k == "runtimechecks":
            return IntV(Aff.const(0), (1, False))
        return TopV(None)

    def operand_ty(self, ctx, o):
        prog = self.prog
        if o["k"] in ("copy", "move"):
            mp = o["place"]
            ty = prog.ty(ctx.body["locals"][mp["l"]]["ty"], ctx.subst)
            for e in mp["p"]:
                k = e["k"]
                if k == "deref":
                    ty = ty[2] if ty and ty[0] in ("ref", "rawptr") else None
                elif k == "field":
                    ty = prog.ty(e["ty"], ctx.subst)
                elif k in ("index", "constindex"):
                    ty = ty[1] if ty and ty[0] in ("slice", "array") else None
                elif k == "downcast":
                    pass
                else:
                    ty = None
            return ty
        if o["k"] == "const":
            return prog.ty(o["ty"], ctx.subst)
        return None

    def as_int(self, st, v, ty=None, hint="v"):
        if isinstance(v, IntV):
            return v
        it = ty if ty is not None else (64, False)
        return self.fresh_int(st, hint, it)

    # --------------------------------------------------------- rvalues --
    def bits_of(self, st, v, width):
        """known bits of an IntV (LSB first)"""
        if v.bits is not None and len(v.bits) == width:
            return v.bits
        if v.aff.is_const():
            c = v.aff.c & ((1 << width) - 1)
            return tuple((c >> i) & 1 for i in range(width))
        lo, hi = st.range(v.aff)
        bs = []
        sg = v.aff.single()
        if (sg is None or sg[1] != 1) and v.aff.t and lo >= 0 and hi < (1 << width):
            # positional arithmetic: c0 + sum 2^k_i * s_i with the fields [k_i, k_i + width(s_i)) disjoint - the bits
            # of the value are the bits of the s_i side by side (no carries)
            out = [0] * width
            used = [False] * width
            ok = v.aff.c >= 0
            for sy, co in v.aff.t:
                if co <= 0 or co & (co - 1):
                    ok = False
                    break
                k = co.bit_length() - 1
                slo, shi = st.lo_hi(sy)
                if slo < 0 or shi >= (1 << width):
                    ok = False
                    break
                wi = max(shi.bit_length(), 1)
                if k + wi > width or any(used[k:k + wi]):
                    ok = False
                    break
                sub = self.bits_of(st, IntV(Aff.sym(sy), (wi, False)), wi)
                for j in range(wi):
                    used[k + j] = True
                    out[k + j] = sub[j]
            if ok and v.aff.c:
                for i in range(width):
                    if (v.aff.c >> i) & 1:
                        if used[i]:
                            ok = False
                            break
                        out[i] = 1
            if ok:
                return tuple(out)
        if (sg is None or sg[1] != 1 or sg[2] != 0) and lo >= 0 and hi < (1 << width) and lo < hi and len(v.aff.t) <= 3:
            # name the value so that its bits can be tracked: z == aff
            z = self.pure_int(st, ("alias", v.aff), "v", (width, False), lo, hi, ("alias", v.aff))
            st.add_fact(z.aff - v.aff)
            st.add_fact(v.aff - z.aff)
            sg = z.aff.single()
        for i in range(width):
            if lo >= 0 and hi < (1 << i):
                bs.append(0)
            elif sg is not None and sg[1] == 1 and sg[2] == 0 and lo >= 0 and hi < (1 << width):
                bs.append(("b", sg[0], i))
            else:
                bs.append(None)
        return tuple(bs)

    def from_bits(self, st, bits, ty, hint="bits"):
        """IntV for a bit vector: constant if fully known, the originating
        symbol if it is exactly that symbol's bits, else a fresh bounded symbol"""
        w = len(bits)
        if all(b in (0, 1) for b in bits):
            c = sum(b << i for i, b in enumerate(bits))
            return IntV(Aff.const(c), ty, bits=bits)
        # identity: every bit is either that bit of one symbol or a zero the
        # symbol's bound already implies
        syms = set(b[1] for b in bits if isinstance(b, tuple))
        if len(syms) == 1 and not any(b == 1 or b is None for b in bits):
            s = next(iter(syms))
            lo, hi = st.lo_hi(s)
            ok = lo >= 0 and hi < (1 << w)
            for i, b in enumerate(bits):
                if isinstance(b, tuple):
                    if b[2] != i:
                        ok = False
                elif hi >= (1 << i):
                    ok = False
            if ok:
                return IntV(Aff.sym(s), ty, bits=bits)
        hi = sum((0 if b == 0 else 1) << i for i, b in enumerate(bits))
        lo = sum((1 if b == 1 else 0) << i for i, b in enumerate(bits))
        r = self.fresh_int(st, hint, ty, lo, hi, info=("bits", bits))
        r.bits = bits
        # a pure mask of one symbol (r = s & m): s - r >= 0 and s <= r + (bits of s outside m)
        if len(syms) == 1 and not any(b == 1 or b is None for b in bits) and all(b[2] == i for i, b in enumerate(bits) if isinstance(b, tuple)):
            s = next(iter(syms))
            slo, shi = st.lo_hi(s)
            if slo >= 0 and shi < (1 << 64):
                rest = sum(1 << i for i in range(max(shi.bit_length(), 1)) if i >= w or not isinstance(bits[i], tuple))
                st.add_fact(Aff.sym(s) - r.aff)
                st.add_fact(r.aff + rest - Aff.sym(s))
        return r

    def binop(self, ctx, st, op, a, b, ty_a, site):
        """-> Value (for *WithOverflow a StructV (result, flag))"""
        it = self.int_ty(ty_a) or (a.ty if isinstance(a, IntV) else None) or (64, False)
        a = self.as_int(st, a, it, "a")
        b = self.as_int(st, b, it if op not in ("Shl", "Shr", "ShlUnchecked", "ShrUnchecked") else None, "b")
        base = op.replace("WithOverflow", "").replace("Unchecked", "")
        lo, hi = int_range(it)
        if base in ("Add", "Sub", "Mul"):
            if base == "Add":
                e = a.aff + b.aff
            elif base == "Sub":
                e = a.aff - b.aff
            else:
                if a.aff.is_const():
                    e = b.aff.scale(a.aff.c)
                elif b.aff.is_const():
                    e = a.aff.scale(b.aff.c)
                else:
                    al, ah = st.range(a.aff)
                    bl, bh = st.range(b.aff)
                    cands = [al * bl, al * bh, ah * bl, ah * bh] if max(abs(al), abs(ah), abs(bl), abs(bh)) < INF else [-INF, INF]
                    x, y = (a.aff, b.aff) if repr(a.aff) <= repr(b.aff) else (b.aff, a.aff)
                    e = self.pure_int(st, ("mul", x, y), "mul", None, min(cands), max(cands), ("mul", a.aff, b.aff)).aff
            if op.endswith("WithOverflow"):
                flag = IntV(Aff.sym(self.fresh(st, "ovf", 0, 1)), (1, False), cond=("ovf", e, lo, hi))
                return StructV([IntV(e, it), flag])
            if op.endswith("Unchecked"):
                return IntV(e, it)
            # wrapping semantics unless provably in range
            if holds(st, ("ovf", e, lo, hi), False):
                return IntV(e, it)
            self.note("wrap", site, False, "%s may wrap: %r" % (op, e))
            return self.fresh_int(st, "wrap", it)
        if base in ("Div", "Rem") and not it[1] and b.aff.is_const() and b.aff.c > 1 and b.aff.c & (b.aff.c - 1) == 0 \
                and not a.aff.is_const() and st.range(a.aff)[0] >= 0 and op in ("Div", "Rem"):
            # unsigned division / remainder by a power of two: the same as a shift / a mask
            k = b.aff.c.bit_length() - 1
            if base == "Div":
                return self.binop(ctx, st, "Shr", a, IntV(Aff.const(k), (32, False)), ty_a, site)
            return self.binop(ctx, st, "BitAnd", a, IntV(Aff.const(b.aff.c - 1), it), ty_a, site)
        if base in ("Div", "Rem"):
            bl, bh = st.range(b.aff)
            al, ah = st.range(a.aff)
            if base == "Div" and bl > 0 and al >= 0:
                if b.aff.is_const() and a.aff.is_const():
                    return IntV(Aff.const(a.aff.c // b.aff.c), it)
                # exact division of a tracked product by one of its factors
                sg = a.aff.single()
                if sg is not None and sg[1] == 1 and sg[2] == 0:
                    inf = self.syminfo.get(sg[0])
                    if inf and inf[0] == "mul" and len(inf) >= 3:
                        if inf[2] == b.aff:
                            return IntV(inf[1], it)
                        if inf[1] == b.aff:
                            return IntV(inf[2], it)
                r = self.fresh_int(st, "div", it, al // bh if bh < INF else 0, ah // bl if ah < INF else None)
                if b.aff.is_const():
                    # q*b <= a < q*b + b
                    k = b.aff.c
                    st.add_fact(a.aff - r.aff.scale(k))
                    st.add_fact(r.aff.scale(k) + (k - 1) - a.aff)
                return r
            if base == "Rem" and bl > 0 and al >= 0:
                return self.fresh_int(st, "rem", it, 0, bh - 1 if bh < INF else None)
            return self.fresh_int(st, "divrem", it)
        if base in ("Eq", "Ne", "Lt", "Le", "Gt", "Ge"):
            cond = ("cmp", base, a.aff, b.aff)
            if holds(st, cond, True):
                return IntV(Aff.const(1), (1, False), cond=("const", True))
            if holds(st, cond, False):
                return IntV(Aff.const(0), (1, False), cond=("const", False))
            return IntV(Aff.sym(self.fresh(st, "cmp", 0, 1)), (1, False), cond=cond)
        w = it[0]
        if base in ("BitAnd", "BitOr", "BitXor"):
            if w == 1:
                ca = a.cond if a.cond is not None else ("cmp", "Ne", a.aff, Aff.const(0))
                cb = b.cond if b.cond is not None else ("cmp", "Ne", b.aff, Aff.const(0))
                if base == "BitAnd":
                    c = ("and", ca, cb)
                elif base == "BitOr":
                    c = ("or", ca, cb)
                else:
                    c = None
                if c is not None and holds(st, c, True):
                    return IntV(Aff.const(1), it, cond=("const", True))
                if c is not None and holds(st, c, False):
                    return IntV(Aff.const(0), it, cond=("const", False))
                return IntV(Aff.sym(self.fresh(st, "b", 0, 1)), it, cond=c)
            if it[1]:
                return self.fresh_int(st, "bit", it)
            ba, bb_ = self.bits_of(st, a, w), self.bits_of(st, b, w)
            out = []
            for x, y in zip(ba, bb_):
                if base == "BitAnd":
                    if x == 0 or y == 0:
                        out.append(0)
                    elif x == 1:
                        out.append(y)
                    elif y == 1:
                        out.append(x)
                    elif x == y:
                        out.append(x)
                    else:
                        out.append(None)
                elif base == "BitOr":
                    if x == 1 or y == 1:
                        out.append(1)
                    elif x == 0:
                        out.append(y)
                    elif y == 0:
                        out.append(x)
                    elif x == y:
                        out.append(x)
                    else:
                        out.append(None)
                else:
                    if x in (0, 1) and y in (0, 1):
                        out.append(x ^ y)
                    elif x == 0:
                        out.append(y)
                    elif y == 0:
                        out.append(x)
                    else:
                        out.append(None)
            if base in ("BitOr", "BitXor") and all(x == 0 or y == 0 for x, y in zip(ba, bb_)):
                # no position where both may be set: no carries, a | b == a ^ b == a + b
                return IntV(a.aff + b.aff, it, bits=tuple(out) if any(x is not None for x in out) else None)
            return self.from_bits(st, tuple(out), it, base.lower())
        if base in ("Shl", "Shr"):
            if it[1]:
                return self.fresh_int(st, "sh", it)
            if b.aff.is_const():
                k = b.aff.c
                if k < 0 or k >= w:
                    return self.fresh_int(st, "sh", it)
                ba = self.bits_of(st, a, w)
                if base == "Shl":
                    out = (0,) * k + tuple(ba[:w - k])
                else:
                    out = tuple(ba[k:]) + (0,) * k
                if k == 0:
                    return a
                r = self.from_bits(st, out, it, base.lower())
                if base == "Shr" and not r.aff.is_const():
                    # a = r * 2^k + low, 0 <= low < 2^k
                    st.add_fact(a.aff - r.aff.scale(1 << k))
                    st.add_fact(r.aff.scale(1 << k) + ((1 << k) - 1) - a.aff)
                if base == "Shl" and not r.aff.is_const():
                    al, ah = st.range(a.aff)
                    if al >= 0 and ah < (1 << (w - k)):
                        return IntV(a.aff.scale(1 << k), it, bits=out)
                return r
            # variable shift
            al, ah = st.range(a.aff)
            bl, bh = st.range(b.aff)
            if base == "Shl" and a.aff.is_const() and bl >= 0 and bh < w:
                c = a.aff.c
                sh = b.aff
                if c > 1 and c & (c - 1) == 0 and bh + c.bit_length() - 1 < w:
                    # 2^k << x is 1 << (x + k): one normal form, so that equal sizes get the same symbol
                    k = c.bit_length() - 1
                    c, sh, bl, bh = 1, b.aff + k, bl + k, bh + k
                r = self.pure_int(st, ("shl", c, sh, it), "shl", it, c << bl, min(c << bh, hi))
                r.origin = ("shl", c, sh)
                if c == 1 and bl == 0:
                    # 1 << n as linear facts (what the operator-impl model gets by splitting n == 0 / n >= 1):
                    # 2^n >= n + 1, and 2^n <= 1 + n * 2^(w-1), i.e. n == 0 gives exactly 1
                    st.add_fact(r.aff - sh - 1)
                    st.add_fact(Aff.const(1) + sh.scale(1 << (w - 1)) - r.aff)
                return r
            if base == "Shr" and al >= 0:
                return self.fresh_int(st, "shr", it, 0, ah if ah < INF else None)
            return self.fresh_int(st, "sh", it)
        if base == "Cmp":
            return self.mat(st, ("adt", "core::cmp::Ordering", (), "enum"), "cmp")
        if base == "Offset":
            if isinstance(a, PtrV) and isinstance(b, IntV):
                return PtrV(a.place, a.off + b.aff, a.gen, a.mut)
            return TopV(None)
        return self.fresh_int(st, "binop", it)

    def cast(self, ctx, st, kind, v, src_ty, dst_ty, site):
        dit = self.int_ty(dst_ty)
        if kind == "IntToInt" and dit is not None:
            sit = self.int_ty(src_ty) or (64, False)
            v = self.as_int(st, v, sit, "cast")
            lo, hi = int_range(dit)
            vl, vh = st.range(v.aff)
            if vl >= lo and vh <= hi:
                nb = None
                if v.bits is not None and not sit[1] and not dit[1]:
                    nb = tuple(v.bits[:dit[0]]) + (0,) * max(0, dit[0] - len(v.bits))
                self.note("cast", site, True, "lossless %r" % (v.aff,), cast=(sit, dit))
                return IntV(v.aff, dit, bits=nb)
            if holds(st, ("ovf", v.aff, lo, hi), False):
                self.note("cast", site, True, "lossless %r" % (v.aff,), cast=(sit, dit))
                return IntV(v.aff, dit)
            self.note("cast", site, False, "narrowing cast may truncate: %r in [%s, %s] to %s bits" % (v.aff, vl, vh, dit[0]), cast=(sit, dit))
            if not sit[1] and not dit[1]:
                sb = self.bits_of(st, v, sit[0])
                return self.from_bits(st, tuple(sb[:dit[0]]), dit, "trunc")
            return self.fresh_int(st, "trunc", dit)
        if kind.startswith("PointerCoercion(Unsize"):
            # &[T; N] -> &[T], &Vec... etc.
            if isinstance(v, RefV) and src_ty and src_ty[0] == "ref" and src_ty[2][0] == "array":
                n = src_ty[2][2]
                return SliceV(Aff.const(n if n is not None else 0), ("arr", v.place), Aff.const(0), v.mut)
            if isinstance(v, SliceV):
                return v
            return self.mat(st, dst_ty, "unsize") if dst_ty and dst_ty[0] == "ref" and dst_ty[2][0] in ("slice", "str") else v
        if kind in ("PtrToPtr", "PointerCoercion(MutToConstPointer, Implicit)") or kind.startswith("PointerCoercion(MutToConstPointer"):
            return v
        if kind == "PointerExposeProvenance":
            # `ptr as usize`
            if isinstance(v, PtrV) and isinstance(v.place, tuple) and v.place[0] == "strbase":
                # address of a str region: base address symbol + offset
                return IntV(Aff.sym(v.place[1]) + v.off, USIZE)
            return self.fresh_int(st, "addr", USIZE)
        if kind == "Transmute":
            return TopV(dst_ty)
        if dit is not None:
            return self.fresh_int(st, "cast", dit)
        return v if kind.startswith("PointerCoercion") else TopV(dst_ty)

    def rvalue(self, ctx, st, rv, dest_ty, site):
        prog = self.prog
        k = rv["k"]
        if k == "use":
            return self.operand(ctx, st, rv["op"])
        if k == "ref":
            ps_ = rv["place"]["p"]
            if len(ps_) >= 2 and ps_[-1]["k"] in ("subslice", "constindex") and ps_[-2]["k"] == "deref":
                # slice patterns: `tail @ ..` is &(*s)[from..len-to], `&x` at a fixed position an element of s
                bplace, bty = self.resolve(ctx, st, {"l": rv["place"]["l"], "p": ps_[:-2]})
                if isinstance(bplace, Place):
                    bv = self.ensure(st, bplace, bty, self.hint_of(ctx, bplace))
                    e_ = ps_[-1]
                    if isinstance(bv, SliceV):
                        self.pattern_len_check(ctx, st, bv, int(e_.get("min", 0)) if e_["k"] == "constindex" else int(e_["from"]) + (int(e_["to"]) if e_.get("from_end") else 0))
                    if isinstance(bv, SliceV) and e_["k"] == "subslice":
                        frm = int(e_["from"])
                        if e_.get("from_end"):
                            return SliceV(bv.len - frm - int(e_["to"]), bv.base, bv.off + frm, bv.mut)
                        return SliceV(Aff.const(int(e_["to"]) - frm), bv.base, bv.off + frm, bv.mut)
                    if isinstance(bv, SliceV) and e_["k"] == "constindex" and bv.base is not None:
                        ety = bty[2][1] if bty and bty[0] == "ref" and bty[2][0] == "slice" else None
                        it_ = self.int_ty(ety)
                        if it_ is not None:
                            ix = (bv.len - int(e_["off"])) if e_.get("from_end") else Aff.const(int(e_["off"]))
                            self.nsym += 1
                            key_ = ("h", "elem*%d" % self.nsym)
                            st.cells[key_] = self.fresh_int(st, "elem", it_, info=("elem", bv.base, bv.off + ix))
                            return RefV(Place(key_), rv["mut"])
            place, ty = self.resolve(ctx, st, rv["place"])
            if isinstance(place, Place):
                if ty is not None and ty[0] in ("slice", "str"):
                    v = self.read(st, place)
                    if isinstance(v, SliceV):
                        return v
                # reborrow of a slice: &(*_20) where _20: &[u8]
                return RefV(place, rv["mut"])
            if place[0] == "slice":
                return place[1]
            return self.mat(st, dest_ty, "ref")
        if k == "rawptr":
            place, ty = self.resolve(ctx, st, rv["place"])
            if isinstance(place, Place):
                if ty is not None and ty[0] in ("slice", "str"):
                    v = self.read(st, place)
                    if isinstance(v, SliceV):
                        return v
                return RefV(place, True)
            if place[0] == "slice":
                return place[1]
            return TopV(dest_ty)
        if k == "bin":
            a = self.operand(ctx, st, rv["a"])
            b = self.operand(ctx, st, rv["b"])
            if rv["op"] in ("Eq", "Ne") and (isinstance(a, PtrV) or isinstance(b, PtrV)):
                return self.fresh_int(st, "ptrcmp", (1, False))
            return self.binop(ctx, st, rv["op"], a, b, self.operand_ty(ctx, rv["a"]), site)
        if k == "un":
            a = self.operand(ctx, st, rv["a"])
            op = rv["op"]
            if op == "PtrMetadata":
                if isinstance(a, SliceV):
                    return IntV(a.len, USIZE)
                return self.fresh_int(st, "meta", USIZE, 0, ISIZE_MAX)
            if op == "Not":
                ty = self.operand_ty(ctx, rv["a"])
                it = self.int_ty(ty) or (1, False)
                a = self.as_int(st, a, it, "not")
                if it[0] == 1:
                    c = a.cond if a.cond is not None else ("cmp", "Ne", a.aff, Aff.const(0))
                    if holds(st, c, True):
                        return IntV(Aff.const(0), it, cond=("const", False))
                    if holds(st, c, False):
                        return IntV(Aff.const(1), it, cond=("const", True))
                    return IntV(Aff.const(1) - a.aff, it, cond=("not", c))
                if not it[1]:
                    lo, hi = int_range(it)
                    return IntV(Aff.const(hi) - a.aff, it)
                return self.fresh_int(st, "not", it)
            if op == "Neg":
                ty = self.operand_ty(ctx, rv["a"])
                it = self.int_ty(ty) or (64, True)
                a = self.as_int(st, a, it, "neg")
                return IntV(-a.aff, it)
            return TopV(dest_ty)
        if k == "cast":
            v = self.operand(ctx, st, rv["op"])
            return self.cast(ctx, st, rv["kind"], v, self.operand_ty(ctx, rv["op"]), prog.ty(rv["ty"], ctx.subst), site)
        if k == "discr":
            place, ty = self.resolve(ctx, st, rv["place"])
            if isinstance(place, Place):
                v = self.ensure(st, place, ty, self.hint_of(ctx, place))
                if isinstance(v, EnumV):
                    ds = []
                    for vi in v.variants:
                        d = prog.discr_of_variant(v.path, vi)
                        ds.append(d if d is not None else vi)
                    if len(ds) == 1:
                        r = IntV(Aff.const(ds[0]), (64, True))
                    else:
                        r = self.fresh_int(st, "discr", (64, True), min(ds), max(ds))
                        self.discr_syms[r.aff.t[0][0]] = (place, v.path, frozenset(v.variants))
                    r.origin = ("discr", place, v.path)
                    return r
            return self.fresh_int(st, "discr", (64, True))
        if k == "aggregate":
            kind = rv["kind"]
            ops = [self.operand(ctx, st, o) for o in rv["ops"]]
            kk = kind["k"]
            if kk in ("tuple", "closure"):
                return StructV(ops)
            if kk == "array":
                if 0 < len(ops) <= 16:
                    return OpaqueV(dest_ty, (("array_len", len(ops)), ("elems", StructV(ops))))
                return OpaqueV(dest_ty, (("array_len", len(ops)),))
            if kk == "adt":
                a = prog.adts.get(kind["path"])
                if a is not None and a["kind"] == "enum":
                    return EnumV(kind["path"], {kind["variant"]: StructV(ops)}, dest_ty)
                return StructV(ops)
            if kk == "rawptr":
                return ops[0] if ops else TopV(dest_ty)
            return TopV(dest_ty)
        if k == "repeat":
            return OpaqueV(dest_ty, (("array_len", rv["count"]),))
        return TopV(dest_ty)

    # ------------------------------------------------------ statements --
    def exec_stmt(self, ctx, st, bi, si, s):
        if s["k"] == "assign":
            mp = s["place"]
            dty = self.place_ty(ctx, mp)
            site = None
            if self.recording:
                sp = s["span"]
                site = {"fn": ctx.body["path"], "id": ctx.body["id"], "bb": bi, "si": si,
                        "file": sp.get("cf", sp["f"]) if "exp" in sp else sp["f"],
                        "line": sp.get("cl", sp["l"]) if "exp" in sp else sp["l"], "stack": ctx.stack}
            ctx.cur_site = site
            v = self.rvalue(ctx, st, s["rv"], dty, site)
            if self.store_hooks and self.recording:
                tp, _ = self.resolve(ctx, st, mp)
                if isinstance(tp, Place):
                    for h in self.store_hooks:
                        h(self, ctx, st, tp, v, site)
            self.store(ctx, st, mp, v)
            for h in self.value_hooks:
                h(self, ctx, st, v)
            for h in self.stmt_hooks:
                if self.recording:
                    h(self, ctx, st, bi, si, s, v)
        elif s["k"] == "setdiscr":
            place, ty = self.resolve(ctx, st, s["place"])
            if isinstance(place, Place):
                v = self.read(st, place)
                if isinstance(v, EnumV):
                    self.write(st, place, EnumV(v.path, {s["variant"]: v.variants.get(s["variant"]) or StructV([])}, v.ty))

    def place_ty(self, ctx, mp):
        prog = self.prog
        ty = prog.ty(ctx.body["locals"][mp["l"]]["ty"], ctx.subst)
        for e in mp["p"]:
            k = e["k"]
            if k == "deref":
                ty = ty[2] if ty and ty[0] in ("ref", "rawptr") else None
            elif k == "field":
                ty = prog.ty(e["ty"], ctx.subst)
            elif k in ("index", "constindex"):
                ty = ty[1] if ty and ty[0] in ("slice", "array") else None
            elif k == "downcast":
                pass
            else:
                ty = None
        return ty

    # ------------------------------------------------------ terminators --
    def exec_block(self, ctx, bi, st):
        """-> list of (target block, state)"""
        self.stats["blocks"] += 1
        bb = ctx.body["blocks"][bi]
        for si, s in enumerate(bb["stmts"]):
            self.exec_stmt(ctx, st, bi, si, s)
            if st.dead:
                return []
        t = bb["term"]
        k = t["k"]
        if k == "goto":
            return [(t["t"], st)]
        if k == "return":
            ctx.returns.append(st)
            return []
        if k in ("unreachable", "resume", "terminate"):
            return []
        if k == "drop":
            return [(t["t"], st)]
        if k == "switch":
            return self.exec_switch(ctx, bi, st, t)
        if k == "assert":
            v = self.operand(ctx, st, t["cond"])
            v = self.as_int(st, v, (1, False), "assert")
            cond = v.cond if v.cond is not None else ("cmp", "Ne", v.aff, Aff.const(0))
            exp = t["expected"]
            ok = holds(st, cond, exp)
            site = self.site(ctx, bi, t["msg"]) if self.recording else None
            if self.recording:
                ops = [self.operand(ctx, st, o) for o in t["ops"]]
                lemma = None
                if not ok:
                    lemma = self.length_sum_lemma(st, cond, exp)
                    if lemma:
                        ok = True
                if not ok and self.state_infeasible(st):
                    # the path itself is contradictory (a symbol is entailed beyond its own bound through the recorded
                    # facts): nothing can fail on it
                    ok = True
                self.note("assert:" + t["msg"], site, ok,
                          None if ok else self.explain(st, cond, exp, ops), st=st, lemma=lemma,
                          definite=(not ok) and holds(st, cond, not exp),
                          operands=[o.aff if isinstance(o, IntV) else None for o in ops])
            out = assume(st, cond, exp)
            return [(t["t"], s2) for s2 in out]
        if k == "call":
            outs = self.exec_call(ctx, bi, st, t)
            if t["t"] is None:
                return []
            return [(t["t"], s2) for s2 in outs if not s2.dead]
        self.imprecise.append("terminator %s in %s" % (k, ctx.body["path"]))
        return []

    def refine_discr(self, st):
        """narrow enum variant sets whose discriminant symbol has been constrained"""
        if not self.discr_syms:
            return
        for sym, (place, path, orig) in list(self.discr_syms.items()):
            b = st.bounds.get(sym)
            if b is None:
                continue
            ev = self.read(st, place)
            if not isinstance(ev, EnumV) or ev.path != path or not set(ev.variants) <= orig or len(ev.variants) < 2:
                continue
            lo, hi = b
            ex = st.excl.get(sym, ())
            keep = {}
            for vi, p in ev.variants.items():
                d = self.prog.discr_of_variant(path, vi)
                if d is None:
                    d = vi
                if lo <= d <= hi and d not in ex:
                    keep[vi] = p
            if keep and len(keep) < len(ev.variants):
                self.write(st, place, EnumV(ev.path, keep, ev.ty))

    def state_infeasible(self, st, limit=24):
        """cheap contradiction test, used only where an obligation could not be shown: some symbol that occurs in a recorded
        fact is entailed (by combining facts) to lie beyond the bound the state holds for it"""
        if st.dead:
            return True
        seen = []
        for f in st.facts:
            for sy, _ in f.t:
                if sy not in seen:
                    seen.append(sy)
        for sy in seen[-limit:]:
            lo, hi = st.bounds.get(sy, (-INF, INF))
            if hi < INF and st.entails(Aff.sym(sy) - (hi + 1)):
                return True
            if lo > -INF and st.entails(Aff.const(lo - 1) - Aff.sym(sy)):
                return True
        return False

    def is_len_sym(self, s):
        inf = self.syminfo.get(s)
        if inf is not None and inf[0] == "len":
            return True
        base = s.split("#")[0]
        return base.startswith("len") or base.endswith(".len") or base.endswith(".slen") or base.endswith("chunklen")

    def length_sum_lemma(self, st, cond, exp):
        """lemma 5: a sum of lengths of distinct live byte buffers plus a small
        constant cannot overflow usize (they all fit the address space)"""
        if exp or cond is None or cond[0] != "ovf" or cond[3] != (1 << 64) - 1:
            return None
        e = cond[1]
        if not e.t or e.c < 0 or e.c > (1 << 32):
            return None
        for s, k in e.t:
            if k != 1 or not self.is_len_sym(s):
                return None
            lo, hi = st.lo_hi(s)
            if lo < 0 or hi > ISIZE_MAX:
                return None
        if len(e.t) > 6:
            return None
        return "sum-of-lengths(%d)" % len(e.t)

    def explain(self, st, cond, exp, ops):
        def rng(v):
            if isinstance(v, IntV):
                lo, hi = st.range(v.aff)
                return "%r in [%s, %s]" % (v.aff, lo if lo > -INF else "-inf", hi if hi < INF else "+inf")
            return repr(v)
        return "cannot prove %s%r; operands: %s" % ("" if exp else "not ", cond, "; ".join(rng(o) for o in ops))

    def err_only(self, body, b, depth=0):
        """does block b lead straight (no branching) to a return of Result::Err?"""
        key = (body["id"], b)
        c = self._err_only.get(key)
        if c is not None:
            return c
        res = False
        seen_err = False
        cur = b
        for _ in range(10):
            bb = body["blocks"][cur]
            for s_ in bb["stmts"]:
                if s_["k"] == "assign" and s_["place"]["l"] == 0 and not s_["place"]["p"]:
                    rv = s_["rv"]
                    if rv["k"] == "aggregate" and rv["kind"].get("path") == "core::result::Result":
                        seen_err = rv["kind"].get("variant") == 1
                    else:
                        seen_err = False
            t = bb["term"]
            if t["k"] == "call":
                p = (t.get("resolved") or t.get("callee") or {}).get("path", "")
                if "FromResidual" in p and "from_residual" in p and t["dest"]["l"] == 0 and not t["dest"]["p"]:
                    seen_err = True
                    cur = t["t"]
                    if cur is None:
                        break
                    continue
                break
            if t["k"] in ("goto", "drop"):
                cur = t["t"]
                continue
            if t["k"] == "return":
                res = seen_err
            break
        self._err_only[key] = res
        return res

    def probe(self, ctx, block, st, budget=60):
        """forced continuation from `block` with state st: returns the events
        recorded until the next error-guarded branch / loop boundary / return"""
        saved_events = self.events
        saved_rec = self.recording
        saved_probe = self.probe_mode
        n_ret = len(ctx.returns)
        self.events = []
        self.recording = True
        self.probe_mode = True
        try:
            self.run_region(ctx, ctx.info.inner.get(block), {block: [st]})
        except Exception:
            pass
        finally:
            out = self.events
            self.events = saved_events
            self.recording = saved_rec
            self.probe_mode = saved_probe
            del ctx.returns[n_ret:]
        return out

    def exec_switch(self, ctx, bi, st, t):
        targets = [a[1] for a in t["arms"]] + [t["otherwise"]]
        has_err = self.edge_hooks and any(self.err_only(ctx.body, x) for x in targets)
        if self.probe_mode and has_err:
            return []
        out = self.exec_switch_(ctx, bi, st, t)
        if has_err and self.recording and not self.probe_mode:
            errs = [(tg, s2) for tg, s2 in out if self.err_only(ctx.body, tg)]
            oks = sorted(set(tg for tg in targets if not self.err_only(ctx.body, tg)))
            for tg, s2 in errs:
                for h in self.edge_hooks:
                    h(self, ctx, bi, tg, s2, oks)
        return out

    def exec_switch_(self, ctx, bi, st, t):
        v = self.operand(ctx, st, t["op"])
        ty = self.prog.ty(t["ty"], ctx.subst)
        it = self.int_ty(ty) or (64, True)
        v = self.as_int(st, v, it, "sw")
        out = []
        arms = [(int(a[0]), a[1]) for a in t["arms"]]
        if it[1]:
            # switch values are the unsigned bit pattern
            arms = [((x - (1 << it[0])) if x >= (1 << (it[0] - 1)) else x, tg) for x, tg in arms]
        # boolean with a condition
        if it[0] == 1 and v.cond is not None:
            for val, tg in arms:
                s2 = st.copy()
                for s3 in assume(s2, v.cond, bool(val)):
                    s3.add_eq(v.aff, Aff.const(val))
                    if not s3.dead:
                        self.refine_discr(s3)
                        out.append((tg, s3))
            if len(arms) == 1:
                s2 = st.copy()
                for s3 in assume(s2, v.cond, not bool(arms[0][0])):
                    s3.add_eq(v.aff, Aff.const(1 - arms[0][0]))
                    if not s3.dead:
                        self.refine_discr(s3)
                        out.append((t["otherwise"], s3))
            elif len(arms) == 0:
                out.append((t["otherwise"], st))
            return out
        origin = v.origin
        if origin is not None and origin[0] == "discr":
            place, path = origin[1], origin[2]
            ev = self.read(st, place)
            if isinstance(ev, EnumV):
                remaining = dict(ev.variants)
                for val, tg in arms:
                    vi = self.prog.variant_of_discr(path, val)
                    if vi is None:
                        vi = val
                    if vi in ev.variants:
                        s2 = st.copy()
                        self.write(s2, place, EnumV(ev.path, {vi: ev.variants[vi]}, ev.ty))
                        out.append((tg, s2))
                        remaining.pop(vi, None)
                if remaining:
                    s2 = st.copy()
                    self.write(s2, place, EnumV(ev.path, remaining, ev.ty))
                    out.append((t["otherwise"], s2))
                return out
        for val, tg in arms:
            if not st.may_equal_const(v.aff, val):
                continue
            s2 = st.copy()
            s2.add_eq(v.aff, Aff.const(val))
            if not s2.dead:
                out.append((tg, s2))
        s2 = st
        for val, _ in arms:
            s2.add_ne(v.aff, Aff.const(val))
            if s2.dead:
                break
        if not s2.dead:
            out.append((t["otherwise"], s2))
        return out

    # ------------------------------------------------------------ calls --
    def exec_call(self, ctx, bi, st, t):
        """-> list of states with the destination assigned"""
        self.stats["calls"] += 1
        prog = self.prog
        body, gargs, desc = prog.resolve_call(t, ctx.subst)
        args = [self.operand(ctx, st, a) for a in t["args"]]
        if "indirect" in t:
            fv = self.operand(ctx, st, t["indirect"])
            if isinstance(fv, FnV):
                fake = dict(t)
                fake["callee"] = fv.desc
                fake.pop("indirect")
                body, gargs, desc = prog.resolve_call(fake, ctx.subst)
        call = Call()
        call.term = t
        call.args = args
        call.desc = desc
        call.gargs = gargs
        call.dest_ty = prog.ty(t["dest_ty"], ctx.subst)
        call.site = self.site(ctx, bi, desc.get("path")) if True else None
        call.ctx = ctx
        call.arg_tys = [self.operand_ty(ctx, a) for a in t["args"]]
        call.path = desc.get("path", "?")
        call.name = desc.get("name")
        if self.recording:
            for h in self.call_hooks:
                h(self, st, call, body)
        results = None
        model = self.extra_models.get(call.path)
        if model is not None:
            results = model(self, st, call)
        if results is None and body is not None and (body["path"] == ctx.body["path"] or any(fr[0] == body["path"] for fr in ctx.stack)):
            # a call back into a function that is already being analysed: no descent (each level would re-analyse the
            # whole body); the result is havoced and termination is reported as not established
            msg = "recursive call of %s (from %s): termination and effect of the recursion are not established" % (body["path"], ctx.body["path"])
            if msg not in self.imprecise:
                self.imprecise.append(msg)
            body = None
        if results is None and body is not None and ctx.depth < self.max_depth:
            if desc.get("closure_call"):
                # FnMut::call_mut(&mut closure, (args,)) : unpack the tuple
                env = args[0]
                if desc.get("via_ref") and isinstance(env, RefV):
                    env = self.read(st, env.place)
                    if isinstance(env, RefV):
                        pass
                tup = args[1] if len(args) > 1 else UNIT
                cargs = [args[0]] + (list(tup.fields) if isinstance(tup, StructV) else [TopV(None)] * (body["arg_count"] - 1))
                if desc.get("via_ref") and isinstance(args[0], RefV):
                    inner = self.read(st, args[0].place)
                    if isinstance(inner, RefV):
                        cargs[0] = inner
                results = self.exec_body(body, gargs, cargs, st, ctx, bi)
            elif t.get("resolved_kind") == "ClosureOnceShim":
                # call_once(closure, (args,)) on an FnMut closure: body takes &mut env
                tup = args[1] if len(args) > 1 else UNIT
                self.nsym += 1
                key = ("h", "closure_env*%d" % self.nsym)
                st.cells[key] = args[0]
                cargs = [RefV(Place(key), True)] + (list(tup.fields) if isinstance(tup, StructV) else [])
                results = self.exec_body(body, gargs, cargs, st, ctx, bi)
            elif body.get("kind") == "Closure" and t.get("callee", {}).get("trait", "").startswith("core::ops::function::Fn"):
                tup = args[1] if len(args) > 1 else UNIT
                cargs = [args[0]] + (list(tup.fields) if isinstance(tup, StructV) else [])
                results = self.exec_body(body, gargs, cargs, st, ctx, bi)
            else:
                results = self.exec_body(body, gargs, args, st, ctx, bi)
        if results is None:
            results = self.summaries.apply(self, st, call)
        outs = []
        for s2, rv in results:
            if s2.dead:
                continue
            if rv is not None:
                self.store(ctx, s2, t["dest"], rv)
            outs.append(s2)
        return self.limit(outs, ctx, ("call", bi))

    def call_closure(self, st, ctx, cv, cty, args, tag):
        """invoke a closure value (StructV of upvars, static closure type cty)
        with explicit arguments; -> list of (state, retval) or None"""
        if cty is None or cty[0] != "closure" or cty[1] not in self.prog.bodies:
            return None
        body = self.prog.bodies[cty[1]]
        self.nsym += 1
        key = ("h", "closure_env*%d" % self.nsym)
        st.cells[key] = cv
        # closure bodies take self by reference (Fn/FnMut) or by value (FnOnce)
        first_ty = self.prog.ty(body["locals"][1]["ty"]) if body["arg_count"] >= 1 else None
        if first_ty is not None and first_ty[0] == "ref":
            a0 = RefV(Place(key), first_ty[1])
        else:
            a0 = cv
        return self.exec_body(body, cty[3], [a0] + list(args), st, ctx, tag)

    def exec_body(self, body, gargs, args, st, caller, callsite, keep_frame=False):
        prog = self.prog
        if caller is not None:
            depth = caller.depth + 1
            stack = caller.stack + ((caller.body["path"], callsite),)
            fid = caller.fid + ((body["id"], callsite),)
            if any(f[0] == body["id"] for f in caller.fid if isinstance(f, tuple)) and len(fid) > 24:
                raise Imprecise("recursion in " + body["path"])
        else:
            depth = 0
            stack = ()
            fid = ((body["id"], "entry"),)
        self.visited_bodies.add(body["id"])
        info = self.info(body)
        subst = prog.body_subst(body, gargs)
        ctx = Ctx(body, info, fid, subst, gargs, depth, stack)
        ctx.enter_n = self.nsym
        st = st.copy()
        for i in range(body["arg_count"]):
            v = args[i] if i < len(args) else TopV(prog.ty(body["locals"][i + 1]["ty"], subst))
            st.cells[(fid, i + 1)] = v
        self.run_region(ctx, None, {0: [st]})
        outs = []
        for s2 in ctx.returns:
            rv = s2.cells.get((fid, 0))
            if rv is None:
                rv = UNIT
            if isinstance(rv, TopV) and rv.ty is None:
                rv = TopV(prog.ty(body["locals"][0]["ty"], subst))
            outs.append((s2, rv))
        hook = self.return_hooks.get(body["id"])
        if hook is not None and self.recording:
            hook(self, ctx, outs)
        if not keep_frame:
            for s2, rv in outs:
                for key in [k for k in s2.cells if k[0] == fid]:
                    del s2.cells[key]
        if len(outs) > self.K_ret and body["id"] not in self.no_join_bodies \
                and not any(body["path"].startswith(p) for p in self.no_join_prefixes):
            if caller is None and not keep_frame:
                # the entry's arguments stay roots: what they point to is read
                # by the rule after the run and must survive the join's gc
                for s2, rv in outs:
                    for i, a in enumerate(args):
                        s2.cells[("entry-arg", i)] = a
            outs = self.join_returns(outs, fid)
        return outs

    def join_returns(self, outs, fid):
        """merge return states, keeping apart returns of different shape
        (top-level variant / nested variant / constant value)"""
        def shape(v, d=0, st=None):
            if isinstance(v, IntV) and v.ty is not None and v.ty[0] == 1 and v.cond is not None and st is not None:
                if holds(st, v.cond, True):
                    return ("c", 1)
                if holds(st, v.cond, False):
                    return ("c", 0)
            if isinstance(v, EnumV):
                ks = tuple(sorted(v.variants))
                if len(ks) == 1 and d < 2:
                    p = v.variants[ks[0]]
                    return (ks, tuple(shape(f, d + 1) for f in p.fields) if isinstance(p, StructV) else None)
                return (ks,)
            if isinstance(v, IntV) and v.aff.is_const() and v.ty is not None and v.ty[0] == 1:
                return ("c", v.aff.c)
            return None
        groups = {}
        for s, rv in outs:
            groups.setdefault(shape(rv, 0, s), []).append((s, rv))
        res = []
        key = ("ret", len(fid))
        for g in groups.values():
            if len(g) == 1:
                res.append(g[0])
                continue
            sts = []
            for s, rv in g:
                s.cells[key] = rv
                sts.append(s)
            j = self.join_states(sts, ("ret", fid))
            rv = j.cells.pop(key)
            res.append((j, rv))
        return res

    # ------------------------------------------------------------ regions --
    def limit(self, states, ctx, tag):
        states = [s for s in states if not s.dead]
        if len(states) <= self.K:
            return states
        if DEBUG_JOIN:
            print("   [limit: %d states at %s in %s]" % (len(states), tag, ctx.body["path"]))
        self.stats["joins"] += 1
        return [self.join_states(states, (ctx.fid, tag))]

    def run_region(self, ctx, loop_head, entry):
        """process the blocks whose innermost loop is `loop_head`.
        -> (back edge states, [(exit target, state)])"""
        info = ctx.info
        pending = {}
        for b, sts in entry.items():
            pending[b] = list(sts)
        backs, exits = [], []
        region = info.loops[loop_head] if loop_head is not None else None

        def route(tg, s):
            if s.dead:
                return
            if loop_head is not None and tg == loop_head:
                backs.append(s)
            elif region is not None and tg not in region:
                exits.append((tg, s))
            else:
                pending.setdefault(tg, []).append(s)

        for b in info.rpo:
            if region is not None and b not in region:
                continue
            inner = info.inner.get(b)
            if b == loop_head:
                pass
            elif b in info.loops and info.parent_loop.get(b) == loop_head:
                ins = pending.pop(b, [])
                if ins:
                    for tg, s in self.run_loop(ctx, b, ins):
                        route(tg, s)
                continue
            elif inner != loop_head:
                continue  # belongs to a nested loop, handled there
            ins = pending.pop(b, [])
            if not ins:
                continue
            ins = self.limit(ins, ctx, ("bb", b))
            for s in ins:
                for tg, s2 in self.exec_block(ctx, b, s):
                    route(tg, s2)
        return backs, exits

    def try_unroll(self, ctx, h, ins, limit=None):
        """exact unrolling of a small loop: returns exits if the loop is left
        on every path within `limit` iterations, else None"""
        exits = []
        cur = list(ins)
        saved_events = len(self.events)
        saved_stats = dict(self.stats)
        if limit is None:
            limit = 9
        for k in range(limit):
            if not cur:
                return exits
            if len(cur) > 6:
                break
            nxt = []
            for s in cur:
                backs, ex = self.run_region(ctx, h, {h: [s]})
                exits.extend(ex)
                nxt.extend(backs)
            cur = nxt
        if not cur:
            return exits
        del self.events[saved_events:]
        return None

    def run_loop(self, ctx, h, ins):
        info = ctx.info
        if len(info.loops[h]) <= self.unroll_max_blocks and not any(h2 != h and h2 in info.loops[h] for h2 in info.loops):
            ex = self.try_unroll(ctx, h, [s.copy() for s in ins])
            if ex is not None:
                return ex
        if self.recording and not self.probe_mode:
            for hk in self.loop_entry_hooks:
                hk(self, ctx, h, ins)       # the individual states entering the loop, before they are joined
        live = info.live_in[h] | info.addr_taken
        head = self.join_states(ins, (ctx.fid, "pre", h)) if len(ins) > 1 else ins[0]
        # forget dead locals of this frame
        for key in [k for k in head.cells if k[0] == ctx.fid and k[1] not in live]:
            del head.cells[key]
        head.gc()
        saved = self.recording
        self.recording = False
        it = 0
        snap_key = ("snap", ctx.fid, h)

        def with_snapshot(hd):
            """the head values of this iteration stay visible (as a ghost cell)
            so that inner loops can relate their cursors to them"""
            s2 = hd.copy()
            leaves = []
            seen = set()
            for name, aff in self.int_leaves(hd, keys=[k for k in hd.cells if k[0] == ctx.fid]):
                if aff.is_const() or aff in seen or len(aff.t) > 2:
                    continue
                seen.add(aff)
                leaves.append(IntV(aff, USIZE))
                if len(leaves) >= 24:
                    break
            s2.cells[snap_key] = StructV(leaves)
            return s2
        try:
            while True:
                self.stats["loop_iters"] += 1
                backs, _ = self.run_region(ctx, h, {h: [with_snapshot(head)]})
                if not backs:
                    break
                for b in backs:
                    for key in [k for k in b.cells if k[0] == ctx.fid and k[1] not in live]:
                        del b.cells[key]
                    b.cells.pop(snap_key, None)
                    b.gc_heap()
                new, changed = self.widen(head, backs, (ctx.fid, h), it)
                if not changed:
                    break
                head = new
                it += 1
                if it > 30:
                    self.imprecise.append("loop at bb%d of %s did not stabilise" % (h, ctx.body["path"]))
                    break
        finally:
            self.recording = saved
        backs, exits = self.run_region(ctx, h, {h: [with_snapshot(head)]})
        if self.recording and not self.probe_mode:
            for hk in self.loop_hooks:
                hk(self, ctx, h, head, backs, exits)
        for _, s_ in exits:
            s_.cells.pop(snap_key, None)
        return exits

    # -------------------------------------------------------------- joins --
    def join_states(self, states, tag):
        acc = states[0]
        for i, s in enumerate(states[1:]):
            acc, _ = self.widen(acc, [s], (tag, "j"), 0, plain=True)
        return acc

    def int_leaves(self, st, keys=None):
        """integer-valued terms of a state: list of (name, Aff)"""
        out = []

        def walk(v, name):
            if isinstance(v, IntV):
                out.append((name, v.aff))
            elif isinstance(v, StructV):
                for i, f in enumerate(v.fields):
                    walk(f, name + (("f", i),))
            elif isinstance(v, EnumV):
                for vi, p in v.variants.items():
                    if p is not None:
                        walk(p, name + (("v", vi),))
            elif isinstance(v, VecV):
                out.append((name + (("len",),), v.len))
                if v.cap is not None:
                    out.append((name + (("cap",),), v.cap))
            elif isinstance(v, SliceV):
                out.append((name + (("slen",),), v.len))
                if v.base is not None and not v.off.is_const():
                    out.append((name + (("soff",),), v.off))
            elif isinstance(v, OpaqueV):
                for k, x in v.attrs:
                    if isinstance(x, Aff):
                        out.append((name + (("attr", k),), x))
        for k, v in st.cells.items():
            if keys is not None and k not in keys:
                continue
            walk(v, (k,))
        return out

    def widen(self, old, news, tag, it, plain=False):
        """join `news` into `old` at a merge point identified by tag.
        -> (state, changed)"""
        self.stats["joins"] += 1
        changed = False
        cur = old
        for new in news:
            cur, ch = self._widen1(cur, new, tag, it, plain)
            changed = changed or ch
        if not changed:
            # facts of the original state that did not survive (and are not implied by bounds)
            fs = set(cur.facts)
            for f in old.facts:
                if f not in fs and cur.lower(f) < 0 and not cur.entails(f, 1):
                    if DEBUG_JOIN:
                        print("   [dropped fact %r it=%s]" % (f, it))
                    changed = True
                    break
        return cur, changed

    def _widen1(self, old, new, tag, it, plain):
        res = State()
        res.ghost = {k: v for k, v in old.ghost.items() if new.ghost.get(k) == v}
        for gk in list(old.ghost) + list(new.ghost):
            if isinstance(gk, tuple) and gk and gk[0] == "inj":
                res.ghost[gk] = True
        res.bounds = dict(old.bounds)
        res.excl = dict(old.excl)
        changed = ChangeFlag()
        phis = {}       # phi sym -> (aff in old, aff in new)
        terms = []      # (name, aff_res, aff_old, aff_new)

        prefix = "phi%08x:" % (zlib.crc32(repr(tag).encode()) & 0xFFFFFFFF)
        # symbols of this merge point that occur in `new` denote the previous
        # round's values there: rename them apart before joining
        stale = [x for x in new.bounds if x.startswith(prefix)]
        if stale:
            self.nsym += 1
            ren = {x: "prev%d:%s" % (self.nsym, x) for x in stale}
            new = rename_state(new, ren)

        def phi_name(name):
            return prefix + "".join(
                (str(x[-1]) if i == 0 else "." + "".join(str(y) for y in x)) for i, x in enumerate(name))

        def jint(a, b, name):
            if a.aff == b.aff:
                return a
            pn = phi_name(name)
            lo_a, hi_a = old.range(a.aff)
            lo_b, hi_b = new.range(b.aff)
            lo, hi = min(lo_a, lo_b), max(hi_a, hi_b)
            ty = a.ty or b.ty
            if ty == (63, False):
                lo, hi = max(lo, 0), min(hi, ISIZE_MAX)
            if a.aff == Aff.sym(pn):
                # already the phi of this merge point: widen its bounds
                olo, ohi = old.lo_hi(pn)
                nlo, nhi = olo, ohi
                tlo, thi = int_range(ty) if ty else (-INF, INF)
                if lo < olo:
                    nlo = lo if it < 2 and not plain else (0 if lo >= 0 and tlo <= 0 else tlo)
                    if plain:
                        nlo = lo
                if hi > ohi:
                    nhi = hi if it < 2 and not plain else thi
                    if plain:
                        nhi = hi
                if (nlo, nhi) != (olo, ohi):
                    changed[0] = True
                res.bounds[pn] = (nlo, nhi)
                if a.bits is not None and ty is not None and not ty[1]:
                    bb_ = self.bits_of(new, b, ty[0])
                    jb = tuple(x if x == y else None for x, y in zip(a.bits, bb_))
                    if jb != a.bits:
                        changed[0] = True
                        self.syminfo[pn] = ("bits", jb)
                        a = IntV(a.aff, ty, bits=jb if any(x is not None for x in jb) else None)
                ex = res.excl.get(pn)
                if ex:
                    keep = frozenset(v for v in ex if not new.may_equal_const(b.aff, v))
                    if keep != ex:
                        changed[0] = True
                        if keep:
                            res.excl[pn] = keep
                        else:
                            del res.excl[pn]
                phis[pn] = (a.aff, b.aff)
                return a
            changed[0] = True
            res.bounds[pn] = (lo, hi)
            res.excl.pop(pn, None)
            phis[pn] = (a.aff, b.aff)
            jbits = None
            if ty is not None and not ty[1] and ty[0] <= 64 and (a.bits is not None or b.bits is not None):
                ba, bb_ = self.bits_of(old, a, ty[0]), self.bits_of(new, b, ty[0])
                jb = tuple(x if x == y else None for x, y in zip(ba, bb_))
                if any(x is not None for x in jb):
                    jbits = jb
                    self.syminfo[pn] = ("bits", jb)
            return IntV(Aff.sym(pn), ty, bits=jbits)

        def jaff(a, b, name):
            if a == b:
                return a
            r = jint(IntV(a, (63, False)), IntV(b, (63, False)), name)
            return r.aff

        def jv_(a, b, name):
            if a is b:
                return a
            if a is None or b is None:
                return None
            if isinstance(a, IntV) and isinstance(b, IntV):
                return jint(a, b, name)
            if isinstance(a, TopV):
                return a
            if isinstance(b, TopV):
                return TopV(b.ty if b.ty is not None else getattr(a, "ty", None))
            if type(a) is not type(b):
                return TopV(None)
            if isinstance(a, StructV):
                if len(a.fields) != len(b.fields):
                    return TopV(None)
                fs = [jv_(x, y, name + (("f", i),)) for i, (x, y) in enumerate(zip(a.fields, b.fields))]
                if all(x is y for x, y in zip(fs, a.fields)):
                    return a
                return StructV([f if f is not None else TopV(None) for f in fs])
            if isinstance(a, EnumV):
                vs = {}
                for vi in set(a.variants) | set(b.variants):
                    if vi in a.variants and vi in b.variants:
                        pa, pb = a.variants[vi], b.variants[vi]
                        if pa is None or pb is None:
                            vs[vi] = None
                        else:
                            vs[vi] = jv_(pa, pb, name + (("v", vi),))
                    elif vi in a.variants:
                        vs[vi] = a.variants[vi]
                    else:
                        vs[vi] = b.variants[vi]
                if vs == a.variants:
                    return a
                return EnumV(a.path, vs, a.ty)
            if isinstance(a, VecV):
                ln = jaff(a.len, b.len, name + (("len",),))
                cap = None
                if a.cap is not None and b.cap is not None:
                    cap = a.cap if a.cap == b.cap else None
                tg = a.tag if a.tag == b.tag else None
                gen = a.gen if a.gen == b.gen else None
                init = a.init if a.init == b.init else None
                r = VecV(ln, cap, tg, gen, init)
                if r == a:
                    return a
                return r
            if isinstance(a, SliceV):
                if a == b:
                    return a
                base = a.base if a.base == b.base else None
                if base is None:
                    ln = jaff(a.len, b.len, name + (("slen",),))
                    return SliceV(ln, None, Aff.const(0), a.mut)
                if (a.off + a.len) == (b.off + b.len):
                    # same end: keep len = end - off exact
                    off = jaff(a.off, b.off, name + (("soff",),))
                    return SliceV(a.off + a.len - off, base, off, a.mut)
                ln = jaff(a.len, b.len, name + (("slen",),))
                off = jaff(a.off, b.off, name + (("soff",),))
                return SliceV(ln, base, off, a.mut)
            if a == b:
                return a
            if isinstance(a, OpaqueV) and a.ty == b.ty:
                bd = dict(b.attrs)
                common = []
                for k, x in a.attrs:
                    if k not in bd:
                        continue
                    y = bd[k]
                    if x == y:
                        common.append((k, x))
                    elif isinstance(x, Aff) and isinstance(y, Aff):
                        common.append((k, jaff(x, y, name + (("attr", k),))))
                    elif isinstance(x, IntV) and isinstance(y, IntV):
                        common.append((k, jint(x, y, name + (("attr", k),))))
                return OpaqueV(a.ty, tuple(common))
            return TopV(None)

        def jv(a, b, name):
            r = jv_(a, b, name)
            if r is not a and r != a:
                changed[0] = True
            return r

        for key, va in old.cells.items():
            vb = new.cells.get(key)
            if vb is None:
                # cell unknown on the other side
                if isinstance(key, tuple) and key and key[0] == "h":
                    res.cells[key] = va
                else:
                    changed[0] = True
                continue
            r = jv(va, vb, (key,))
            if r is not None:
                res.cells[key] = r
        for key, vb in new.cells.items():
            if key not in old.cells and isinstance(key, tuple) and key and key[0] == "h":
                res.cells[key] = vb
        # bounds of symbols only known on the new side
        for s, b in new.bounds.items():
            if s not in res.bounds:
                res.bounds[s] = b
            elif s not in phis:
                ob = res.bounds[s]
                if s in old.bounds and ob != b:
                    nb = (min(ob[0], b[0]), max(ob[1], b[1]))
                    if nb != ob:
                        res.bounds[s] = nb
                        changed[0] = True
        for s, ex in list(res.excl.items()):
            if s in phis:
                continue
            nx = new.excl.get(s, frozenset()) if s in new.bounds else ex
            # value excluded on the new side also if out of its bounds
            nlo, nhi = new.lo_hi(s)
            keep = frozenset(v for v in ex if v in nx or v < nlo or v > nhi)
            if keep != ex:
                changed[0] = True
                if keep:
                    res.excl[s] = keep
                else:
                    del res.excl[s]
        # ---- facts
        m_old = {p: ao for p, (ao, an) in phis.items()}
        m_new = {p: an for p, (ao, an) in phis.items()}
        cands = []
        tmpl = []
        seen = set()
        for f in old.facts:
            if f not in seen:
                seen.add(f)
                cands.append(f)
        if phis and not (plain and getattr(self, "cheap_plain_joins", False)):
            # template candidates relating every phi to the other integer terms
            leaves = self.int_leaves(res)
            phiset = set(phis)
            atoms = []
            seen_aff = set()
            for name, aff in leaves:
                if aff in seen_aff or aff.is_const():
                    continue
                seen_aff.add(aff)
                atoms.append(aff)
            for p in phis:
                pa = Aff.sym(p)
                for q in atoms:
                    if q == pa:
                        continue
                    if len(q.t) > 3:
                        continue
                    # strongest first; weaker variants only if the stronger fails
                    tmpl.append((q - pa - 1, q - pa, q - pa + 1))
                    tmpl.append((pa - q - 1, pa - q, pa - q + 1))
        kept = []
        oldset = set(old.facts)

        def passes(f):
            fo = f.subst(m_old) if any(s_ in m_old for s_, _ in f.t) else f
            fn = f.subst(m_new) if any(s_ in m_new for s_, _ in f.t) else f
            if old.upper(fo) < 0 or new.upper(fn) < 0:
                return False
            in_old = (fo in oldset) or old.entails(fo, 2)
            if not in_old:
                return False
            return new.entails(fn, 2 if plain else 3)

        for f in cands:
            if res.lower(f) >= 0:
                continue
            if passes(f):
                kept.append(f)
        keptset = set(kept)
        for group in tmpl:
            for f in group:
                if f in keptset:
                    break
                if res.lower(f) >= 0:
                    break
                if passes(f):
                    kept.append(f)
                    keptset.add(f)
                    break
        res.facts = kept
        res._fx = None
        res.gc()
        res.trail = old.trail
        return res, changed[0]

    # ---------------------------------------------------------- running --
    def run(self, body_id, args=None, st=None):
        body = self.prog.bodies[body_id]
        st = st or State()
        args = args or []
        return self.exec_body(body, (), args, st, None, "entry")


def rename_state(st, ren):
    """a copy of st with symbols renamed"""
    m = {k: Aff.sym(v) for k, v in ren.items()}

    def ra(a):
        if a is None:
            return None
        if any(s in ren for s, _ in a.t):
            return a.subst(m)
        return a

    def rc(c):
        if c is None:
            return None
        k = c[0]
        if k == "cmp":
            return ("cmp", c[1], ra(c[2]), ra(c[3]))
        if k == "not":
            return ("not", rc(c[1]))
        if k in ("and", "or"):
            return (k, rc(c[1]), rc(c[2]))
        if k == "ovf":
            return ("ovf", ra(c[1]), c[2], c[3])
        return c

    def rv(v):
        if isinstance(v, IntV):
            a = ra(v.aff)
            if a is v.aff and v.cond is None and v.bits is None:
                return v
            bits = v.bits
            if bits is not None:
                bits = tuple((("b", ren.get(b[1], b[1]), b[2]) if isinstance(b, tuple) else b) for b in bits)
            return IntV(a, v.ty, bits, rc(v.cond), v.origin)
        if isinstance(v, StructV):
            fs = [rv(f) for f in v.fields]
            if all(x is y for x, y in zip(fs, v.fields)):
                return v
            return StructV(fs)
        if isinstance(v, EnumV):
            return EnumV(v.path, {k: (rv(p) if p is not None else None) for k, p in v.variants.items()}, v.ty)
        if isinstance(v, VecV):
            init = v.init
            if init:
                init = tuple((ra(a), ra(b)) for a, b in init)
            return VecV(ra(v.len), ra(v.cap), v.tag, v.gen, init)
        if isinstance(v, SliceV):
            return SliceV(ra(v.len), v.base, ra(v.off), v.mut)
        if isinstance(v, PtrV):
            return PtrV(v.place, ra(v.off), v.gen, v.mut)
        if isinstance(v, OpaqueV):
            return OpaqueV(v.ty, tuple((k, (rv(a) if hasattr(a, "__slots__") and not isinstance(a, Aff) else (ra(a) if isinstance(a, Aff) else a))) for k, a in v.attrs))
        return v

    r = State()
    r.cells = {k: rv(v) for k, v in st.cells.items()}
    r.bounds = {ren.get(k, k): b for k, b in st.bounds.items()}
    r.excl = {ren.get(k, k): b for k, b in st.excl.items()}
    r.facts = [ra(f) for f in st.facts]
    r.dead = st.dead
    r.ghost = dict(st.ghost)
    r.trail = st.trail
    return r
