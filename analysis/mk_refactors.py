"""Behaviour-preserving edits of /repo: every check must stay silent on them."""
import difflib, json, os
REPO = "/repo"
OUT = os.path.join(os.path.dirname(os.path.dirname(os.path.abspath(__file__))), "refactors")
R = [
 ("r01_if_let_none", "src/link_format.rs", [("        } else if self.error.is_none() {\n            self.error = self.write.write_char(LINK_SEPARATOR_CHAR).err();", "        } else if let None = self.error {\n            self.error = self.write.write_char(LINK_SEPARATOR_CHAR).err();")]),
 ("r02_merged_token_guard", "src/packet.rs", [("                if token_length > 8 {\n                    return Err(MessageError::InvalidTokenLength);\n                }\n\n                if options_start > buf.len() {\n                    return Err(MessageError::InvalidTokenLength);\n                }", "                if token_length > 8 || options_start > buf.len() {\n                    return Err(MessageError::InvalidTokenLength);\n                }")]),
 ("r03_reorder_arms", "src/packet.rs", [("            1 => CoapOption::IfMatch,\n            3 => CoapOption::UriHost,", "            3 => CoapOption::UriHost,\n            1 => CoapOption::IfMatch,")]),
 ("r04_rename_clone_helper", "src/block_handler/mod.rs", [("Self::packet_clone_limited(&mut response.message, cached_response);", "Self::copy_cached_reply(&mut response.message, cached_response);"), ("    fn packet_clone_limited(dst: &mut Packet, src: &Packet) {", "    fn copy_cached_reply(dst: &mut Packet, src: &Packet) {")]),
 ("r05_rename_block1_helper", "src/block_handler/mod.rs", [("let block1_handled = Self::maybe_handle_request_block1(", "let block1_handled = Self::handle_block1("), ("    fn maybe_handle_request_block1(", "    fn handle_block1(")]),
 ("r06_checked_sub_as_match", "src/block_handler/mod.rs", [("        let max_block_size = max_total_message_size\n            .checked_sub(max_non_payload_size)\n            .ok_or_else(|| {\n                HandlingError::internal(format!(\n            \"Message too large to encode at any block size: {} exceeds {}\",\n            max_total_message_size,\n            max_non_payload_size))\n            })?;",
   "        let max_block_size = if max_total_message_size >= max_non_payload_size {\n            max_total_message_size - max_non_payload_size\n        } else {\n            return Err(HandlingError::internal(format!(\n            \"Message too large to encode at any block size: {} exceeds {}\",\n            max_total_message_size,\n            max_non_payload_size)));\n        };")]),
 ("r07_limit_if_let", "src/packet.rs", [("        if limit.is_some() && buf_length > limit.unwrap() {\n            return Err(MessageError::InvalidPacketLength);\n        }", "        if let Some(limit) = limit {\n            if buf_length > limit {\n                return Err(MessageError::InvalidPacketLength);\n            }\n        }")]),
 ("r08_get_type_shift_first", "src/header.rs", [("let tn = (0x30 & self.ver_type_tkl) >> 4;", "let tn = (self.ver_type_tkl >> 4) & 0x3;")]),
 ("r09_register_match", "src/observe.rs", [("        if let Some(position) = resource\n            .observers\n            .iter()\n            .position(|x| x.endpoint == observer.endpoint)\n        {\n            resource.observers[position] = observer;\n        } else {\n            resource.observers.push(observer);\n        }", "        match resource\n            .observers\n            .iter()\n            .position(|x| x.endpoint == observer.endpoint)\n        {\n            Some(position) => resource.observers[position] = observer,\n            None => resource.observers.push(observer),\n        }")]),
 ("r10_len_difference", "src/link_format.rs", [("        let link_len =\n            iter.as_str().as_ptr() as usize - link_ref.as_ptr() as usize;", "        let link_len = link_ref.len() - iter.as_str().len();")]),
 ("r11_get_method_nested", "src/request.rs", [("        match self.message.header.code {\n            MessageClass::Request(Method::Get) => &Method::Get,\n            MessageClass::Request(Method::Post) => &Method::Post,\n            MessageClass::Request(Method::Put) => &Method::Put,\n            MessageClass::Request(Method::Delete) => &Method::Delete,\n            MessageClass::Request(Method::Fetch) => &Method::Fetch,\n            MessageClass::Request(Method::Patch) => &Method::Patch,\n            MessageClass::Request(Method::IPatch) => &Method::IPatch,\n            _ => &Method::UnKnown,\n        }",
   "        if let MessageClass::Request(m) = self.message.header.code {\n            match m {\n                Method::Get => &Method::Get,\n                Method::Post => &Method::Post,\n                Method::Put => &Method::Put,\n                Method::Delete => &Method::Delete,\n                Method::Fetch => &Method::Fetch,\n                Method::Patch => &Method::Patch,\n                Method::IPatch => &Method::IPatch,\n                Method::UnKnown => &Method::UnKnown,\n            }\n        } else {\n            &Method::UnKnown\n        }")]),
 ("r12_finish_match", "src/link_format.rs", [("    pub fn finish(self) -> Result<(), core::fmt::Error> {\n        if let Some(e) = self.error {\n            Err(e)\n        } else {\n            Ok(())\n        }", "    pub fn finish(self) -> Result<(), core::fmt::Error> {\n        match self.error {\n            None => Ok(()),\n            Some(e) => Err(e),\n        }")]),
 ("r13_set_version_mask_order", "src/header.rs", [("        let type_tkl = 0x3F & self.ver_type_tkl;\n        self.ver_type_tkl = v << 6 | type_tkl;", "        self.ver_type_tkl = (self.ver_type_tkl & 0x3F) | (v << 6);")]),
 ("r14_is_error_byte", "src/header.rs", [("        MessageClass::Response(*self)\n            >= MessageClass::Response(ResponseType::BadRequest)", "        u8::from(MessageClass::Response(*self)) >= 0x80")]),
 ("r16_splice_range_payload_len", "src/block_handler/mod.rs", [("                    payload_offset..payload_offset + request_block1.size(),\n                    request.message.payload.iter().copied(),", "                    payload_offset\n                        ..payload_offset + request.message.payload.len(),\n                    request.message.payload.iter().copied(),")]),
 ("r17_writer_matches", "src/link_format.rs", [("            if (c == '\"' || c == '\\\\') && self.0.error.is_none() {", "            if matches!(c, '\"' | '\\\\') && self.0.error.is_none() {")]),
 ("r18_unquote_guard_arm", "src/link_format.rs", [("                    Some(QUOTE_ESCAPE_CHAR) => self.inner.next(),", "                    Some(c) if c == QUOTE_ESCAPE_CHAR => self.inner.next(),")]),
 ("r19_scanner_while_let", "src/link_format.rs", [("                            Some(QUOTE_ESCAPE_CHAR) => {\n                                iter.next();\n                            }", "                            Some(QUOTE_ESCAPE_CHAR) => {\n                                let _skipped = iter.next();\n                            }")]),
 ("r20_serve_inline_size", "src/block_handler/mod.rs", [("            .chunks(request_block_size)\n", "            .chunks(request_block2.size())\n")]),
 ("r21_serve_more_binding", "src/block_handler/mod.rs", [("        let has_more_chunks = chunks.next().is_some();", "        let following = chunks.next();\n        let has_more_chunks = following.is_some();")]),
 ("r22_negotiate_named_reserve", "src/block_handler/mod.rs", [("        let max_non_payload_size =\n            (message_size + BLOCK_OPTIONS_MAX_LENGTH) - total_payload_size;", "        let framing = message_size - total_payload_size;\n        let max_non_payload_size = framing + BLOCK_OPTIONS_MAX_LENGTH;")]),
 ("r23_observe_set_options", "src/packet.rs", [("        self.clear_option(CoapOption::Observe);\n        self.add_option_as(CoapOption::Observe, OptionValueU32(value));", "        self.set_options_as(\n            CoapOption::Observe,\n            LinkedList::from([OptionValueU32(value)]),\n        );")]),
 ("r24_apply_error_match", "src/request.rs", [("        if let Some(reply) = &mut self.response {\n            if let Some(code) = error.code {", "        if let (Some(reply), Some(code)) = (&mut self.response, error.code) {\n            {")]),
 ("r25_unquote_to_cow_let", "src/link_format.rs", [("            if str_ref.find('\\\\').is_some() {\n                Cow::from(self.to_string())", "            let has_escape = str_ref.find('\\\\').is_some();\n            if has_escape {\n                Cow::from(self.to_string())")]),
 ("r30_attr_u32_write_fmt", "src/link_format.rs", [("            self.0.error = write!(self.0.write, \"{}\", value).err();", "            self.0.error =\n                self.0.write.write_fmt(format_args!(\"{}\", value)).err();")]),
 ("r32_changed_get_mut", "src/observe.rs", [("        self.resources\n            .entry(resource.to_string())\n            .and_modify(|resource| {\n                resource.sequence += 1;", "        if let Some(resource) = self.resources.get_mut(resource) {\n            {\n                resource.sequence += 1;"), ("                        <= u16::from(unacknowledged_limit)\n                });\n            });\n    }", "                        <= u16::from(unacknowledged_limit)\n                });\n            }\n        }\n    }")]),
 ("r15_block_value_u64_shift", "src/block_handler/block_value.rs", [("        let more = scalar >> 3 & 0x1 == 0x1;", "        let more = (scalar & 0x8) != 0;")]),
]
os.makedirs(OUT, exist_ok=True)
meta, skipped = {}, []
for name, fn, reps in R:
    src = open(os.path.join(REPO, fn)).read()
    new, ok = src, True
    for old, nw in reps:
        if new.count(old) != 1:
            ok = False
            break
        new = new.replace(old, nw)
    if not ok:
        skipped.append(name)
        continue
    open(os.path.join(OUT, name + ".diff"), "w").write("".join(difflib.unified_diff(src.splitlines(True), new.splitlines(True), "a/" + fn, "b/" + fn)))
    meta[name] = {"file": fn}
json.dump(meta, open(os.path.join(OUT, "index.json"), "w"), indent=1, sort_keys=True)
print("wrote", len(meta), "refactors; skipped:", skipped)
