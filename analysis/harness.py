"""Shared plumbing for the per-property rules: fact extraction per feature
configuration, entry-point lookup, running the interpreter, turning events
into obligations, reports."""
import os
import re
import sys
import time

sys.setrecursionlimit(20000)

import extract
import facts as F
import interp
from absdom import (Aff, IntV, StructV, EnumV, Place, RefV, VecV, SliceV, PtrV,
                    TopV, FnV, OpaqueV, State, UNIT)

REPO = os.environ.get("VERIF_REPO", "/repo")


class Env:
    """facts per configuration, extracted once per process from the current tree"""

    def __init__(self, repo=REPO):
        self.repo = repo
        self.progs = {}
        self.extract_s = {}

    def prog(self, config="default"):
        if config not in self.progs:
            f, w = extract.extract(self.repo, config)
            self.progs[config] = F.Program(f)
            self.extract_s[config] = w
        return self.progs[config]


class Finding:
    def __init__(self, rule, key, msg, site=None):
        self.rule = rule
        self.key = key
        self.msg = msg
        self.site = site

    def where(self):
        if not self.site:
            return ""
        return "%s:%s (%s)" % (self.site.get("file"), self.site.get("line"), self.site.get("fn"))


class Report:
    def __init__(self, pid):
        self.pid = pid
        self.findings = []
        self.log = []
        self.obligations = 0
        self.discharged = 0
        self.instances = {}      # rule -> count of rule instances checked
        self.samples = []
        self.assumptions = []
        self.lemmas = {}
        self.analysed = set()    # functions analysed
        self.notes = []
        self.configs = []
        self.t0 = time.time()

    def ob(self, rule, key, ok, msg, site=None, sample=None):
        """one obligation / rule instance"""
        self.log.append((rule, key, ok, msg, site))
        self.obligations += 1
        self.instances[rule] = self.instances.get(rule, 0) + 1
        if ok:
            self.discharged += 1
        else:
            self.findings.append(Finding(rule, "%s|%s" % (rule, key), msg, site))
        if sample is not None and len(self.samples) < 12:
            self.samples.append(sample)

    def missing(self, rule, what):
        """anchor not found: fail closed"""
        self.ob(rule, "missing|" + what, False, "mechanism missing: " + what)

    def floor(self, rule, what, count, minimum):
        ok = count >= minimum
        self.ob(rule, "floor|" + what, ok,
                "instance count for %s fell to %d (confirmed floor %d): mechanism removed?" % (what, count, minimum),
                sample={"rule": rule, "floor": what, "count": count, "min": minimum})


_norm_res = [(re.compile(r"#\d+"), ""), (re.compile(r"phi[0-9a-f]{8}:"), "phi:"),
             (re.compile(r"prev\d+:"), ""), (re.compile(r"\*\d+"), "")]


def norm(s):
    s = str(s)
    for r, rep in _norm_res:
        s = r.sub(rep, s)
    return s


def find_body(prog, path, impl_trait=None):
    """body by pretty path (public names are the anchors)"""
    hits = [b for b in prog.bodies.values() if b["path"] == path and not b.get("promoted")]
    if impl_trait is not None:
        hits = [b for b in hits if b.get("impl_trait") == impl_trait]
    if len(hits) == 1:
        return hits[0]
    if not hits:
        # the same item with other generic / lifetime parameters (`Writer::<'_, T>::m` vs `Writer::<'_, '_, T>::m`)
        want = strip_generics(path)
        hits = [b for b in prog.bodies.values() if not b.get("promoted") and strip_generics(b["path"]) == want
                and (impl_trait is None or b.get("impl_trait") == impl_trait)]
        if len(hits) == 1:
            return hits[0]
    return None


def strip_generics(path):
    """`a::B::<'x, T>::m` -> `a::B::m` (angle brackets balanced; `<impl ...>` / `<T as Trait>` segments are kept)"""
    out, i, n = [], 0, len(path)
    while i < n:
        if path.startswith("::<", i):
            depth, j = 0, i + 2
            while j < n:
                if path[j] == "<":
                    depth += 1
                elif path[j] == ">" and path[j - 1] != "-":
                    depth -= 1
                    if depth == 0:
                        break
                j += 1
            i = j + 1
            continue
        out.append(path[i])
        i += 1
    return "".join(out)


def reachable(prog, body):
    """bodies reachable from `body` through resolved crate-local calls and the closures defined inside them"""
    seen, work = {}, [body]
    while work:
        b = work.pop()
        if b["id"] in seen:
            continue
        seen[b["id"]] = b
        for o in prog.bodies.values():
            if not o.get("promoted") and o["path"].startswith(b["path"] + "::{closure") and o["id"] not in seen:
                work.append(o)
        for bb in b["blocks"]:
            t = bb["term"]
            if t["k"] == "call" and not bb["cleanup"]:
                r = t.get("resolved") or {}
                if r.get("local") and r.get("id") in prog.bodies and r["id"] not in seen:
                    work.append(prog.bodies[r["id"]])
    return list(seen.values())


def find_bodies(prog, pred):
    return [b for b in prog.bodies.values() if not b.get("promoted") and pred(b)]


def top_args(prog, body, subst=None):
    return [TopV(prog.ty(body["locals"][i + 1]["ty"], subst)) for i in range(body["arg_count"])]


def new_interp(prog, **kw):
    return interp.Interp(prog, **kw)


def run(prog, body, args=None, st=None, I=None, gargs=()):
    I = I or interp.Interp(prog)
    st = st or State()
    subst = prog.body_subst(body, gargs)
    if args is None:
        args = top_args(prog, body, subst)
    res = I.exec_body(body, gargs, args, st, None, "entry")
    return I, res


PANIC_KINDS = ("assert:", "call:", "panic", "unsafe:")


def site_key(ev):
    s = ev["site"]
    return (s["id"], s["bb"], s.get("si"), ev["kind"])


def collect_obligations(I, kinds=PANIC_KINDS, include_cast=False, include_wrap=True):
    """group recorded events into sites: -> list of dicts
    {fn, id, kind, ok, details(set), file, line, lemma}"""
    sites = {}
    for ev in I.events:
        k = ev["kind"]
        if not (k.startswith(kinds) or (include_cast and k == "cast") or (include_wrap and k == "wrap")):
            continue
        key = site_key(ev)
        s = sites.get(key)
        if s is None:
            s = {"fn": ev["site"]["fn"], "id": ev["site"]["id"], "kind": k, "ok": True, "details": [],
                 "file": ev["site"]["file"], "line": ev["site"]["line"], "lemmas": set(), "visits": 0,
                 "what": ev["site"].get("what")}
            sites[key] = s
        s["visits"] += 1
        if not ev["ok"]:
            s["ok"] = False
            d = norm(ev["detail"])
            if d not in s["details"]:
                s["details"].append(d)
        if ev.get("lemma"):
            s["lemmas"].add(ev["lemma"])
    return list(sites.values())


def report_obligations(rep, rule, I, **kw):
    obs = collect_obligations(I, **kw)
    # ordinal among same (fn, kind, first detail) to keep keys distinct without positions
    seen = {}
    for s in sorted(obs, key=lambda x: (x["fn"], x["line"], x["kind"])):
        base = "%s|%s|%s" % (s["fn"], s["kind"], s["details"][0] if s["details"] else "")
        n = seen.get(base, 0)
        seen[base] = n + 1
        key = base if n == 0 else "%s|%d" % (base, n)
        rep.ob(rule, key, s["ok"],
               "%s at %s:%s in %s not discharged: %s" % (s["kind"], s["file"], s["line"], s["fn"], "; ".join(s["details"][:2])),
               {"file": s["file"], "line": s["line"], "fn": s["fn"]},
               sample={"rule": rule, "site": "%s:%s" % (s["file"], s["line"]), "fn": s["fn"], "kind": s["kind"],
                       "discharged": s["ok"], "lemmas": sorted(s["lemmas"])})
        for l in s["lemmas"]:
            rep.lemmas[l] = rep.lemmas.get(l, 0) + 1
    for path, n in I.unmodelled.items():
        import summaries
        if not summaries.total(path):
            pass  # already reported as call:unmodelled obligations
    for msg in I.imprecise:
        rep.ob(rule, "imprecise|" + norm(msg), False, "cannot establish: analysis bound hit: " + msg)
    rep.analysed.update(I.prog.bodies[b]["path"] for b in I.visited_bodies if b in I.prog.bodies)
    return obs


def find_impl_fn(prog, trait, self_s, arg_s, name):
    """method body of `impl trait<arg_s> for self_s` (type display strings)"""
    for b in prog.bodies.values():
        if b.get("promoted") or b.get("impl_trait") != trait or b.get("name") != name:
            continue
        if prog.types[b["impl_self"]]["s"] != self_s:
            continue
        targs = [prog.types[a]["s"] for a in b.get("impl_trait_args", [])]
        if arg_s is not None and targs != [arg_s]:
            continue
        return b
    return None


def include(rep, env, tier, module_name, rule_prefixes, as_rule, why):
    """Run another property's rule module and take over the obligations of the named rule families: they decide a
    clause of this property too (e.g. the decoder rules for 'and decode back unchanged').  The obligations are
    re-keyed under `as_rule`, so a finding is reported (and suppressed, if ever listed) per property."""
    import importlib
    if getattr(env, "including", False):
        return      # an included module does not include further ones
    mod = importlib.import_module("rules." + module_name)
    sub = Report(rep.pid)
    env.including = True
    env.include_rules = tuple(rule_prefixes)     # a module may skip expensive rule families nobody asked for
    try:
        mod.check(env, sub, tier)
    except Exception as e:  # fail closed
        rep.ob(as_rule, "crash|" + type(e).__name__, False, "checker error in included rules %s (fail closed): %s" % (module_name, e))
        return
    finally:
        env.including = False
        env.include_rules = None
    n = 0
    for rule, key, ok, msg, site in sub.log:
        if rule in rule_prefixes:
            rep.ob("%s(%s)" % (as_rule, rule), key, ok, msg, site)
            n += 1
    rep.analysed.update(sub.analysed)
    for k, v in sub.lemmas.items():
        rep.lemmas[k] = rep.lemmas.get(k, 0) + v
    rep.notes.append("%s: %d obligations of %s taken over from rules.%s - %s" % (as_rule, n, "/".join(rule_prefixes), module_name, why))
    if n == 0:
        rep.ob(as_rule, "missing|included rules", False, "mechanism missing: no obligation of %s produced by rules.%s" % (rule_prefixes, module_name))


def infeasible(s):
    """a state whose recorded facts contradict each other (interval reasoning alone did not notice)"""
    return s.dead or any(s.entails(-f - 1) for f in s.facts)
