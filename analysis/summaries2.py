"""Models, part 2: Vec / slices / str / raw pointers / iterators / maps."""
from absdom import (Aff, IntV, StructV, EnumV, Place, RefV, VecV, SliceV, PtrV,
                    TopV, FnV, OpaqueV, State, UNIT, INF, assume, holds, int_range)
from summaries import (model, prefix_model, deref, pointee, mk_option, mk_none, mk_ok,
                       mk_err, boolv, split_variants, split_ref_variants, havoc_through,
                       call_fn_value, ISIZE_MAX, USIZE, BOOL, clone_val, fallback)


def vec_at(I, st, ref, ty=None):
    """(place, VecV) for a &Vec / &mut Vec / &String argument"""
    if isinstance(ref, RefV):
        v = I.ensure(st, ref.place, pointee(ty), "vec")
        if isinstance(v, VecV):
            return ref.place, v
    return None, None


def as_slice(I, st, v, ty=None):
    """SliceV view of a slice reference / vec reference"""
    if isinstance(v, SliceV):
        return v
    if isinstance(v, RefV):
        x = I.ensure(st, v.place, pointee(ty), "slice")
        if isinstance(x, VecV):
            return SliceV(x.len, ("vec", v.place, x.gen, x.tag), Aff.const(0), v.mut)
        if isinstance(x, SliceV):
            return x
        if isinstance(x, OpaqueV) and x.get("array_len") is not None:
            return SliceV(Aff.const(x.get("array_len")), ("arr", v.place), Aff.const(0), v.mut)
    return None


# ------------------------------------------------------------------ Vec ----
@model("alloc::vec::Vec::<T>::new", "alloc::string::String::new")
def m_vec_new(I, st, call):
    I.nsym += 1
    return [(st, VecV(Aff.const(0), Aff.const(0), ("new", I.nsym)))]


@model("alloc::vec::Vec::<T>::with_capacity", "alloc::string::String::with_capacity")
def m_vec_with_capacity(I, st, call):
    c = call.args[0]
    I.nsym += 1
    return [(st, VecV(Aff.const(0), c.aff if isinstance(c, IntV) else None, ("new", I.nsym)))]


@model("alloc::vec::Vec::<T, A>::len", "alloc::string::String::len")
def m_vec_len(I, st, call):
    p, v = vec_at(I, st, call.args[0], call.arg_tys[0])
    if v is None:
        return [(st, I.fresh_int(st, "len", USIZE, 0, ISIZE_MAX))]
    return [(st, IntV(v.len, USIZE))]


@model("alloc::vec::Vec::<T, A>::capacity")
def m_vec_capacity(I, st, call):
    p, v = vec_at(I, st, call.args[0], call.arg_tys[0])
    r = I.fresh_int(st, "cap", USIZE, 0, ISIZE_MAX)
    if v is not None:
        st.add_fact(r.aff - v.len)
        if v.cap is not None:
            st.add_fact(r.aff - v.cap)
    return [(st, r)]


@model("alloc::vec::Vec::<T, A>::is_empty", "alloc::string::String::is_empty")
def m_vec_is_empty(I, st, call):
    p, v = vec_at(I, st, call.args[0], call.arg_tys[0])
    if v is None:
        return None
    return _split_zero(I, st, v.len)


def _split_zero(I, st, ln):
    out = []
    s2 = st.copy()
    st.add_eq(ln, Aff.const(0))
    if not st.dead:
        out.append((st, boolv(True)))
    s2.add_fact(ln - 1)
    if not s2.dead:
        out.append((s2, boolv(False)))
    return out


@model("alloc::vec::Vec::<T, A>::push", "alloc::string::String::push")
def m_vec_push(I, st, call):
    p, v = vec_at(I, st, call.args[0], call.arg_tys[0])
    if v is None:
        return None
    nl = v.len + 1
    within = v.cap is not None and st.entails(v.cap - nl)
    I.write(st, p, VecV(nl, v.cap if within else None, None if v.tag is None else ("pushed", v.tag, call.args[1] if len(call.args) > 1 and isinstance(call.args[1], IntV) else None),
                        v.gen if within else I.newgen()))
    return [(st, UNIT)]


@model("alloc::vec::Vec::<T, A>::clear", "alloc::string::String::clear")
def m_vec_clear(I, st, call):
    p, v = vec_at(I, st, call.args[0], call.arg_tys[0])
    if v is None:
        return None
    I.write(st, p, VecV(Aff.const(0), v.cap, ("cleared",), v.gen))
    return [(st, UNIT)]


@model("alloc::vec::Vec::<T, A>::truncate")
def m_vec_truncate(I, st, call):
    p, v = vec_at(I, st, call.args[0], call.arg_tys[0])
    n = call.args[1]
    if v is None or not isinstance(n, IntV):
        return None
    out = []
    s2 = st.copy()
    for s in assume(st, ("cmp", "Lt", n.aff, v.len), True):
        I.write(s, p, VecV(n.aff, v.cap, ("prefix", v.tag), v.gen))
        out.append((s, UNIT))
    for s in assume(s2, ("cmp", "Lt", n.aff, v.len), False):
        out.append((s, UNIT))
    return out


@model("alloc::vec::Vec::<T, A>::resize")
def m_vec_resize(I, st, call):
    p, v = vec_at(I, st, call.args[0], call.arg_tys[0])
    n = call.args[1]
    if v is None or not isinstance(n, IntV):
        return None
    I.write(st, p, VecV(n.aff, None, None, I.newgen()))
    return [(st, UNIT)]


@model("alloc::vec::Vec::<T, A>::reserve", "alloc::vec::Vec::<T, A>::reserve_exact")
def m_vec_reserve(I, st, call):
    p, v = vec_at(I, st, call.args[0], call.arg_tys[0])
    n = call.args[1]
    if v is None or not isinstance(n, IntV):
        return None
    need = v.len + n.aff
    if v.cap is not None and st.entails(v.cap - need):
        return [(st, UNIT)]  # no reallocation
    I.write(st, p, VecV(v.len, need, v.tag, I.newgen(), v.init))
    return [(st, UNIT)]


@model("alloc::vec::Vec::<T, A>::as_ptr", "alloc::vec::Vec::<T, A>::as_mut_ptr")
def m_vec_as_ptr(I, st, call):
    p, v = vec_at(I, st, call.args[0], call.arg_tys[0])
    if v is None:
        return None
    if v.gen is None:
        # pin a generation: the pointer is valid for the buffer as of now
        v = VecV(v.len, v.cap, v.tag, I.newgen(), v.init)
        I.write(st, p, v)
    return [(st, PtrV(p, Aff.const(0), v.gen, call.path.endswith("as_mut_ptr")))]


@model("core::slice::<impl [T]>::as_ptr")
def m_slice_as_ptr(I, st, call):
    s = as_slice(I, st, call.args[0], call.arg_tys[0])
    if s is None or s.base is None:
        return None
    b = s.base
    if isinstance(b, tuple) and b[0] == "vec" and isinstance(b[1], Place):
        # a borrow of a vector's buffer: the pointer is into that vector (which cannot change while the borrow lives)
        v = I.read(st, b[1])
        if isinstance(v, VecV):
            if v.gen is None:
                v = VecV(v.len, v.cap, v.tag, I.newgen(), v.init)
                I.write(st, b[1], v)
            return [(st, PtrV(b[1], s.off, v.gen, False))]
        return None
    # any other tracked slice: readable up to its end
    return [(st, PtrV(("slice", b, s.off + s.len), s.off, None, False))]


@model("core::ptr::mut_ptr::<impl *mut T>::add", "core::ptr::const_ptr::<impl *const T>::add")
def m_ptr_add(I, st, call):
    a, n = call.args
    if isinstance(a, PtrV) and isinstance(n, IntV):
        ok = True
        detail = None
        if isinstance(a.place, Place):
            v = I.read(st, a.place)
            if isinstance(v, VecV):
                off = a.off + n.aff
                cap_ok = (v.cap is not None and st.entails(v.cap - off)) or st.entails(v.len - off)
                if not cap_ok or v.gen is None or v.gen != a.gen:
                    ok = False
                    detail = "ptr.add(%r) not shown to stay inside the allocation (cap >= %r, len %r)%s" % (
                        n.aff, v.cap, v.len, "; buffer may have been reallocated" if v.gen != a.gen else "")
        I.note("unsafe:ptr_add", call.site, ok, detail)
        return [(st, PtrV(a.place, a.off + n.aff, a.gen, a.mut))]
    I.note("unsafe:ptr_add", call.site, False, "ptr.add on an untracked pointer")
    return [(st, TopV(call.dest_ty))]


@model("core::ptr::copy", "core::ptr::copy_nonoverlapping", "core::intrinsics::copy", "core::intrinsics::copy_nonoverlapping")
def m_ptr_copy(I, st, call):
    src, dst, n = call.args
    ok = True
    why = []
    if not isinstance(n, IntV):
        ok = False
        why.append("count untracked")
    # source: n <= len(src vec) - off
    if isinstance(src, PtrV) and isinstance(src.place, Place) and isinstance(n, IntV):
        sv = I.read(st, src.place)
        if isinstance(sv, VecV):
            if not st.entails(sv.len - src.off - n.aff):
                ok = False
                why.append("source range %r..+%r not within len %r" % (src.off, n.aff, sv.len))
            if sv.gen is None or sv.gen != src.gen:
                ok = False
                why.append("source buffer may have been reallocated since as_ptr")
        else:
            ok = False
            why.append("source is not a tracked Vec")
    elif isinstance(src, PtrV) and isinstance(src.place, tuple) and src.place and src.place[0] == "slice" and isinstance(n, IntV):
        if not st.entails(src.place[2] - src.off - n.aff):
            ok = False
            why.append("source range %r..+%r not within the borrowed slice (end %r)" % (src.off, n.aff, src.place[2]))
    elif isinstance(n, IntV):
        ok = False
        why.append("source pointer untracked")
    if isinstance(dst, PtrV) and isinstance(dst.place, Place) and isinstance(n, IntV):
        dv = I.read(st, dst.place)
        if isinstance(dv, VecV):
            end = dst.off + n.aff
            if not ((dv.cap is not None and st.entails(dv.cap - end)) or st.entails(dv.len - end)):
                ok = False
                why.append("destination range %r..+%r not within reserved capacity (cap >= %r)" % (dst.off, n.aff, dv.cap))
            if dv.gen is None or dv.gen != dst.gen:
                ok = False
                why.append("destination buffer may have been reallocated since as_mut_ptr")
            if ok:
                init = tuple(dv.init or ()) + ((dst.off, end),)
                I.write(st, dst.place, VecV(dv.len, dv.cap, dv.tag, dv.gen, init))
        else:
            ok = False
            why.append("destination is not a tracked Vec")
    elif isinstance(n, IntV):
        ok = False
        why.append("destination pointer untracked")
    I.note("unsafe:ptr_copy", call.site, ok, "; ".join(why) or None)
    return [(st, UNIT)]


@model("alloc::vec::Vec::<T, A>::set_len")
def m_vec_set_len(I, st, call):
    p, v = vec_at(I, st, call.args[0], call.arg_tys[0])
    n = call.args[1]
    if v is None or not isinstance(n, IntV):
        I.note("unsafe:set_len", call.site, False, "set_len on an untracked vector")
        return None
    ok = True
    why = []
    if not ((v.cap is not None and st.entails(v.cap - n.aff)) or st.entails(v.len - n.aff)):
        ok = False
        why.append("new length %r not shown <= capacity (cap >= %r)" % (n.aff, v.cap))
    # [old len, new len) must be covered by the copies made into the spare capacity
    cur = v.len
    ranges = list(v.init or ())
    progress = True
    while progress and not st.entails(cur - n.aff):
        progress = False
        for a, b in ranges:
            if st.entails(cur - a) and st.entails(b - cur - 1):
                cur = b
                progress = True
                break
            if st.entails_eq(a, cur) and st.entails(b - a):
                if b != cur:
                    cur = b
                    progress = True
                    break
    if not st.entails(cur - n.aff):
        ok = False
        why.append("bytes [%r, %r) not shown initialised by the preceding copies (covered up to %r)" % (v.len, n.aff, cur))
    I.note("unsafe:set_len", call.site, ok, "; ".join(why) or None)
    I.write(st, p, VecV(n.aff, v.cap, None, v.gen, None))
    return [(st, UNIT)]


@model("alloc::vec::Vec::<T, A>::remove", "alloc::vec::Vec::<T, A>::swap_remove")
def m_vec_remove(I, st, call):
    p, v = vec_at(I, st, call.args[0], call.arg_tys[0])
    i = call.args[1]
    if v is None or not isinstance(i, IntV):
        I.note("call:remove", call.site, False, "Vec::remove on untracked operands")
        return None
    ok = st.entails(v.len - i.aff - 1)
    I.note("call:remove", call.site, ok, None if ok else "index %r not shown < len %r" % (i.aff, v.len))
    st.add_fact(v.len - i.aff - 1)
    I.write(st, p, VecV(v.len - 1, v.cap, None, v.gen))
    et = call.dest_ty
    return [(st, I.mat(st, et, "removed"))]


@model("alloc::vec::Vec::<T, A>::pop")
def m_vec_pop(I, st, call):
    p, v = vec_at(I, st, call.args[0], call.arg_tys[0])
    if v is None:
        return None
    out = []
    s2 = st.copy()
    st.add_eq(v.len, Aff.const(0))
    if not st.dead:
        out.append((st, mk_none(call.dest_ty)))
    s2.add_fact(v.len - 1)
    if not s2.dead:
        I.write(s2, p, VecV(v.len - 1, v.cap, None, v.gen))
        et = call.dest_ty[2][0] if call.dest_ty and call.dest_ty[0] == "adt" and call.dest_ty[2] else None
        out.append((s2, mk_option(I, I.mat(s2, et, "popped"), call.dest_ty)))
    return out


def iter_count(I, st, it):
    """number of items an iterator value will yield, if known: Aff or None"""
    if isinstance(it, SliceV):
        return it.len
    if isinstance(it, OpaqueV):
        c = it.get("count")
        if isinstance(c, Aff):
            return c
        if isinstance(c, int):
            return Aff.const(c)
    if isinstance(it, VecV):
        return it.len
    if isinstance(it, RefV):
        v = I.read(st, it.place)
        if isinstance(v, (VecV, SliceV)):
            return v.len
        if isinstance(v, OpaqueV) and v.get("array_len") is not None:
            return Aff.const(v.get("array_len"))
    return None


@model("<alloc::vec::Vec<T, A> as core::iter::traits::collect::Extend<T>>::extend",
       "<alloc::vec::Vec<T, A> as core::iter::traits::collect::Extend<&'a T>>::extend",
       "alloc::vec::Vec::<T, A>::extend_from_slice")
def m_vec_extend(I, st, call):
    p, v = vec_at(I, st, call.args[0], call.arg_tys[0])
    if v is None:
        return None
    c = iter_count(I, st, call.args[1])
    if c is None:
        s = as_slice(I, st, call.args[1], call.arg_tys[1])
        if s is not None:
            c = s.len
    if c is None:
        n = I.fresh(st, "len", 0, ISIZE_MAX)
        st.add_fact(Aff.sym(n) - v.len)
        nl = Aff.sym(n)
    else:
        nl = v.len + c
    within = v.cap is not None and st.entails(v.cap - nl)
    tag = None
    src = call.args[1]
    if isinstance(src, SliceV) and v.tag is not None and src.off.is_const() and src.len.is_const() and src.len.c <= 16:
        # a piece of an array whose elements are tracked: the same as pushing them one by one
        got = array_elems(I, st, src.base, src.off.c, src.len.c)
        if got is not None and all(isinstance(e, IntV) for e in got):
            tag = v.tag
            for e in got:
                tag = ("pushed", tag, e)
    if tag is None and isinstance(src, SliceV) and v.len.is_const() and v.len.c == 0:
        tag = ("slice", src.base, src.off, src.len)     # an empty vector extended by a slice is a copy of that slice
    I.write(st, p, VecV(nl, v.cap if within else None, tag, v.gen if within else I.newgen()))
    return [(st, UNIT)]


@model("alloc::vec::Vec::<T, A>::splice")
def m_vec_splice(I, st, call):
    p, v = vec_at(I, st, call.args[0], call.arg_tys[0])
    rng = call.args[1]
    ok = False
    detail = "splice range not tracked"
    if v is not None and isinstance(rng, StructV) and len(rng.fields) == 2 and all(isinstance(f, IntV) for f in rng.fields):
        a, b = rng.fields
        c1 = st.entails(b.aff - a.aff)
        c2 = st.entails(v.len - b.aff)
        ok = c1 and c2
        detail = None if ok else "splice range %r..%r not shown within len %r" % (a.aff, b.aff, v.len)
    I.note("call:splice", call.site, ok, detail)
    if v is not None:
        cnt = iter_count(I, st, call.args[2]) if len(call.args) > 2 else None
        if ok and cnt is not None:
            # the range is replaced by the items of the iterator
            a, b = rng.fields
            I.write(st, p, VecV(v.len - (b.aff - a.aff) + cnt, None, None, I.newgen()))
        else:
            n = I.fresh(st, "len", 0, ISIZE_MAX)
            I.write(st, p, VecV(Aff.sym(n), None, None, I.newgen()))
    return [(st, OpaqueV(call.dest_ty, (("splice_of", repr(p)),)))]


@model("alloc::vec::Vec::<T, A>::retain", "alloc::vec::Vec::<T, A>::retain_mut")
def m_vec_retain(I, st, call):
    p, v = vec_at(I, st, call.args[0], call.arg_tys[0])
    if v is None:
        return None
    # the predicate is applied to a summary element
    et = pointee(call.arg_tys[0])
    et = et[2][0] if et and et[0] == "adt" and et[2] else None
    I.nsym += 1
    key = ("h", "retain_elem*%d" % I.nsym)
    st.cells[key] = TopV(et)
    rs = call_fn_value(I, st, call, call.args[1], call.arg_tys[1], [RefV(Place(key), call.path.endswith("retain_mut"))], "retain")
    if rs is None:
        return None
    outs = [s for s, _ in rs]
    j = I.join_states(outs, (call.site["id"], call.site["bb"], "retain")) if len(outs) > 1 else outs[0]
    n = I.fresh(j, "len", 0, ISIZE_MAX)
    j.add_fact(v.len - Aff.sym(n))
    I.write(j, p, VecV(Aff.sym(n), v.cap, None, v.gen))
    return [(j, UNIT)]


@model("<alloc::vec::Vec<T, A> as core::ops::deref::Deref>::deref", "<alloc::vec::Vec<T, A> as core::ops::deref::DerefMut>::deref_mut",
       "alloc::vec::Vec::<T, A>::as_slice", "alloc::vec::Vec::<T, A>::as_mut_slice",
       "<alloc::string::String as core::ops::deref::Deref>::deref", "alloc::string::String::as_str",
       "alloc::string::String::as_bytes", "core::str::<impl str>::as_bytes",
       "<alloc::vec::Vec<T, A> as core::convert::AsRef<[T]>>::as_ref",
       "<alloc::vec::Vec<T, A> as core::borrow::Borrow<[T]>>::borrow")
def m_vec_deref(I, st, call):
    s = as_slice(I, st, call.args[0], call.arg_tys[0])
    if s is None:
        return None
    return [(st, s)]


@model("<&mut T as core::ops::deref::Deref>::deref", "<&T as core::ops::deref::Deref>::deref",
       "<&mut T as core::ops::deref::DerefMut>::deref_mut")
def m_ref_deref(I, st, call):
    a = call.args[0]
    if isinstance(a, RefV):
        v = I.read(st, a.place)
        if isinstance(v, (RefV, SliceV)):
            return [(st, v)]
    return None


@model("<alloc::vec::Vec<T, A> as core::ops::index::Index<I>>::index",
       "<alloc::vec::Vec<T, A> as core::ops::index::IndexMut<I>>::index_mut",
       "core::slice::index::<impl core::ops::index::Index<I> for [T]>::index",
       "core::slice::index::<impl core::ops::index::IndexMut<I> for [T]>::index_mut",
       "core::str::traits::<impl core::ops::index::Index<I> for str>::index",
       "core::array::<impl core::ops::index::Index<I> for [T; N]>::index",
       "core::array::<impl core::ops::index::IndexMut<I> for [T; N]>::index_mut")
def m_index(I, st, call):
    is_str = "for str" in call.path
    s = as_slice(I, st, call.args[0], call.arg_tys[0])
    ix = call.args[1]
    ity = call.arg_tys[1]
    if s is None:
        I.note("call:index", call.site, False, "indexing an untracked container")
        return None
    ln = s.len
    kind = ity[1] if ity and ity[0] == "adt" else None
    if isinstance(ix, IntV):
        ok = st.entails(ix.aff) and st.entails(ln - ix.aff - 1)
        I.note("call:index", call.site, ok, None if ok else "index %r not shown < len %r" % (ix.aff, ln), index=(ix.aff, ln),
               definite=(not ok) and st.entails(ix.aff - ln))
        st.add_fact(ln - ix.aff - 1)
        et = pointee(call.dest_ty)
        I.nsym += 1
        key = ("h", "elem*%d" % I.nsym)
        # element of a tracked Vec of structs: summary element
        st.cells[key] = TopV(et)
        return [(st, RefV(Place(key), call.path.endswith("index_mut")))]
    if isinstance(ix, StructV):
        a = b = None
        if kind == "core::ops::range::Range" and len(ix.fields) == 2:
            a, b = ix.fields
        elif kind == "core::ops::range::RangeTo" and len(ix.fields) == 1:
            a, b = IntV(Aff.const(0), USIZE), ix.fields[0]
        elif kind == "core::ops::range::RangeFrom" and len(ix.fields) == 1:
            a, b = ix.fields[0], IntV(ln, USIZE)
        elif kind == "core::ops::range::RangeFull":
            a, b = IntV(Aff.const(0), USIZE), IntV(ln, USIZE)
        elif kind == "core::ops::range::RangeToInclusive" and len(ix.fields) == 1 and isinstance(ix.fields[0], IntV):
            a, b = IntV(Aff.const(0), USIZE), IntV(ix.fields[0].aff + 1, USIZE)
        if isinstance(a, IntV) and isinstance(b, IntV):
            c1 = st.entails(b.aff - a.aff)
            c2 = st.entails(ln - b.aff)
            ok = c1 and c2
            detail = None
            if not ok:
                detail = "range %r..%r not shown within len %r" % (a.aff, b.aff, ln)
            if is_str:
                # char-boundary obligation: discharged only through a lemma tag
                lem = I.str_boundary_ok(st, s, a.aff, b.aff) if hasattr(I, "str_boundary_ok") else False
                if not lem:
                    ok = False
                    detail = (detail + "; " if detail else "") + "offsets %r, %r not shown to lie on char boundaries" % (a.aff, b.aff)
            I.note("call:index", call.site, ok, detail, index=(a.aff, b.aff, ln),
                   definite=(not ok) and (st.entails(a.aff - b.aff - 1) or st.entails(b.aff - ln - 1)))
            st.add_fact(b.aff - a.aff)
            st.add_fact(ln - b.aff)
            return [(st, SliceV(b.aff - a.aff, s.base, s.off + a.aff, s.mut))]
    I.note("call:index", call.site, False, "index expression of kind %s not tracked" % (kind,))
    return None


@model("core::slice::<impl [T]>::get", "core::slice::<impl [T]>::get_mut")
def m_slice_get(I, st, call):
    """checked indexing: Some(element / sub-slice) exactly when the index / range is within bounds, None otherwise"""
    s = as_slice(I, st, call.args[0], call.arg_tys[0])
    ix = call.args[1]
    ity = call.arg_tys[1]
    if s is None:
        return None
    ln = s.len
    kind = ity[1] if ity and ity[0] == "adt" else None
    dt = call.dest_ty
    mut = call.path.endswith("get_mut")
    if isinstance(ix, IntV):
        out = []
        s_no = st.copy()
        s_no.add_fact(ix.aff - ln)
        if not s_no.dead:
            s_no.ghost[("inj", "checked-read-failed")] = "%s:%s" % (call.site.get("file"), call.site.get("line"))
            out.append((s_no, mk_none(dt)))
        st.add_fact(ln - ix.aff - 1)
        if not st.dead:
            et = pointee(dt[2][0]) if dt and dt[0] == "adt" and dt[2] else None
            I.nsym += 1
            key = ("h", "elem*%d" % I.nsym)
            eit = I.int_ty(et)
            # an integer element read through get(): the same kind of value an indexed read yields
            st.cells[key] = I.fresh_int(st, "elem", eit, info=("elem", s.base, s.off + ix.aff)) if eit is not None else TopV(et)
            out.append((st, mk_option(I, RefV(Place(key), mut), dt)))
        return out
    if isinstance(ix, StructV):
        a = b = None
        if kind == "core::ops::range::Range" and len(ix.fields) == 2:
            a, b = ix.fields
        elif kind == "core::ops::range::RangeTo" and len(ix.fields) == 1:
            a, b = IntV(Aff.const(0), USIZE), ix.fields[0]
        elif kind == "core::ops::range::RangeFrom" and len(ix.fields) == 1:
            a, b = ix.fields[0], IntV(ln, USIZE)
        if isinstance(a, IntV) and isinstance(b, IntV):
            out = []
            # out of bounds: start > end or end > len
            for bad in (a.aff - b.aff - 1, b.aff - ln - 1):
                s_no = st.copy()
                s_no.add_fact(bad)
                if not s_no.dead:
                    # a checked read that failed: the range does lie outside the container on this path
                    s_no.ghost[("inj", "checked-read-failed")] = "%s:%s" % (call.site.get("file"), call.site.get("line"))
                    out.append((s_no, mk_none(dt)))
            st.add_fact(b.aff - a.aff)
            st.add_fact(ln - b.aff)
            if not st.dead:
                out.append((st, mk_option(I, SliceV(b.aff - a.aff, s.base, s.off + a.aff, s.mut), dt)))
            return out
    return None


def _elem_ref(I, st, s, ix_aff, elem_ty, mut=False):
    """a reference to element ix of slice s: an integer element is the same kind of value an indexed read yields"""
    I.nsym += 1
    key = ("h", "elem*%d" % I.nsym)
    eit = I.int_ty(elem_ty)
    st.cells[key] = I.fresh_int(st, "elem", eit, info=("elem", s.base, s.off + ix_aff)) if eit is not None and s.base is not None else TopV(elem_ty)
    return RefV(Place(key), mut)


@model("core::slice::<impl [T]>::split_at", "core::slice::<impl [T]>::split_at_mut")
def m_slice_split_at(I, st, call):
    """(s[..mid], s[mid..]); panics when mid > len"""
    s = as_slice(I, st, call.args[0], call.arg_tys[0])
    mid = call.args[1]
    if s is None or not isinstance(mid, IntV):
        return None
    ok = st.entails(s.len - mid.aff)
    I.note("call:split_at", call.site, ok, None if ok else "mid %r not shown <= len %r" % (mid.aff, s.len),
           definite=(not ok) and st.entails(mid.aff - s.len - 1))
    st.add_fact(s.len - mid.aff)
    if st.dead:
        return []
    return [(st, StructV([SliceV(mid.aff, s.base, s.off, s.mut), SliceV(s.len - mid.aff, s.base, s.off + mid.aff, s.mut)]))]


@model("core::slice::<impl [T]>::split_at_checked", "core::slice::<impl [T]>::split_at_mut_checked")
def m_slice_split_at_checked(I, st, call):
    s = as_slice(I, st, call.args[0], call.arg_tys[0])
    mid = call.args[1]
    if s is None or not isinstance(mid, IntV):
        return None
    dt = call.dest_ty
    out = []
    s_no = st.copy()
    s_no.add_fact(mid.aff - s.len - 1)
    if not s_no.dead:
        s_no.ghost[("inj", "checked-read-failed")] = "%s:%s" % (call.site.get("file"), call.site.get("line"))
        out.append((s_no, mk_none(dt)))
    st.add_fact(s.len - mid.aff)
    if not st.dead:
        out.append((st, mk_option(I, StructV([SliceV(mid.aff, s.base, s.off, s.mut), SliceV(s.len - mid.aff, s.base, s.off + mid.aff, s.mut)]), dt)))
    return out


@model("core::slice::<impl [T]>::split_first", "core::slice::<impl [T]>::split_last",
       "core::slice::<impl [T]>::split_first_mut", "core::slice::<impl [T]>::split_last_mut",
       "core::slice::<impl [T]>::first", "core::slice::<impl [T]>::last",
       "core::slice::<impl [T]>::first_mut", "core::slice::<impl [T]>::last_mut")
def m_slice_split_first(I, st, call):
    """None for an empty slice, else the first / last element (and the rest)"""
    s = as_slice(I, st, call.args[0], call.arg_tys[0])
    if s is None:
        return None
    dt = call.dest_ty
    it = dt[2][0] if dt and dt[0] == "adt" and dt[2] else None
    out = []
    s_no = st.copy()
    s_no.add_eq(s.len, Aff.const(0))
    if not s_no.dead:
        s_no.ghost[("inj", "checked-read-failed")] = "%s:%s" % (call.site.get("file"), call.site.get("line"))
        out.append((s_no, mk_none(dt)))
    st.add_fact(s.len - 1)
    if not st.dead:
        last = "last" in call.name
        mut = call.name.endswith("_mut")
        if it is not None and it[0] == "tuple":
            et = pointee(it[1][0])
            e = _elem_ref(I, st, s, (s.len - 1) if last else Aff.const(0), et, mut)
            rest = SliceV(s.len - 1, s.base, s.off if last else s.off + 1, s.mut)
            out.append((st, mk_option(I, StructV([e, rest]), dt)))
        else:
            et = pointee(it) if it is not None else None
            out.append((st, mk_option(I, _elem_ref(I, st, s, (s.len - 1) if last else Aff.const(0), et, mut), dt)))
    return out


@model("core::slice::<impl [T]>::len", "core::str::<impl str>::len")
def m_slice_len(I, st, call):
    s = as_slice(I, st, call.args[0], call.arg_tys[0])
    if s is None:
        return [(st, I.fresh_int(st, "len", USIZE, 0, ISIZE_MAX))]
    return [(st, IntV(s.len, USIZE))]


@model("core::slice::<impl [T]>::is_empty", "core::str::<impl str>::is_empty")
def m_slice_is_empty(I, st, call):
    s = as_slice(I, st, call.args[0], call.arg_tys[0])
    if s is None:
        return None
    return _split_zero(I, st, s.len)


@model("alloc::slice::<impl [T]>::to_vec", "alloc::str::<impl alloc::borrow::ToOwned for str>::to_owned",
       "alloc::slice::<impl alloc::borrow::ToOwned for [T]>::to_owned", "alloc::str::<impl str>::to_string")
def m_to_vec(I, st, call):
    s = as_slice(I, st, call.args[0], call.arg_tys[0])
    if s is None:
        return None
    return [(st, VecV(s.len, s.len, ("copy", s.base, s.off, s.len)))]


@model("alloc::string::String::into_bytes", "alloc::string::String::into_boxed_str")
def m_into_bytes(I, st, call):
    a = call.args[0]
    if isinstance(a, VecV):
        return [(st, a)]
    return None


@model("alloc::string::String::from_utf8")
def m_from_utf8(I, st, call):
    a = call.args[0]
    out = []
    s2 = st.copy()
    out.append((st, mk_ok(a if isinstance(a, VecV) else I.mat(st, call.dest_ty[2][0], "s"), call.dest_ty)))
    et = call.dest_ty[2][1] if call.dest_ty and len(call.dest_ty[2]) > 1 else None
    out.append((s2, mk_err(OpaqueV(et, ()), call.dest_ty)))
    return out


@model("core::str::converts::from_utf8")
def m_str_from_utf8(I, st, call):
    s = as_slice(I, st, call.args[0], call.arg_tys[0])
    s2 = st.copy()
    ok = s if s is not None else I.mat(st, call.dest_ty[2][0], "s")
    et = call.dest_ty[2][1] if call.dest_ty and len(call.dest_ty[2]) > 1 else None
    return [(st, mk_ok(ok, call.dest_ty)), (s2, mk_err(OpaqueV(et, ()), call.dest_ty))]


@model("core::slice::<impl [T]>::copy_from_slice", "core::slice::<impl [T]>::clone_from_slice")
def m_copy_from_slice(I, st, call):
    d = as_slice(I, st, call.args[0], call.arg_tys[0])
    s = as_slice(I, st, call.args[1], call.arg_tys[1])
    ok = d is not None and s is not None and st.entails_eq(d.len, s.len)
    I.note("call:copy_from_slice", call.site, ok, None if ok else "lengths not shown equal: %r vs %r" % (d.len if d else None, s.len if s else None))
    tgt = None
    if isinstance(call.args[0], RefV):
        tgt = call.args[0].place
    elif isinstance(call.args[0], SliceV) and isinstance(call.args[0].base, tuple) and call.args[0].base[0] == "arr" \
            and call.args[0].off == Aff.const(0):
        tgt = call.args[0].base[1]
    if tgt is not None:
        v = I.read(st, tgt)
        if isinstance(v, OpaqueV) and s is not None and (d is None or st.entails_eq(d.len, s.len)):
            I.write(st, tgt, v.with_(copy_of=(s.base, s.off)))
    return [(st, UNIT)]


@model("core::slice::<impl [T]>::reverse", "core::slice::<impl [T]>::sort", "core::slice::<impl [T]>::fill")
def m_slice_inplace(I, st, call):
    a = call.args[0]
    if isinstance(a, SliceV) and isinstance(a.base, tuple) and a.base[0] == "vec":
        p = a.base[1]
        v = I.read(st, p)
        if isinstance(v, VecV):
            I.write(st, p, VecV(v.len, v.cap, (call.name, v.tag), v.gen, v.init))
    return [(st, UNIT)]


@model("core::slice::<impl [T]>::chunks")
def m_chunks(I, st, call):
    s = as_slice(I, st, call.args[0], call.arg_tys[0])
    n = call.args[1]
    ok = isinstance(n, IntV) and st.entails(n.aff - 1)
    I.note("call:chunks", call.site, ok, None if ok else "chunk size not shown non-zero: %r" % (n.aff if isinstance(n, IntV) else n,))
    attrs = [("iter", "chunks")]
    if s is not None:
        attrs.append(("src_len", s.len))
        attrs.append(("src", s.base))
    if isinstance(n, IntV):
        attrs.append(("chunk", n.aff))
        st.add_fact(n.aff - 1)
    return [(st, OpaqueV(call.dest_ty, tuple(attrs)))]


@model("core::slice::<impl [T]>::iter", "core::slice::<impl [T]>::iter_mut",
       "core::slice::iter::<impl core::iter::traits::collect::IntoIterator for &'a [T]>::into_iter",
       "core::slice::iter::<impl core::iter::traits::collect::IntoIterator for &'a mut [T]>::into_iter",
       "<&'a alloc::vec::Vec<T, A> as core::iter::traits::collect::IntoIterator>::into_iter",
       "<&'a mut alloc::vec::Vec<T, A> as core::iter::traits::collect::IntoIterator>::into_iter")
def m_slice_iter(I, st, call):
    s = as_slice(I, st, call.args[0], call.arg_tys[0])
    at0 = call.arg_tys[0] if call.arg_tys else None
    attrs = [("iter", "slice"), ("mut", call.path.endswith("iter_mut") or (call.path.endswith("into_iter") and bool(at0) and at0[0] == "ref" and len(at0) > 1 and at0[1] is True))]
    if s is not None:
        attrs.append(("count", s.len))
        attrs.append(("src", s.base))
        attrs.append(("src_off", s.off))
        if isinstance(s.base, tuple) and s.base[0] == "vec":
            attrs.append(("src_place", s.base[1]))
    return [(st, OpaqueV(call.dest_ty, tuple(attrs)))]


# ---------------------------------------------------------- iterators ------
@model("<I as core::iter::traits::collect::IntoIterator>::into_iter", "core::iter::traits::iterator::Iterator::by_ref",
       "core::iter::traits::iterator::Iterator::rev", "core::iter::traits::iterator::Iterator::copied",
       "core::iter::traits::iterator::Iterator::cloned", "core::iter::traits::iterator::Iterator::enumerate")
def m_iter_identity(I, st, call):
    a = call.args[0]
    if call.path.endswith("by_ref"):
        return [(st, a)]
    if isinstance(a, RefV) and call.name == "into_iter" and call.arg_tys[0] is not None and call.arg_tys[0][0] == "ref" \
            and call.arg_tys[0][2][0] == "adt" and ("iter" in call.arg_tys[0][2][1].lower()):
        return [(st, a)]  # &mut Iterator is itself an iterator
    if isinstance(a, OpaqueV):
        return [(st, OpaqueV(call.dest_ty, tuple(a.attrs) + ((("adapt", call.name),) if call.name not in ("into_iter",) else ())))]
    if isinstance(a, StructV) and call.arg_tys[0] and call.arg_tys[0][0] == "adt" and "Range" in call.arg_tys[0][1]:
        return [(st, OpaqueV(call.dest_ty, (("iter", "range"), ("range", a))))]
    return None


@model("core::ops::range::RangeInclusive::<Idx>::new")
def m_range_inclusive_new(I, st, call):
    a, b = call.args
    return [(st, OpaqueV(call.dest_ty, (("iter", "range_inclusive"), ("lo", a), ("hi", b))))]


@model("core::iter::sources::repeat::repeat")
def m_repeat(I, st, call):
    return [(st, OpaqueV(call.dest_ty, (("iter", "repeat"), ("infinite", True))))]


@model("core::iter::traits::iterator::Iterator::take")
def m_take(I, st, call):
    a, n = call.args
    attrs = [("iter", "take")]
    if isinstance(a, OpaqueV) and a.get("infinite") and isinstance(n, IntV):
        attrs.append(("count", n.aff))
    return [(st, OpaqueV(call.dest_ty, tuple(attrs)))]


def array_elems(I, st, base, off, n):
    """the n elements from offset off of a tracked array (base ("arr", place)): list of values, or None"""
    if not (isinstance(base, tuple) and base and base[0] == "arr" and isinstance(base[1], Place)):
        return None
    arr = I.read(st, base[1])
    if not isinstance(arr, OpaqueV):
        return None
    el = arr.get("elems")
    if isinstance(el, StructV) and off + n <= len(el.fields):
        return list(el.fields[off:off + n])
    return None


@model("core::iter::traits::iterator::Iterator::take_while")
def m_take_while(I, st, call):
    a = call.args[0]
    if not isinstance(a, OpaqueV):
        return None
    return [(st, OpaqueV(call.dest_ty, tuple(x for x in a.attrs if x[0] != "take_while") + (("take_while", (call.args[1], call.arg_tys[1])),)))]


@model("core::iter::traits::iterator::Iterator::count")
def m_iter_count(I, st, call):
    a = call.args[0]
    tw = a.get("take_while") if isinstance(a, OpaqueV) else None
    if tw is None:
        c = iter_count(I, st, a)
        if c is not None and isinstance(a, OpaqueV) and not [x for x in a.attrs if x[0] in ("adapt", "skip", "map_fn")]:
            return [(st, IntV(c, USIZE))]
        return [(st, I.fresh_int(st, "count", USIZE, 0, ISIZE_MAX))]
    f, fty = tw
    cnt, off = a.get("count"), a.get("src_off")
    if a.get("iter") == "slice" and isinstance(cnt, Aff) and cnt.is_const() and cnt.c <= 16 and isinstance(off, Aff) and off.is_const() \
            and not [x for x in a.attrs if x[0] in ("adapt", "skip", "map_fn")]:
        elems = array_elems(I, st, a.get("src"), off.c, cnt.c)
        if elems is not None:
            # exact: the predicate is evaluated on each element in turn; the count is the index of the first failure
            out, states = [], [st]
            for k, e in enumerate(elems):
                nxt = []
                for s_ in states:
                    # the predicate takes &Item; Item is itself a reference for slice iterators: one cell per level
                    aty = _closure_arg_ty(I, fty, 1)
                    arg = e
                    depth = 0
                    while aty is not None and aty[0] == "ref" and depth < 3:
                        aty = aty[2]
                        depth += 1
                    for _ in range(max(depth, 1)):
                        I.nsym += 1
                        key = ("h", "twitem*%d" % I.nsym)
                        s_.cells[key] = arg
                        arg = RefV(Place(key), False)
                    rs = call_fn_value(I, s_, call, f, fty, [arg], ("take_while", k))
                    if rs is None:
                        return None
                    for s2, rv in rs:
                        rv = I.as_int(s2, rv, BOOL, "pred")
                        c = rv.cond if rv.cond is not None else ("cmp", "Ne", rv.aff, Aff.const(0))
                        s3 = s2.copy()
                        for s4 in assume(s2, c, False):
                            out.append((s4, IntV(Aff.const(k), USIZE)))
                        for s4 in assume(s3, c, True):
                            nxt.append(s4)
                states = nxt
                if len(states) > 8:
                    return None
            for s_ in states:
                out.append((s_, IntV(Aff.const(len(elems)), USIZE)))
            return out
    r = I.fresh_int(st, "count", USIZE, 0, ISIZE_MAX)
    if isinstance(cnt, Aff):
        st.add_fact(cnt - r.aff)
    return [(st, r)]


@model("core::iter::traits::iterator::Iterator::skip")
def m_skip(I, st, call):
    a, n = call.args
    attrs = list(a.attrs) if isinstance(a, OpaqueV) else []
    attrs = [x for x in attrs if x[0] not in ("count", "skip")]
    if isinstance(n, IntV):
        attrs.append(("skip", n.aff))
    return [(st, OpaqueV(call.dest_ty, tuple(attrs)))]


@model("core::iter::traits::iterator::Iterator::map")
def m_iter_map(I, st, call):
    a = call.args[0]
    attrs = [x for x in (a.attrs if isinstance(a, OpaqueV) else ()) if x[0] in ("count", "src", "src_place", "iter")]
    attrs.append(("map_fn", (call.args[1], call.arg_tys[1])))
    attrs.append(("inner", a))
    return [(st, OpaqueV(call.dest_ty, tuple(attrs)))]


def _range_item(I, st, it, item_ty):
    """abstract item of a range-like iterator value"""
    if isinstance(it, StructV) and len(it.fields) == 2 and all(isinstance(f, IntV) for f in it.fields):
        x = I.fresh_int(st, "item", I.int_ty(item_ty) or it.fields[0].ty or USIZE)
        st.add_fact(x.aff - it.fields[0].aff)
        st.add_fact(it.fields[1].aff - x.aff - 1)
        return x
    if isinstance(it, OpaqueV):
        if it.get("iter") == "range_inclusive":
            lo, hi = it.get("lo"), it.get("hi")
            if isinstance(lo, IntV) and isinstance(hi, IntV):
                x = I.fresh_int(st, "item", I.int_ty(item_ty) or USIZE)
                st.add_fact(x.aff - lo.aff)
                st.add_fact(hi.aff - x.aff)
                return x
        if it.get("iter") == "range":
            r = it.get("range")
            if isinstance(r, StructV) and len(r.fields) == 2 and all(isinstance(f, IntV) for f in r.fields):
                x = I.fresh_int(st, "item", I.int_ty(item_ty) or USIZE)
                st.add_fact(x.aff - r.fields[0].aff)
                st.add_fact(r.fields[1].aff - x.aff - 1)
                return x
    return None


def _elem_item(I, st, it, item_ty):
    """abstract item yielded by an iterator value: a reference to a summary
    element for slice iterators, an integer for ranges, unknown otherwise"""
    x = _range_item(I, st, it, item_ty)
    if x is not None:
        return x
    if item_ty is not None and item_ty[0] == "ref":
        I.nsym += 1
        key = ("h", "item*%d" % I.nsym)
        st.cells[key] = TopV(item_ty[2])
        return RefV(Place(key), item_ty[1])
    return I.mat(st, item_ty, "item")


def _closure_arg_ty(I, cty, idx=1):
    if cty is None or cty[0] != "closure" or cty[1] not in I.prog.bodies:
        return None
    b = I.prog.bodies[cty[1]]
    if b["arg_count"] <= idx:
        return None
    return I.prog.ty(b["locals"][idx + 1]["ty"])


@model("<core::iter::adapters::rev::Rev<I> as core::iter::traits::iterator::Iterator>::fold",
       "<core::slice::iter::Iter<'a, T> as core::iter::traits::iterator::Iterator>::fold",
       "core::iter::traits::iterator::Iterator::fold")
def m_fold(I, st, call):
    it, init, f = call.args
    fty = call.arg_tys[2]
    item_ty = _closure_arg_ty(I, fty, 1)
    # accumulator: iterate the closure from the join of init and its results
    acc_ty = call.arg_tys[1]
    cnt = iter_count(I, st, it)
    # bounded unrolling when the trip count is a small constant
    if cnt is not None and cnt.is_const() and cnt.c <= 8:
        states = [(st, init)]
        for k in range(cnt.c):
            nxt = []
            for s, acc in states:
                item = _elem_item(I, s, it, item_ty)
                rs = call_fn_value(I, s, call, f, fty, [acc, item], ("fold", k))
                if rs is None:
                    return None
                nxt.extend(rs)
            states = nxt
        return states
    if cnt is not None and not cnt.is_const():
        clo, chi = st.range(cnt)
        if 0 <= clo and chi <= 8:
            res = []
            for nfix in range(clo, chi + 1):
                s_n = st.copy()
                s_n.add_eq(cnt, Aff.const(nfix))
                if s_n.dead:
                    continue
                states = [(s_n, init)]
                for k in range(nfix):
                    nxt = []
                    for s, acc in states:
                        item = _elem_item(I, s, it, item_ty)
                        rs = call_fn_value(I, s, call, f, fty, [acc, item], ("fold", nfix, k))
                        if rs is None:
                            return None
                        nxt.extend(rs)
                    states = nxt
                res.extend(states)
            return res
    lo_hi = None
    if isinstance(it, OpaqueV) and it.get("iter") == "range_inclusive":
        lo, hi = it.get("lo"), it.get("hi")
        if isinstance(lo, IntV) and isinstance(hi, IntV):
            d = hi.aff - lo.aff
            if d.is_const() and 0 <= d.c <= 8:
                # unroll a constant-size integer range exactly
                order = list(range(d.c + 1))
                if any(a == ("adapt", "rev") for a in it.attrs):
                    order.reverse()
                states = [(st, init)]
                for k in order:
                    nxt = []
                    for s, acc in states:
                        item = IntV(lo.aff + k, I.int_ty(item_ty) or USIZE)
                        rs = call_fn_value(I, s, call, f, fty, [acc, item], ("fold", k))
                        if rs is None:
                            return None
                        nxt.extend(rs)
                    states = nxt
                return states
    # general case: the closure is analysed on an unknown accumulator
    saved = I.recording
    acc = I.mat(st, acc_ty, "acc") if acc_ty is not None else init
    s1 = st.copy()
    item = _elem_item(I, s1, it, item_ty)
    rs = call_fn_value(I, s1, call, f, fty, [acc, item], "fold")
    if rs is None:
        return None
    outs = [s for s, _ in rs]
    # zero iterations: init; otherwise unknown accumulator
    res = [(st, init)]
    if outs:
        j = I.join_states(outs, (call.site["id"], call.site["bb"], "fold")) if len(outs) > 1 else outs[0]
        res.append((j, I.mat(j, call.dest_ty, "fold")))
    return res


def _search_iter(I, st, call, want):
    """position / find / any / all over an iterator with a predicate closure"""
    it, f = call.args[0], call.args[1]
    if isinstance(it, RefV):
        it = I.read(st, it.place)
    fty = call.arg_tys[1]
    pty = _closure_arg_ty(I, fty, 1)
    if want == "find" and pty is not None and pty[0] == "ref":
        item_ty = pty[2]
    else:
        item_ty = pty
    cnt = iter_count(I, st, it)
    out = []
    # not found
    s0 = st.copy()
    out.append((s0, None))
    # found at some element
    s1 = st
    item = _elem_item(I, s1, it, item_ty)
    arg = item
    if want == "find":
        I.nsym += 1
        key = ("h", "finditem*%d" % I.nsym)
        s1.cells[key] = item
        arg = RefV(Place(key), False)
    rs = call_fn_value(I, s1, call, f, fty, [arg], want)
    if rs is None:
        return None
    found = []
    for s, rv in rs:
        rv = I.as_int(s, rv, BOOL, "pred")
        c = rv.cond if rv.cond is not None else ("cmp", "Ne", rv.aff, Aff.const(0))
        for s2 in assume(s, c, True):
            found.append((s2, item))
    if cnt is not None:
        s0.add_fact(cnt)
        for s, _ in found:
            s.add_fact(cnt - 1)
    return out[:1], found, cnt


@model("<core::slice::iter::Iter<'a, T> as core::iter::traits::iterator::Iterator>::position",
       "core::iter::traits::iterator::Iterator::position")
def m_position(I, st, call):
    r = _search_iter(I, st, call, "position")
    if r is None:
        return None
    nf, found, cnt = r
    out = [(nf[0][0], mk_none(call.dest_ty))]
    for s, item in found:
        ix = I.fresh_int(s, "pos", USIZE, 0, ISIZE_MAX)
        if cnt is not None:
            s.add_fact(cnt - ix.aff - 1)
        out.append((s, mk_option(I, ix, call.dest_ty)))
    return out


@model("<core::slice::iter::IterMut<'a, T> as core::iter::traits::iterator::Iterator>::find",
       "core::iter::traits::iterator::Iterator::find")
def m_find(I, st, call):
    it = call.args[0]
    itv = I.read(st, it.place) if isinstance(it, RefV) else it
    if (isinstance(itv, OpaqueV) and itv.get("iter") == "range") or (isinstance(itv, StructV) and len(itv.fields) == 2):
        return m_find_range(I, st, call, itv)
    r = _search_iter(I, st, call, "find")
    if r is None:
        return None
    nf, found, cnt = r
    out = [(nf[0][0], mk_none(call.dest_ty))]
    for s, item in found:
        out.append((s, mk_option(I, item, call.dest_ty)))
    return out


def m_find_range_exact(I, st, call, lo, hi):
    """find over a constant range lo..hi: the predicate is evaluated for each
    index in turn; a definite answer continues or stops, an unknown one splits"""
    f, fty = call.args[1], call.arg_tys[1]
    out = []
    states = [st]
    for i in range(lo, hi):
        nxt = []
        for s in states:
            I.nsym += 1
            key = ("h", "finditem*%d" % I.nsym)
            item = IntV(Aff.const(i), USIZE)
            s.cells[key] = item
            rs = call_fn_value(I, s, call, f, fty, [RefV(Place(key), False)], ("find", i))
            if rs is None:
                return None
            for s2, rv in rs:
                rv = I.as_int(s2, rv, BOOL, "pred")
                c = rv.cond if rv.cond is not None else ("cmp", "Ne", rv.aff, Aff.const(0))
                s3 = s2.copy()
                for s4 in assume(s2, c, True):
                    out.append((s4, mk_option(I, item, call.dest_ty)))
                for s4 in assume(s3, c, False):
                    nxt.append(s4)
        states = nxt
        if not states:
            break
        if len(states) > 8:
            return None
    for s in states:
        out.append((s, mk_none(call.dest_ty)))
    return out


def m_find_range(I, st, call, itv):
    """find over an integer range a..b with a predicate: result r satisfies
    a <= r < b and pred(r); all earlier indices fail the predicate (not used)"""
    f, fty = call.args[1], call.arg_tys[1]
    if getattr(I, "precise_find", False) and isinstance(itv, StructV) and len(itv.fields) == 2 \
            and all(isinstance(x, IntV) and x.aff.is_const() for x in itv.fields) and 0 <= itv.fields[1].aff.c - itv.fields[0].aff.c <= 64:
        r = m_find_range_exact(I, st, call, itv.fields[0].aff.c, itv.fields[1].aff.c)
        if r is not None:
            return r
    out = [(st.copy(), mk_none(call.dest_ty))]
    item = _range_item(I, st, itv, USIZE)
    if item is None:
        return None
    I.nsym += 1
    key = ("h", "finditem*%d" % I.nsym)
    st.cells[key] = item
    rs = call_fn_value(I, st, call, f, fty, [RefV(Place(key), False)], "find")
    if rs is None:
        return None
    lo_v = itv.fields[0] if isinstance(itv, StructV) else (itv.get("lo") if isinstance(itv, OpaqueV) else None)
    for s, rv in rs:
        rv = I.as_int(s, rv, BOOL, "pred")
        c = rv.cond if rv.cond is not None else ("cmp", "Ne", rv.aff, Aff.const(0))
        for s2 in assume(s, c, True):
            # first match: every earlier index fails the predicate - in particular the one just before
            # (evaluated without recording: the sites were already visited for the item itself)
            if isinstance(lo_v, IntV) and isinstance(item, IntV):
                first = s2.copy()
                first.add_eq(item.aff, lo_v.aff)
                if not first.dead:
                    out.append((first, mk_option(I, item, call.dest_ty)))
                s2.add_fact(item.aff - lo_v.aff - 1)
                if s2.dead:
                    continue
                saved = I.recording
                I.recording = False
                try:
                    I.nsym += 1
                    k2 = ("h", "finditem*%d" % I.nsym)
                    s2.cells[k2] = IntV(item.aff - 1, item.ty)
                    rs2 = call_fn_value(I, s2, call, f, fty, [RefV(Place(k2), False)], "find-prev")
                finally:
                    I.recording = saved
                if rs2 is None:
                    out.append((s2, mk_option(I, item, call.dest_ty)))
                    continue
                for s3, rv3 in rs2:
                    rv3 = I.as_int(s3, rv3, BOOL, "pred")
                    c3 = rv3.cond if rv3.cond is not None else ("cmp", "Ne", rv3.aff, Aff.const(0))
                    for s4 in assume(s3, c3, False):
                        s4.cells.pop(k2, None)
                        out.append((s4, mk_option(I, item, call.dest_ty)))
            else:
                out.append((s2, mk_option(I, item, call.dest_ty)))
    return out


@model("<core::slice::iter::IterMut<'a, T> as core::iter::traits::iterator::Iterator>::for_each",
       "core::iter::traits::iterator::Iterator::for_each")
def m_for_each(I, st, call):
    it, f = call.args
    fty = call.arg_tys[1]
    item_ty = _closure_arg_ty(I, fty, 1)
    s0 = st.copy()
    item = _elem_item(I, st, it, item_ty)
    rs = call_fn_value(I, st, call, f, fty, [item], "for_each")
    if rs is None:
        return None
    outs = [s0] + [s for s, _ in rs]
    j = I.join_states(outs, (call.site["id"], call.site["bb"], "for_each")) if len(outs) > 1 else outs[0]
    # the source container's elements were mutated: nothing length-related changes
    return [(j, UNIT)]


@model("core::iter::traits::iterator::Iterator::try_for_each")
def m_try_for_each(I, st, call):
    it, f = call.args
    if isinstance(it, RefV):
        itv = I.read(st, it.place)
    else:
        itv = it
    fty = call.arg_tys[1]
    item_ty = _closure_arg_ty(I, fty, 1)
    s0 = st.copy()
    item = _elem_item(I, st, itv, item_ty)
    rs = call_fn_value(I, st, call, f, fty, [item], "try_for_each")
    if rs is None:
        return None
    outs = [s0] + [s for s, _ in rs]
    j = I.join_states(outs, (call.site["id"], call.site["bb"], "try_for_each")) if len(outs) > 1 else outs[0]
    return [(j, I.mat(j, call.dest_ty, "try_for_each"))]


@model("core::iter::traits::iterator::Iterator::collect")
def m_collect(I, st, call):
    it = call.args[0]
    dt = call.dest_ty
    # run the mapping closure of a `map` adaptor once on a summary item so its
    # obligations and effects are analysed
    cur = it
    depth = 0
    s = st
    while isinstance(cur, OpaqueV) and cur.get("map_fn") is not None and depth < 4:
        fv, fty = cur.get("map_fn")
        item_ty = _closure_arg_ty(I, fty, 1)
        if fty is not None and fty[0] == "fndef":
            item_ty = None
        item = _elem_item(I, s, cur.get("inner"), item_ty) if item_ty is not None else TopV(None)
        rs = call_fn_value(I, s, call, fv, fty, [item], ("collect", depth))
        if rs:
            outs = [x for x, _ in rs]
            s0 = s.copy()
            s = I.join_states([s0] + outs, (call.site["id"], call.site["bb"], "collect", depth))
        cur = cur.get("inner")
        depth += 1
    cnt = iter_count(I, s, it)
    if dt is not None and dt[0] == "adt" and dt[1] in ("alloc::vec::Vec", "alloc::string::String"):
        if cnt is not None:
            return [(s, VecV(cnt, cnt, None))]
        n = I.fresh(s, "len", 0, ISIZE_MAX)
        return [(s, VecV(Aff.sym(n), None, None))]
    if dt is not None and dt[0] == "adt" and dt[1] == "core::result::Result":
        s2 = s.copy()
        return [(s, mk_ok(I.mat(s, dt[2][0], "collected"), dt)), (s2, mk_err(I.mat(s2, dt[2][1], "err"), dt))]
    return [(s, I.mat(s, dt, "collected"))]


@prefix_model("<core::iter::adapters::skip::Skip<I> as core::iter::traits::iterator::Iterator>::next")
def m_skip_next(I, st, call):
    ref = call.args[0]
    if not isinstance(ref, RefV):
        return None
    it = I.read(st, ref.place)
    if getattr(I, "precise_chunks", False) and isinstance(it, OpaqueV) and it.get("iter") == "chunks" and isinstance(it.get("chunk"), Aff) \
            and isinstance(it.get("src_len"), Aff) and not [a for a in it.attrs if a[0] == "adapt"]:
        r = chunks_next(I, st, call, ref, it)
        if r is not None:
            return r
    if isinstance(it, OpaqueV) and it.get("iter") == "chunks":
        src_len, chunk, skip = it.get("src_len"), it.get("chunk"), it.get("skip")
        taken = it.get("taken", 0)
        dt = call.dest_ty
        item_ty = dt[2][0] if dt and dt[0] == "adt" and dt[2] else None
        if isinstance(src_len, Aff) and isinstance(chunk, Aff):
            out = []
            # Some(chunk): 1 <= len(chunk) <= chunk size, requires src_len >= 1
            s1 = st.copy()
            ln = I.fresh(s1, "chunklen", 1, ISIZE_MAX)
            s1.add_fact(chunk - Aff.sym(ln))
            s1.add_fact(src_len - Aff.sym(ln))
            if isinstance(skip, Aff) and taken == 0:
                # skipped chunks are full: skip*chunk + len <= src_len (nonlinear: only for constants)
                if skip.is_const() and skip.c == 0:
                    pass
            if not s1.dead:
                I.write(s1, ref.place, it.with_(taken=taken + 1))
                out.append((s1, mk_option(I, SliceV(Aff.sym(ln), ("chunk", it.get("src")), Aff.const(0)), dt)))
            # None: for the first request with skip == 0 only when the source is empty
            first_none_needs_empty = taken == 0 and isinstance(skip, Aff) and st.entails_eq(skip, Aff.const(0))
            if first_none_needs_empty:
                st.add_eq(src_len, Aff.const(0))
            if not st.dead:
                out.append((st, mk_none(dt)))
            return out
    return None


@prefix_model("<core::slice::iter::Chunks<'a, T> as core::iter::traits::iterator::Iterator>::nth")
def m_chunks_nth(I, st, call):
    """chunks.nth(n) on a fresh chunk iterator = chunks.skip(n).next(): the n-th item, and the cursor is left behind it"""
    ref = call.args[0]
    n = call.args[1] if len(call.args) > 1 else None
    if not isinstance(ref, RefV) or not isinstance(n, IntV):
        return None
    it = I.read(st, ref.place)
    if not (isinstance(it, OpaqueV) and it.get("iter") == "chunks") or it.get("cur_off") is not None or it.get("skip") is not None \
            or it.get("taken", 0) != 0:
        return None
    I.write(st, ref.place, it.with_(skip=n.aff))
    return m_skip_next(I, st, call)


def generic_next(I, st, call):
    """Iterator::next on an untracked iterator: None or Some(unknown item)"""
    ref = call.args[0]
    dt = call.dest_ty
    if dt is None or dt[0] != "adt" or dt[1] != "core::option::Option":
        return None
    item_ty = dt[2][0] if dt[2] else None
    s2 = st.copy()
    item = I.mat(s2, item_ty, "item")
    if item_ty is not None and item_ty[0] == "tuple":
        item = StructV([I.mat(s2, t, "item") for t in item_ty[1]])
    return [(st, mk_none(dt)), (s2, mk_option(I, item, dt))]


@prefix_model("<alloc::collections::btree::map::Iter<'a, K, V> as core::iter::traits::iterator::Iterator>::next",
              "<alloc::collections::btree::map::IterMut<'a, K, V> as core::iter::traits::iterator::Iterator>::next",
              "<alloc::collections::linked_list::Iter<'a, T> as core::iter::traits::iterator::Iterator>::next",
              "<alloc::collections::linked_list::IterMut<'a, T> as core::iter::traits::iterator::Iterator>::next",
              "<core::iter::adapters::enumerate::Enumerate<I> as core::iter::traits::iterator::Iterator>::next",
              "<core::slice::iter::Iter<'a, T> as core::iter::traits::iterator::Iterator>::next",
              "<core::slice::iter::Chunks<'a, T> as core::iter::traits::iterator::Iterator>::next",
              "<&mut I as core::iter::traits::iterator::Iterator>::next",
              "core::iter::traits::iterator::Iterator::next")
def m_next(I, st, call):
    ref = call.args[0]
    it = I.read(st, ref.place) if isinstance(ref, RefV) else None
    if isinstance(it, RefV):
        # <&mut I as Iterator>::next: forward to the inner iterator
        inner = I.read(st, it.place)
        if isinstance(inner, OpaqueV) and inner.get("iter") == "chars":
            call.args = [it] + list(call.args[1:])
            # (through a rule's instrumented reader, if one is installed)
            fwd = I.extra_models.get("<core::str::iter::Chars<'a> as core::iter::traits::iterator::Iterator>::next") or m_chars_next
            return fwd(I, st, call)
        ref, it = it, inner
    if getattr(I, "precise_chunks", False) and isinstance(it, OpaqueV) and it.get("iter") == "chunks" and isinstance(it.get("chunk"), Aff) \
            and isinstance(it.get("src_len"), Aff) and isinstance(ref, RefV) and not [a for a in it.attrs if a[0] == "adapt"]:
        r = chunks_next(I, st, call, ref, it)
        if r is not None:
            return r
    if isinstance(it, OpaqueV) and it.get("iter") == "slice" and isinstance(it.get("count"), Aff) and isinstance(ref, RefV) \
            and not [a for a in it.attrs if a[0] == "adapt"] and getattr(I, "precise_slice_next", True):
        # a slice iterator yields exactly `count` items: None when none is left, else one item and count - 1 remain
        dt = call.dest_ty
        item_ty = dt[2][0] if dt and dt[0] == "adt" and dt[1] == "core::option::Option" and dt[2] else None
        if item_ty is not None:
            cnt = it.get("count")
            out = []
            s0 = st.copy()
            s0.add_eq(cnt, Aff.const(0))
            if not s0.dead:
                out.append((s0, mk_none(dt)))
            st.add_fact(cnt - 1)
            if not st.dead:
                item = _elem_item(I, st, it, item_ty)
                I.write(st, ref.place, it.with_(count=cnt - 1))
                out.append((st, mk_option(I, item, dt)))
            return out
    if isinstance(it, OpaqueV) and isinstance(it.get("last_key"), Aff) and "btree" in call.path:
        dt = call.dest_ty
        item_ty = dt[2][0] if dt and dt[0] == "adt" and dt[2] else None
        if item_ty is not None and item_ty[0] == "tuple" and len(item_ty[1]) == 2 and item_ty[1][0][0] == "ref":
            kt = item_ty[1][0][2]
            kit = I.int_ty(kt)
            if kit is not None:
                s2 = st.copy()
                k = I.fresh_int(s2, "key", kit, info=("btree_key",))
                s2.add_fact(k.aff - it.get("last_key") - 1)
                I.nsym += 1
                key = ("h", "mapkey*%d" % I.nsym)
                s2.cells[key] = k
                val = I.mat(s2, item_ty[1][1], "mapval")
                I.write(s2, ref.place, it.with_(last_key=k.aff))
                s2.ghost[("inj", "item-open")] = True
                s2.ghost.pop("echoed", None)
                st.ghost[("inj", "map-exhausted")] = True
                out = [(st, mk_none(dt))]
                if not s2.dead:
                    out.append((s2, mk_option(I, StructV([RefV(Place(key), False), val]), dt)))
                return out
    return generic_next(I, st, call)


def chunks_next(I, st, call, ref, it):
    """[T]::chunks(size) (optionally .skip(n)): the k-th item is src[k*size .. min((k+1)*size, len)]; None once k*size >= len"""
    size, L = it.get("chunk"), it.get("src_len")
    off = it.get("cur_off")
    if off is None:
        n = it.get("skip")
        if n is None:
            off = Aff.const(0)
        elif n.is_const():
            off = size.scale(n.c)
        elif size.is_const():
            off = n.scale(size.c)
        else:
            nl, nh = st.range(n)
            if nl <= 0 <= nh and nl != nh:
                # a product is only tracked as an opaque symbol: keep the case 'nothing skipped' exact
                out = []
                sa = st.copy()
                sa.add_eq(n, Aff.const(0))
                if not sa.dead:
                    I.write(sa, ref.place, it.with_(cur_off=Aff.const(0)))
                    out.extend(chunks_next(I, sa, call, ref, it.with_(cur_off=Aff.const(0))))
                st.add_fact(n - 1)
                if st.dead:
                    return out
                rest = chunks_next(I, st, call, ref, it)
                return None if rest is None else out + rest
            sl, sh = st.range(size)
            x, y = (n, size) if repr(n) <= repr(size) else (size, n)
            cands = [nl * sl, nl * sh, nh * sl, nh * sh] if max(abs(nl), abs(nh), abs(sl), abs(sh)) < INF else [0, INF]
            off = I.pure_int(st, ("mul", x, y), "mul", None, max(min(cands), 0), max(cands), ("mul", n, size)).aff
    dt = call.dest_ty
    out = []
    s0 = st.copy()
    s0.add_fact(off - L)                       # exhausted: k*size >= len
    if not s0.dead:
        out.append((s0, mk_none(dt)))
    base = it.get("src")
    for full in (True, False):
        s1 = st.copy()
        s1.add_fact(L - off - 1)
        if full:
            s1.add_fact(L - off - size)
            ln = size
        else:
            s1.add_fact(off + size - L - 1)
            ln = L - off
        if s1.dead:
            continue
        I.write(s1, ref.place, it.with_(cur_off=off + size))
        out.append((s1, mk_option(I, SliceV(ln, base, off), dt)))
    return out


# --------------------------------------------------------------- maps ------
@model("alloc::collections::btree::map::BTreeMap::<K, V>::new", "alloc::collections::linked_list::LinkedList::<T>::new")
def m_map_new(I, st, call):
    return [(st, OpaqueV(call.dest_ty, (("empty", True),)))]


def _mark_mutated(I, st, ref, what):
    if isinstance(ref, RefV):
        v = I.read(st, ref.place)
        if isinstance(v, OpaqueV):
            d = dict(v.attrs)
            d.pop("empty", None)
            d["mutated"] = True
            I.write(st, ref.place, OpaqueV(v.ty, tuple(sorted(d.items(), key=lambda x: x[0]))))
        elif isinstance(v, TopV):
            pass


@model("alloc::collections::btree::map::BTreeMap::<K, V, A>::insert")
def m_map_insert(I, st, call):
    _mark_mutated(I, st, call.args[0], "insert")
    s2 = st.copy()
    dt = call.dest_ty
    vt = dt[2][0] if dt and dt[0] == "adt" and dt[2] else None
    return [(st, mk_none(dt)), (s2, mk_option(I, I.mat(s2, vt, "old"), dt))]


@model("alloc::collections::btree::map::BTreeMap::<K, V, A>::get", "alloc::collections::btree::map::BTreeMap::<K, V, A>::get_mut",
       "alloc::collections::linked_list::LinkedList::<T, A>::front", "alloc::collections::linked_list::LinkedList::<T, A>::back",
       "alloc::collections::linked_list::LinkedList::<T, A>::front_mut")
def m_map_get(I, st, call):
    dt = call.dest_ty
    rt = dt[2][0] if dt and dt[0] == "adt" and dt[2] else None
    src = call.args[0]
    if isinstance(src, RefV):
        v = I.read(st, src.place)
        if isinstance(v, OpaqueV) and v.get("empty"):
            return [(st, mk_none(dt))]
    s2 = st.copy()
    return [(st, mk_none(dt)), (s2, mk_option(I, I.mat(s2, rt, "entry"), dt))]


@model("alloc::collections::linked_list::LinkedList::<T, A>::push_back", "alloc::collections::linked_list::LinkedList::<T, A>::push_front",
       "alloc::collections::linked_list::LinkedList::<T, A>::clear", "alloc::collections::btree::map::BTreeMap::<K, V, A>::clear")
def m_list_mut(I, st, call):
    ref = call.args[0]
    if isinstance(ref, RefV):
        v = I.read(st, ref.place)
        if isinstance(v, OpaqueV):
            if call.name == "clear":
                I.write(st, ref.place, OpaqueV(v.ty, (("empty", True),)))
            else:
                _mark_mutated(I, st, ref, call.name)
    return [(st, UNIT)]


@model("alloc::collections::btree::map::BTreeMap::<K, V, A>::iter", "alloc::collections::btree::map::BTreeMap::<K, V, A>::iter_mut",
       "alloc::collections::linked_list::LinkedList::<T, A>::iter", "alloc::collections::linked_list::LinkedList::<T, A>::iter_mut",
       "<alloc::collections::linked_list::LinkedList<T, A> as core::iter::traits::collect::IntoIterator>::into_iter",
       "<&'a mut alloc::collections::btree::map::BTreeMap<K, V, A> as core::iter::traits::collect::IntoIterator>::into_iter",
       "<&'a alloc::collections::btree::map::BTreeMap<K, V, A> as core::iter::traits::collect::IntoIterator>::into_iter",
       "<&'a alloc::collections::linked_list::LinkedList<T, A> as core::iter::traits::collect::IntoIterator>::into_iter",
       "<&'a mut alloc::collections::linked_list::LinkedList<T, A> as core::iter::traits::collect::IntoIterator>::into_iter")
def m_coll_iter(I, st, call):
    attrs = [("iter", call.name)]
    if "btree" in call.path:
        # keys come out strictly ascending: remember the last key yielded
        attrs.append(("last_key", Aff.const(-1)))
    return [(st, OpaqueV(call.dest_ty, tuple(attrs)))]


@model("alloc::collections::btree::map::BTreeMap::<K, V, A>::entry", "lru_time_cache::LruCache::<Key, Value>::entry")
def m_entry(I, st, call):
    _mark_mutated(I, st, call.args[0], "entry")
    return [(st, OpaqueV(call.dest_ty, (("entry_of", call.args[0].place if isinstance(call.args[0], RefV) else None), ("key", call.args[1]))))]


@model("alloc::collections::btree::map::entry::Entry::<'a, K, V, A>::or_default",
       "alloc::collections::btree::map::entry::Entry::<'a, K, V, A>::or_insert",
       "alloc::collections::btree::map::entry::Entry::<'a, K, V, A>::or_insert_with",
       "lru_time_cache::Entry::<'a, Key, Value>::or_insert",
       "lru_time_cache::Entry::<'a, Key, Value>::or_insert_with")
def m_or_insert(I, st, call):
    dt = call.dest_ty
    return [(st, I.mat(st, dt, "entry"))]


@model("alloc::collections::btree::map::entry::Entry::<'a, K, V, A>::and_modify")
def m_and_modify(I, st, call):
    e, f = call.args
    fty = call.arg_tys[1]
    vt = _closure_arg_ty(I, fty, 1)
    s0 = st.copy()
    item = I.mat(st, vt, "entry") if vt is not None else TopV(None)
    rs = call_fn_value(I, st, call, f, fty, [item], "and_modify")
    if rs is None:
        return None
    outs = [s0] + [s for s, _ in rs]
    j = I.join_states(outs, (call.site["id"], call.site["bb"], "and_modify")) if len(outs) > 1 else outs[0]
    return [(j, e)]


@model("lru_time_cache::LruCache::<Key, Value>::with_expiry_duration",
       "lru_time_cache::LruCache::<Key, Value>::with_capacity",
       "lru_time_cache::LruCache::<Key, Value>::with_expiry_duration_and_capacity")
def m_lru_new(I, st, call):
    return [(st, OpaqueV(call.dest_ty, (("ctor", call.name), ("ctor_args", tuple(call.args)))))]


# ---------------------------------------------------------------- str ------
@model("core::str::<impl str>::chars")
def m_chars(I, st, call):
    s = as_slice(I, st, call.args[0], call.arg_tys[0])
    if s is None:
        return None
    # the iterator is a cursor into the string: remaining suffix
    return [(st, OpaqueV(call.dest_ty, (("iter", "chars"), ("base", s.base), ("start", s.off), ("end", s.off + s.len), ("pos", s.off))))]


@model("core::str::iter::Chars::<'a>::as_str")
def m_chars_as_str(I, st, call):
    ref = call.args[0]
    it = I.ensure(st, ref.place, pointee(call.arg_tys[0]), "chars") if isinstance(ref, RefV) else None
    if isinstance(it, OpaqueV) and it.get("iter") != "chars" and isinstance(ref, RefV):
        # an unknown Chars iterator: give it a cursor over a fresh string object
        I.nsym += 1
        base = ("obj", "chars", I.nsym)
        pos = I.fresh(st, "pos", 0, ISIZE_MAX)
        end = I.fresh(st, "end", 0, ISIZE_MAX)
        st.add_fact(Aff.sym(end) - Aff.sym(pos))
        it = OpaqueV(it.ty, (("iter", "chars"), ("base", base), ("start", Aff.sym(pos)), ("end", Aff.sym(end)), ("pos", Aff.sym(pos))))
        I.write(st, ref.place, it)
    if isinstance(it, OpaqueV) and it.get("iter") == "chars":
        pos, end = it.get("pos"), it.get("end")
        return [(st, SliceV(end - pos, it.get("base"), pos))]
    return None


@model("<core::str::iter::Chars<'a> as core::iter::traits::iterator::Iterator>::next")
def m_chars_next(I, st, call):
    ref = call.args[0]
    it = I.read(st, ref.place) if isinstance(ref, RefV) else None
    dt = call.dest_ty
    if isinstance(it, OpaqueV) and it.get("iter") == "chars":
        pos, end = it.get("pos"), it.get("end")
        out = []
        # exhausted
        s0 = st.copy()
        s0.add_eq(pos, end)
        if not s0.dead:
            out.append((s0, mk_none(dt)))
        # one char of 1..4 bytes consumed; the new position is again a boundary
        w = I.fresh(st, "charw", 1, 4)
        np_ = I.fresh(st, "pos", 0, ISIZE_MAX)
        st.add_eq(Aff.sym(np_), pos + Aff.sym(w))
        st.add_fact(end - Aff.sym(np_))
        if not st.dead:
            c = I.fresh_int(st, "char", (32, False), 0, 0x10FFFF, info=("char_at", it.get("base"), pos))
            # remember the width for this char (ASCII chars are one byte wide)
            I.syminfo[c.aff.t[0][0]] = ("char", w, it.get("base"), pos)     # width symbol, and where it was read
            I.write(st, ref.place, it.with_(pos=Aff.sym(np_)))
            I.str_boundaries.setdefault(it.get("base"), set()).add(Aff.sym(np_))
            out.append((st, mk_option(I, c, dt)))
        return out
    return generic_next(I, st, call)


@model("<core::str::iter::Chars<'a> as core::clone::Clone>::clone")
def m_chars_clone(I, st, call):
    return [(st, deref(I, st, call.args[0]))]


@model("core::str::<impl str>::as_ptr")
def m_str_as_ptr(I, st, call):
    s = as_slice(I, st, call.args[0], call.arg_tys[0])
    if s is None:
        return None
    if s.base is None:
        return [(st, PtrV(("strbase", I.fresh(st, "addr", 1, ISIZE_MAX)), Aff.const(0), 0, False))]
    # one address symbol per base object
    key = ("addr", s.base)
    name = I.addr_syms.get(key)
    if name is None:
        name = I.fresh(st, "addr", 1, ISIZE_MAX)
        I.addr_syms[key] = name
    elif name not in st.bounds:
        st.bounds[name] = (1, ISIZE_MAX)
    return [(st, PtrV(("strbase", name), s.off, 0, False))]


@model("core::str::<impl str>::trim", "core::str::<impl str>::trim_end_matches", "core::str::<impl str>::trim_matches",
       "core::str::<impl str>::trim_start", "core::str::<impl str>::trim_end", "core::str::<impl str>::trim_start_matches")
def m_trim(I, st, call):
    s = as_slice(I, st, call.args[0], call.arg_tys[0])
    if s is None:
        return None
    a = I.fresh(st, "trim_lo", 0, ISIZE_MAX)
    n = I.fresh(st, "trim_len", 0, ISIZE_MAX)
    if call.name in ("trim_end_matches", "trim_end"):
        st.add_eq(Aff.sym(a), Aff.const(0))
    st.add_fact(s.len - Aff.sym(a) - Aff.sym(n))
    r = SliceV(Aff.sym(n), s.base, s.off + Aff.sym(a))
    I.str_boundaries.setdefault(s.base, set()).update([r.off, r.off + r.len])
    return [(st, r)]


@model("core::str::<impl str>::find", "core::str::<impl str>::rfind")
def m_str_find(I, st, call):
    s = as_slice(I, st, call.args[0], call.arg_tys[0])
    dt = call.dest_ty
    pat, pty = call.args[1], call.arg_tys[1]
    if s is None:
        return None
    # closure patterns are analysed once on an arbitrary char
    if pty is not None and pty[0] == "closure":
        s_probe = st.copy()
        c = I.fresh_int(s_probe, "char", (32, False), 0, 0x10FFFF)
        call_fn_value(I, s_probe, call, pat, pty, [c], "pat")
    s0 = st.copy()
    if isinstance(pat, IntV) and pat.aff.is_const():
        # not found: the searched region is free of the character
        key = ("absent", pat.aff.c)
        s0.ghost[key] = tuple(s0.ghost.get(key, ())) + ((s.base, s.off, s.len),)
    i = I.fresh_int(st, "found", USIZE, 0, ISIZE_MAX)
    st.add_fact(s.len - i.aff - 1)
    width = 1 if isinstance(pat, IntV) and pat.aff.is_const() and pat.aff.c < 0x80 else None
    I.str_boundaries.setdefault(s.base, set()).add(s.off + i.aff)
    if width == 1:
        I.str_boundaries[s.base].add(s.off + i.aff + 1)
        I.syminfo[i.aff.t[0][0]] = ("found_ascii", s.base, s.off, pat.aff.c, call.name)
    return [(s0, mk_none(dt)), (st, mk_option(I, i, dt))]


@model("core::str::<impl str>::split_once")
def m_split_once(I, st, call):
    """s.split_once(c) for a one-byte (ASCII) character: None, or (s[..i], s[i+1..]) with i the first occurrence"""
    s = as_slice(I, st, call.args[0], call.arg_tys[0])
    pat = call.args[1]
    if s is None or not (isinstance(pat, IntV) and pat.aff.is_const() and pat.aff.c < 0x80):
        return None
    dt = call.dest_ty
    s0 = st.copy()
    i = I.fresh_int(st, "found", USIZE, 0, ISIZE_MAX)
    st.add_fact(s.len - i.aff - 1)
    I.str_boundaries.setdefault(s.base, set()).add(s.off + i.aff)
    I.str_boundaries[s.base].add(s.off + i.aff + 1)
    I.syminfo[i.aff.t[0][0]] = ("found_ascii", s.base, s.off, pat.aff.c, "find")
    a = SliceV(i.aff, s.base, s.off)
    b = SliceV(s.len - i.aff - 1, s.base, s.off + i.aff + 1)
    return [(s0, mk_none(dt)), (st, mk_option(I, StructV([a, b]), dt))]


@model("core::str::<impl str>::starts_with", "core::str::<impl str>::ends_with", "core::str::<impl str>::contains")
def m_starts_with(I, st, call):
    s = as_slice(I, st, call.args[0], call.arg_tys[0])
    s2 = st.copy()
    if s is not None:
        s2.add_fact(s.len - 1)
        if call.name == "starts_with" and isinstance(call.args[1], IntV) and call.args[1].aff.is_const() and call.args[1].aff.c < 0x80:
            key = ("boundary", s.base)
            s2.ghost[key] = tuple(s2.ghost.get(key, ())) + (s.off + 1,)
    if s is not None and call.name == "contains" and isinstance(call.args[1], IntV) and call.args[1].aff.is_const():
        # not contained: the whole string is free of the character
        key = ("absent", call.args[1].aff.c)
        st.ghost[key] = tuple(st.ghost.get(key, ())) + ((s.base, s.off, s.len),)
    out = [(st, boolv(False))]
    if not s2.dead:
        out.append((s2, boolv(True)))
    return out


@model("core::str::<impl str>::strip_prefix")
def m_strip_prefix(I, st, call):
    """s.strip_prefix(c) for a one-byte (ASCII) character: None, or Some(s[1..]) when the text starts with it"""
    s = as_slice(I, st, call.args[0], call.arg_tys[0])
    pat = call.args[1]
    if s is None or not (isinstance(pat, IntV) and pat.aff.is_const() and pat.aff.c < 0x80):
        return None
    dt = call.dest_ty
    s2 = st.copy()
    s2.add_fact(s.len - 1)
    out = [(st, mk_none(dt))]
    if not s2.dead:
        I.str_boundaries.setdefault(s.base, set()).add(s.off + 1)
        key = ("boundary", s.base)
        s2.ghost[key] = tuple(s2.ghost.get(key, ())) + (s.off + 1,)
        out.append((s2, mk_option(I, SliceV(s.len - 1, s.base, s.off + 1), dt)))
    return out


@model("core::str::<impl str>::split_at")
def m_split_at(I, st, call):
    s = as_slice(I, st, call.args[0], call.arg_tys[0])
    i = call.args[1]
    if s is None or not isinstance(i, IntV):
        I.note("call:split_at", call.site, False, "split_at on untracked operands")
        return None
    ok = st.entails(s.len - i.aff) and I.str_boundary_ok(st, s, i.aff, i.aff)
    I.note("call:split_at", call.site, ok, None if ok else "split point %r not shown <= len %r on a char boundary" % (i.aff, s.len))
    st.add_fact(s.len - i.aff)
    a = SliceV(i.aff, s.base, s.off)
    b = SliceV(s.len - i.aff, s.base, s.off + i.aff)
    return [(st, StructV([a, b]))]


@model("core::str::<impl str>::split")
def m_split(I, st, call):
    s = as_slice(I, st, call.args[0], call.arg_tys[0])
    return [(st, OpaqueV(call.dest_ty, (("iter", "split"), ("sep", call.args[1]), ("src", s.base if s else None))))]


@model("alloc::slice::<impl [T]>::join")
def m_join(I, st, call):
    n = I.fresh(st, "len", 0, ISIZE_MAX)
    return [(st, VecV(Aff.sym(n), None, ("join", call.args[1])))]


@model("core::char::methods::<impl char>::is_ascii_alphanumeric", "core::char::methods::<impl char>::is_ascii_whitespace",
       "core::char::methods::<impl char>::is_ascii_digit", "core::char::methods::<impl char>::is_ascii")
def m_char_pred(I, st, call):
    s2 = st.copy()
    c = deref(I, st, call.args[0])
    if isinstance(c, IntV):
        s2.add_fact(Aff.const(0x7F) - c.aff)
        r = []
        r.append((st, boolv(False)))
        if not s2.dead:
            r.append((s2, boolv(True)))
        return r
    return [(st, boolv(False)), (s2, boolv(True))]


@model("core::str::<impl str>::parse")
def m_parse(I, st, call):
    dt = call.dest_ty
    s2 = st.copy()
    return [(st, mk_ok(I.mat(st, dt[2][0], "parsed"), dt)), (s2, mk_err(OpaqueV(dt[2][1] if len(dt[2]) > 1 else None, ()), dt))]


# ---------------------------------------------------------------- fmt ------
@model("alloc::fmt::format", "<T as alloc::string::ToString>::to_string", "alloc::string::ToString::to_string")
def m_format(I, st, call):
    a = call.args[0] if call.args else None
    if call.name == "to_string" and isinstance(a, (SliceV,)):
        return [(st, VecV(a.len, a.len, ("copy", a.base, a.off, a.len)))]
    if call.name == "to_string" and isinstance(a, RefV):
        v = I.read(st, a.place)
        if isinstance(v, VecV):
            return [(st, VecV(v.len, v.len, ("copy", v.tag)))]
        if isinstance(v, SliceV):
            return [(st, VecV(v.len, v.len, ("copy", v.base, v.off, v.len)))]
    n = I.fresh(st, "len", 0, ISIZE_MAX)
    return [(st, VecV(Aff.sym(n), None, ("formatted",)))]


@prefix_model("core::fmt::Arguments::<'a>::", "core::fmt::rt::Argument::<'_>::")
def m_fmt_args(I, st, call):
    return [(st, OpaqueV(call.dest_ty, (("fmt", call.name), ("args", tuple(a for a in call.args if isinstance(a, (RefV, SliceV)))))))]


@model("core::time::Duration::from_secs")
def m_duration(I, st, call):
    return [(st, OpaqueV(call.dest_ty, (("secs", call.args[0]),)))]


@model("alloc::boxed::Box::<T>::new_uninit", "alloc::boxed::box_assume_init_into_vec_unsafe")
def m_box_vec_macro(I, st, call):
    # expansion of vec![a, b, ...]
    if call.name == "box_assume_init_into_vec_unsafe":
        a = call.args[0]
        n = a.get("array_len") if isinstance(a, OpaqueV) else None
        if n is not None:
            return [(st, VecV(Aff.const(n), Aff.const(n), ("vec_macro",)))]
        ln = I.fresh(st, "len", 0, ISIZE_MAX)
        return [(st, VecV(Aff.sym(ln), None, ("vec_macro",)))]
    dt = call.dest_ty
    n = None
    if dt and dt[0] == "adt" and dt[2]:
        inner = dt[2][0]
        if inner[0] == "adt" and inner[2] and inner[2][0][0] == "array":
            n = inner[2][0][2]
    return [(st, OpaqueV(dt, (("array_len", n), ("box", True))))]


@model("core::ops::range::RangeBounds::end_bound", "core::ops::range::RangeBounds::start_bound")
def m_range_bound(I, st, call):
    a = call.args[0]
    ty = pointee(call.arg_tys[0])
    if isinstance(a, RefV) and ty is not None and ty[0] == "adt":
        v = I.ensure(st, a.place, ty, "range")
        is_end = call.name == "end_bound"
        kind = ty[1].split("::")[-1]
        # Bound: Included=0, Excluded=1, Unbounded=2
        def ref(i):
            return RefV(a.place.extend(("f", i)), False)
        if kind == "Range":
            return [(st, EnumV("core::ops::range::Bound", {1: StructV([ref(1)])} if is_end else {0: StructV([ref(0)])}, call.dest_ty))]
        if kind == "RangeTo":
            return [(st, EnumV("core::ops::range::Bound", {1: StructV([ref(0)])} if is_end else {2: StructV([])}, call.dest_ty))]
        if kind == "RangeFrom":
            return [(st, EnumV("core::ops::range::Bound", {2: StructV([])} if is_end else {0: StructV([ref(0)])}, call.dest_ty))]
        if kind == "RangeFull":
            return [(st, EnumV("core::ops::range::Bound", {2: StructV([])}, call.dest_ty))]
    return None


@model("alloc::string::<impl core::convert::From<&'a str> for alloc::borrow::Cow<'a, str>>::from")
def m_cow_borrowed(I, st, call):
    return [(st, EnumV("alloc::borrow::Cow", {0: StructV([call.args[0]])}, call.dest_ty))]


@model("alloc::string::<impl core::convert::From<alloc::string::String> for alloc::borrow::Cow<'a, str>>::from")
def m_cow_owned(I, st, call):
    return [(st, EnumV("alloc::borrow::Cow", {1: StructV([call.args[0]])}, call.dest_ty))]
