"""Models of library callees for the abstract interpreter.

A model is fn(I, st, call) -> list of (state, return value) or None (meaning
"not applicable, fall through").  Preconditions whose violation panics are
recorded as obligations through I.note(kind, site, ok, detail).

Callees without a model are handled by `fallback`: result unknown, everything
reachable through &mut arguments havocked; whether such a callee may panic is
decided by the TOTAL_PREFIXES / PANICKING tables (unknown => reported).
"""
from absdom import (Aff, IntV, StructV, EnumV, Place, RefV, VecV, SliceV, PtrV,
                    TopV, FnV, OpaqueV, State, UNIT, INF, assume, holds, int_range)

ISIZE_MAX = (1 << 63) - 1
USIZE = (64, False)
BOOL = (1, False)

MODELS = {}
PREFIX_MODELS = []


def model(*paths):
    def deco(f):
        for p in paths:
            MODELS[p] = f
        return f
    return deco


def prefix_model(*prefixes):
    def deco(f):
        for p in prefixes:
            PREFIX_MODELS.append((p, f))
        return f
    return deco


# callees known not to panic (beyond those with explicit models)
TOTAL_PREFIXES = (
    "core::option::Option::<T>::", "core::result::Result::<T, E>::",
    "core::clone::", "<core::option::Option<T> as", "<core::result::Result<T",
    "core::cmp::", "core::convert::", "core::default::", "core::hint::",
    "core::iter::", "<core::iter::", "core::mem::", "core::num::<impl",
    "core::char::methods::", "core::fmt::", "<core::fmt::", "alloc::fmt::format",
    "alloc::string::", "<alloc::string::String as", "alloc::str::",
    "alloc::vec::Vec::<T>::new", "alloc::vec::Vec::<T, A>::", "<alloc::vec::Vec<T",
    "alloc::vec::partial_eq::", "alloc::slice::<impl [T]>::to_vec",
    "alloc::slice::<impl [T]>::join",
    "alloc::collections::btree::map::", "<alloc::collections::btree::map::",
    "alloc::collections::linked_list::", "<alloc::collections::linked_list::",
    "core::slice::<impl [T]>::", "<core::slice::iter::", "core::str::<impl str>::",
    "<core::str::iter::", "core::str::iter::", "core::str::converts::from_utf8",
    "core::time::Duration::from_secs", "<T as alloc::string::ToString>::to_string",
    "alloc::string::ToString::to_string",
    "<T as core::convert::Into<U>>::into", "<&mut I as core::iter::",
    "<&mut T as core::ops::deref::", "<alloc::vec::Vec<T, A> as core::ops::deref::",
    "<I as core::iter::traits::collect::IntoIterator>::into_iter",
    "core::ops::range::RangeInclusive::<Idx>::new", "core::ops::range::RangeBounds::",
    "lru_time_cache::", "alloc::boxed::", "core::ptr::mut_ptr::", "core::ptr::const_ptr::",
    "<core::convert::Infallible as",
)

# callees that can panic and have no model discharging their precondition
PANICKING = {
    "core::option::Option::<T>::unwrap", "core::option::Option::<T>::expect",
    "core::result::Result::<T, E>::unwrap", "core::result::Result::<T, E>::expect",
    "core::result::Result::<T, E>::unwrap_err", "core::result::Result::<T, E>::expect_err",
    "core::panicking::panic", "core::panicking::panic_fmt", "core::panicking::assert_failed",
    "core::panicking::panic_explicit", "core::panicking::unreachable_display",
    "core::panicking::panic_display",
    "alloc::vec::Vec::<T, A>::remove", "alloc::vec::Vec::<T, A>::swap_remove",
    "alloc::vec::Vec::<T, A>::insert", "alloc::vec::Vec::<T, A>::splice",
    "alloc::vec::Vec::<T, A>::drain", "alloc::vec::Vec::<T, A>::split_off",
    "core::slice::<impl [T]>::copy_from_slice", "core::slice::<impl [T]>::chunks",
    "core::slice::<impl [T]>::split_at", "core::str::<impl str>::split_at",
    "core::slice::<impl [T]>::chunks_exact", "core::slice::<impl [T]>::windows",
    "core::slice::<impl [T]>::swap", "core::slice::<impl [T]>::clone_from_slice",
    "core::slice::<impl [T]>::rotate_left", "core::slice::<impl [T]>::rotate_right",
    "core::slice::<impl [T]>::split_at_mut",
}


def total(path):
    if path in PANICKING:
        return False
    for p in TOTAL_PREFIXES:
        if path.startswith(p):
            return True
    return False


# --------------------------------------------------------------- helpers ---
def deref(I, st, v):
    """value behind a reference (or the value itself)"""
    if isinstance(v, RefV):
        return I.read(st, v.place)
    return v


def deref_mat(I, st, v, ty=None, hint="ref"):
    if isinstance(v, RefV):
        return I.ensure(st, v.place, ty, hint)
    return v


def pointee(ty):
    if ty is not None and ty[0] in ("ref", "rawptr"):
        return ty[2]
    return None


def mk_option(I, payload, ty=None):
    return EnumV("core::option::Option", {1: StructV([payload])}, ty)


def mk_none(ty=None):
    return EnumV("core::option::Option", {0: StructV([])}, ty)


def mk_ok(v, ty=None):
    return EnumV("core::result::Result", {0: StructV([v])}, ty)


def mk_err(v, ty=None):
    return EnumV("core::result::Result", {1: StructV([v])}, ty)


def boolv(b):
    return IntV(Aff.const(1 if b else 0), BOOL, cond=("const", bool(b)))


def split_variants(I, st, v, ty, hint="opt"):
    """[(state, variant index, payload StructV)] for an enum value"""
    if isinstance(v, TopV):
        v = I.mat(st, v.ty if v.ty is not None else ty, hint)
    if not isinstance(v, EnumV):
        return None
    out = []
    items = list(v.variants.items())
    for i, (vi, p) in enumerate(items):
        s2 = st if i == len(items) - 1 else st.copy()
        if p is None:
            t = v.ty if v.ty is not None else ty
            fts = I.field_types(t, vi) if t is not None and t[0] == "adt" else None
            p = StructV([TopV(x) for x in (fts or [])])
        out.append((s2, vi, p))
    return out


def split_ref_variants(I, st, ref, ty, hint="opt"):
    """like split_variants for an enum behind a reference; the referenced
    place is refined in each resulting state"""
    if not isinstance(ref, RefV):
        return None
    v = I.ensure(st, ref.place, pointee(ty), hint)
    if not isinstance(v, EnumV):
        return None
    out = []
    items = list(v.variants.items())
    for i, (vi, p) in enumerate(items):
        s2 = st if i == len(items) - 1 else st.copy()
        if p is None:
            t = v.ty if v.ty is not None else pointee(ty)
            fts = I.field_types(t, vi) if t is not None and t[0] == "adt" else None
            p = StructV([TopV(x) for x in (fts or [])])
        I.write(s2, ref.place, EnumV(v.path, {vi: p}, v.ty))
        out.append((s2, vi, p))
    return out


def havoc_place(I, st, place, ty):
    I.write(st, place, TopV(ty))


def havoc_through(I, st, v, ty, depth=0):
    """forget everything reachable through a mutable reference argument"""
    if isinstance(v, RefV) and v.mut:
        cur = I.read(st, v.place)
        pt = pointee(ty)
        if isinstance(cur, VecV):
            n = I.fresh(st, "len", 0, ISIZE_MAX)
            I.write(st, v.place, VecV(Aff.sym(n), None, None, I.newgen()))
        elif isinstance(cur, OpaqueV):
            I.write(st, v.place, OpaqueV(cur.ty, (("havoc", True),)))
        else:
            t = pt
            if t is None and isinstance(cur, TopV):
                t = cur.ty
            if t is None and isinstance(cur, EnumV):
                t = cur.ty
            if t is None and isinstance(cur, IntV):
                I.write(st, v.place, I.fresh_int(st, "havoc", cur.ty or USIZE))
            elif t is None and isinstance(cur, StructV):
                I.write(st, v.place, StructV([TopV(None) for _ in cur.fields]))
            else:
                I.write(st, v.place, TopV(t))
    elif isinstance(v, StructV) and depth < 3:
        fts = None
        if ty is not None and ty[0] in ("tuple", "closure", "adt"):
            try:
                fts = I.field_types(ty)
            except Exception:
                fts = None
        for i, f in enumerate(v.fields):
            havoc_through(I, st, f, fts[i] if fts and i < len(fts) else None, depth + 1)


def fallback(I, st, call):
    path = call.path
    is_total = total(path)
    if I.recording:
        I.unmodelled.setdefault(path, 0)
        I.unmodelled[path] += 1
    if not is_total:
        I.note("call:unmodelled", call.site, False, "no model for %s: may panic" % path)
    for a, t in zip(call.args, call.arg_tys):
        havoc_through(I, st, a, t)
    if call.dest_ty is not None and call.dest_ty[0] == "never":
        return []
    return [(st, I.mat(st, call.dest_ty, "ret(%s)" % (call.name or "?")))]


def apply(I, st, call):
    path = call.path
    f = MODELS.get(path)
    if f is None:
        # the declared (trait) path, for calls resolved through std blanket impls
        decl = call.term.get("callee", {}).get("path")
        f = MODELS.get(decl)
    if f is None:
        for p, g in PREFIX_MODELS:
            if path.startswith(p):
                f = g
                break
    if f is not None:
        r = f(I, st, call)
        if r is not None:
            return r
    return fallback(I, st, call)


def call_fn_value(I, st, call, fv, fty, args, tag):
    """invoke a closure or function item passed as a value.
    -> list of (state, ret) or None if unknown"""
    if fty is not None and fty[0] == "closure":
        return I.call_closure(st, call.ctx, fv, fty, args, (call.site["bb"], tag))
    if fty is not None and fty[0] == "fndef":
        path, fid, gargs = fty[1], fty[2], fty[3]
        if fid is not None and fid in I.prog.bodies:
            return I.exec_body(I.prog.bodies[fid], gargs, args, st, call.ctx, (call.site["bb"], tag))
        # constructors used as functions
        for b in ():
            pass
        desc = None
        if isinstance(fv, FnV):
            desc = fv.desc
        if desc is not None and "ctor" in desc:
            c = desc["ctor"]
            a = I.prog.adts.get(c["adt"])
            if a is not None and a["kind"] == "enum":
                return [(st, EnumV(c["adt"], {c["variant"]: StructV(args)}))]
            return [(st, StructV(args))]
        if desc is not None:
            # a library function item: run its model on a synthetic call
            from interp import Call
            c2 = Call()
            c2.term = {"callee": desc, "args": [], "dest": None}
            c2.args = list(args)
            c2.desc = desc
            c2.gargs = gargs
            c2.dest_ty = None
            c2.site = call.site
            c2.ctx = call.ctx
            c2.arg_tys = [None] * len(args)
            c2.path = desc.get("path", "?")
            c2.name = desc.get("name")
            # user-defined through impl lookup (e.g. HandlingError::internal::<String>)
            if desc.get("local") and desc.get("id") in I.prog.bodies:
                return I.exec_body(I.prog.bodies[desc["id"]], gargs, args, st, call.ctx, (call.site["bb"], tag))
            return apply(I, st, c2)
    return None


# ------------------------------------------------------------ panics -------
@model("core::panicking::panic", "core::panicking::panic_fmt", "core::panicking::panic_explicit",
       "core::panicking::assert_failed", "core::panicking::panic_display",
       "core::panicking::unreachable_display", "core::panicking::panic_nounwind",
       "core::panicking::panic_bounds_check", "core::option::unwrap_failed",
       "core::option::expect_failed", "core::result::unwrap_failed",
       "std::rt::begin_panic", "core::panicking::panic_const::panic_const_add_overflow")
def m_panic(I, st, call):
    msg = None
    if call.args and isinstance(call.args[0], SliceV) and isinstance(call.args[0].base, tuple) and call.args[0].base[0] == "const":
        msg = call.args[0].base[1]
    I.note("panic", call.site, False, "reachable %s(%r)" % (call.path.split("::")[-1], msg))
    return []


# ------------------------------------------------------------ Option -------
def _opt_arg(I, st, call, i=0):
    v = call.args[i]
    return split_variants(I, st, v, call.arg_tys[i])


@model("core::option::Option::<T>::is_none", "core::option::Option::<T>::is_some")
def m_is_none(I, st, call):
    want_none = call.path.endswith("is_none")
    sp = split_ref_variants(I, st, call.args[0], call.arg_tys[0])
    if sp is None:
        return None
    return [(s, boolv((vi == 0) == want_none)) for s, vi, p in sp]


@model("core::option::Option::<T>::zip")
def m_opt_zip(I, st, call):
    """Some((a, b)) exactly when both are Some"""
    sa = split_variants(I, st, call.args[0], call.arg_tys[0])
    if sa is None:
        return None
    out = []
    for s, vi, p in sa:
        if vi == 0:
            out.append((s, mk_none(call.dest_ty)))
            continue
        sb = split_variants(I, s, call.args[1], call.arg_tys[1])
        if sb is None:
            return None
        for s2, vj, q in sb:
            if vj == 0:
                out.append((s2, mk_none(call.dest_ty)))
            else:
                a = p.fields[0] if isinstance(p, StructV) and p.fields else TopV(None)
                b = q.fields[0] if isinstance(q, StructV) and q.fields else TopV(None)
                out.append((s2, mk_option(I, StructV([a, b]), call.dest_ty)))
    return out


@model("core::result::Result::<T, E>::is_ok", "core::result::Result::<T, E>::is_err")
def m_is_ok(I, st, call):
    want_ok = call.path.endswith("is_ok")
    sp = split_ref_variants(I, st, call.args[0], call.arg_tys[0])
    if sp is None:
        return None
    return [(s, boolv((vi == 0) == want_ok)) for s, vi, p in sp]


@model("core::option::Option::<T>::unwrap", "core::option::Option::<T>::expect")
def m_opt_unwrap(I, st, call):
    sp = _opt_arg(I, st, call)
    if sp is None:
        I.note("call:unwrap", call.site, False, "unwrap on an untracked Option")
        return [(st, I.mat(st, call.dest_ty, "unwrap"))]
    out = []
    may_none = any(vi == 0 for _, vi, _ in sp)
    I.note("call:unwrap", call.site, not may_none, None if not may_none else "Option may be None here")
    for s, vi, p in sp:
        if vi == 1:
            out.append((s, p.fields[0] if p.fields else TopV(call.dest_ty)))
    return out


@model("core::result::Result::<T, E>::unwrap", "core::result::Result::<T, E>::expect")
def m_res_unwrap(I, st, call):
    sp = _opt_arg(I, st, call)
    if sp is None:
        I.note("call:unwrap", call.site, False, "unwrap on an untracked Result")
        return [(st, I.mat(st, call.dest_ty, "unwrap"))]
    out = []
    may_err = any(vi == 1 for _, vi, _ in sp)
    I.note("call:unwrap", call.site, not may_err, None if not may_err else "Result may be Err here")
    for s, vi, p in sp:
        if vi == 0:
            out.append((s, p.fields[0] if p.fields else TopV(call.dest_ty)))
    return out


@model("core::option::Option::<T>::as_ref", "core::option::Option::<T>::as_mut",
       "core::option::Option::<T>::as_deref")
def m_opt_as_ref(I, st, call):
    ref = call.args[0]
    sp = split_ref_variants(I, st, ref, call.arg_tys[0])
    if sp is None:
        return None
    out = []
    for s, vi, p in sp:
        if vi == 0:
            out.append((s, mk_none(call.dest_ty)))
        else:
            out.append((s, mk_option(I, RefV(ref.place.extend(("v", 1), ("f", 0)), call.path.endswith("as_mut")), call.dest_ty)))
    return out


@model("core::option::Option::<T>::filter")
def m_opt_filter(I, st, call):
    """Some(x) stays Some(x) exactly when the predicate holds for &x"""
    sp = split_variants(I, st, call.args[0], call.arg_tys[0])
    if sp is None:
        return None
    dt = call.dest_ty
    f, fty = call.args[1], call.arg_tys[1]
    out = []
    for s, vi, p in sp:
        if vi == 0:
            out.append((s, mk_none(dt)))
            continue
        x = p.fields[0] if isinstance(p, StructV) and p.fields else TopV(None)
        I.nsym += 1
        key = ("h", "filteritem*%d" % I.nsym)
        s.cells[key] = x
        rs = call_fn_value(I, s, call, f, fty, [RefV(Place(key), False)], "filter")
        if rs is None:
            return None
        for s2, rv in rs:
            rv = I.as_int(s2, rv, BOOL, "pred")
            c = rv.cond if rv.cond is not None else ("cmp", "Ne", rv.aff, Aff.const(0))
            s3 = s2.copy()
            for s4 in assume(s2, c, True):
                out.append((s4, mk_option(I, x, dt)))
            for s4 in assume(s3, c, False):
                s4.cells[("gh", "filtered-out")] = x      # what is known about the rejected item stays available
                out.append((s4, mk_none(dt)))
    return out


@model("core::option::Option::<core::result::Result<T, E>>::transpose")
def m_opt_transpose(I, st, call):
    """None -> Ok(None); Some(Ok(x)) -> Ok(Some(x)); Some(Err(e)) -> Err(e)"""
    sp = split_variants(I, st, call.args[0], call.arg_tys[0])
    if sp is None:
        return None
    dt = call.dest_ty
    okt = dt[2][0] if dt and dt[0] == "adt" and dt[2] else None
    out = []
    for s, vi, p in sp:
        if vi == 0:
            out.append((s, mk_ok(mk_none(okt), dt)))
            continue
        inner = p.fields[0] if isinstance(p, StructV) and p.fields else None
        it = call.arg_tys[0][2][0] if call.arg_tys[0] and call.arg_tys[0][0] == "adt" and call.arg_tys[0][2] else None
        sp2 = split_variants(I, s, inner, it, "res")
        if sp2 is None:
            return None
        for s2, vj, q in sp2:
            x = q.fields[0] if isinstance(q, StructV) and q.fields else TopV(None)
            out.append((s2, mk_ok(mk_option(I, x, okt), dt) if vj == 0 else mk_err(x, dt)))
    return out


@model("core::option::Option::<T>::get_or_insert_with", "core::option::Option::<T>::get_or_insert", "core::option::Option::<T>::insert")
def m_opt_get_or_insert(I, st, call):
    ref = call.args[0]
    if not isinstance(ref, RefV):
        return None
    inner_ref = RefV(ref.place.extend(("v", 1), ("f", 0)), True)
    if call.name == "insert":
        v = I.ensure(st, ref.place, pointee(call.arg_tys[0]), "opt")
        path = v.path if isinstance(v, EnumV) else "core::option::Option"
        I.write(st, ref.place, EnumV(path, {1: StructV([call.args[1]])}, getattr(v, "ty", None)))
        return [(st, inner_ref)]
    sp = split_ref_variants(I, st, ref, call.arg_tys[0])
    if sp is None:
        return None
    out = []
    for s, vi, p in sp:
        if vi == 1:
            out.append((s, inner_ref))
            continue
        cur = I.read(s, ref.place)
        if call.name == "get_or_insert":
            vals = [(s, call.args[1])]
        else:
            vals = call_fn_value(I, s, call, call.args[1], call.arg_tys[1], [], "get_or_insert_with")
            if vals is None:
                return None
        for s2, val in vals:
            I.write(s2, ref.place, EnumV(cur.path if isinstance(cur, EnumV) else "core::option::Option", {1: StructV([val])}, getattr(cur, "ty", None)))
            out.append((s2, inner_ref))
    return out


@model("core::result::Result::<T, E>::as_ref", "core::result::Result::<T, E>::as_mut")
def m_res_as_ref(I, st, call):
    ref = call.args[0]
    sp = split_ref_variants(I, st, ref, call.arg_tys[0])
    if sp is None:
        return None
    out = []
    for s, vi, p in sp:
        r = RefV(ref.place.extend(("v", vi), ("f", 0)), call.path.endswith("as_mut"))
        out.append((s, EnumV("core::result::Result", {vi: StructV([r])}, call.dest_ty)))
    return out


@model("core::option::Option::<T>::take")
def m_opt_take(I, st, call):
    ref = call.args[0]
    sp = split_ref_variants(I, st, ref, call.arg_tys[0])
    if sp is None:
        return None
    out = []
    for s, vi, p in sp:
        I.write(s, ref.place, mk_none(pointee(call.arg_tys[0])))
        out.append((s, EnumV("core::option::Option", {vi: p}, call.dest_ty)))
    return out


@model("core::mem::take")
def m_mem_take(I, st, call):
    ref = call.args[0]
    if not isinstance(ref, RefV):
        return None
    pt = pointee(call.arg_tys[0])
    v = I.ensure(st, ref.place, pt, "take")
    # Default of the pointee type
    d = default_of(I, st, pt)
    if d is None:
        return None
    I.write(st, ref.place, d)
    return [(st, v)]


@model("core::mem::replace")
def m_mem_replace(I, st, call):
    ref = call.args[0]
    if not isinstance(ref, RefV):
        return None
    v = I.ensure(st, ref.place, pointee(call.arg_tys[0]), "replace")
    I.write(st, ref.place, call.args[1])
    return [(st, v)]


@model("core::mem::swap")
def m_mem_swap(I, st, call):
    a, b = call.args
    if isinstance(a, RefV) and isinstance(b, RefV):
        va, vb = I.read(st, a.place), I.read(st, b.place)
        I.write(st, a.place, vb)
        I.write(st, b.place, va)
        return [(st, UNIT)]
    return None


def default_of(I, st, ty):
    if ty is None:
        return None
    it = I.int_ty(ty)
    if it is not None:
        return IntV(Aff.const(0), it)
    if ty[0] == "adt":
        if ty[1] in ("alloc::vec::Vec", "alloc::string::String"):
            I.nsym += 1
            return VecV(Aff.const(0), Aff.const(0), ("new", I.nsym))
        if ty[1] == "core::option::Option":
            return mk_none(ty)
        if ty[1] in ("alloc::collections::btree::map::BTreeMap", "alloc::collections::linked_list::LinkedList"):
            return OpaqueV(ty, (("empty", True),))
    if ty[0] == "tuple" and not ty[1]:
        return UNIT
    return None


@model("core::default::Default::default", "<alloc::vec::Vec<T> as core::default::Default>::default",
       "<core::option::Option<T> as core::default::Default>::default",
       "<alloc::collections::btree::map::BTreeMap<K, V> as core::default::Default>::default",
       "<alloc::string::String as core::default::Default>::default")
def m_default(I, st, call):
    d = default_of(I, st, call.dest_ty)
    if d is None:
        return None
    return [(st, d)]


def _hof_opt(I, st, call, on_some, on_none):
    """helper for Option/Result combinators taking a closure"""
    sp = _opt_arg(I, st, call)
    if sp is None:
        return None
    out = []
    for s, vi, p in sp:
        r = on_some(s, vi, p) if True else None
        if r is None:
            return None
        out.extend(r)
    return out


@model("core::option::Option::<T>::map")
def m_opt_map(I, st, call):
    sp = _opt_arg(I, st, call)
    if sp is None:
        return None
    out = []
    for s, vi, p in sp:
        if vi == 0:
            out.append((s, mk_none(call.dest_ty)))
        else:
            rs = call_fn_value(I, s, call, call.args[1], call.arg_tys[1], [p.fields[0]], "map")
            if rs is None:
                return None
            for s2, rv in rs:
                out.append((s2, mk_option(I, rv, call.dest_ty)))
    return out


@model("core::option::Option::<T>::and_then")
def m_opt_and_then(I, st, call):
    sp = _opt_arg(I, st, call)
    if sp is None:
        return None
    out = []
    for s, vi, p in sp:
        if vi == 0:
            out.append((s, mk_none(call.dest_ty)))
        else:
            rs = call_fn_value(I, s, call, call.args[1], call.arg_tys[1], [p.fields[0]], "and_then")
            if rs is None:
                return None
            out.extend(rs)
    return out


@model("core::option::Option::<T>::ok_or")
def m_opt_ok_or(I, st, call):
    sp = _opt_arg(I, st, call)
    if sp is None:
        return None
    return [(s, mk_err(call.args[1], call.dest_ty) if vi == 0 else mk_ok(p.fields[0], call.dest_ty)) for s, vi, p in sp]


@model("core::option::Option::<T>::ok_or_else")
def m_opt_ok_or_else(I, st, call):
    sp = _opt_arg(I, st, call)
    if sp is None:
        return None
    out = []
    for s, vi, p in sp:
        if vi == 1:
            out.append((s, mk_ok(p.fields[0], call.dest_ty)))
        else:
            rs = call_fn_value(I, s, call, call.args[1], call.arg_tys[1], [], "ok_or_else")
            if rs is None:
                return None
            for s2, rv in rs:
                out.append((s2, mk_err(rv, call.dest_ty)))
    return out


@model("core::option::Option::<T>::is_some_and", "core::option::Option::<T>::is_none_or",
       "core::result::Result::<T, E>::is_ok_and", "core::result::Result::<T, E>::is_err_and")
def m_is_some_and(I, st, call):
    sp = _opt_arg(I, st, call)
    if sp is None:
        return None
    hit = {"is_some_and": 1, "is_none_or": 1, "is_ok_and": 0, "is_err_and": 1}[call.name]
    out = []
    for s, vi, p in sp:
        if vi != hit:
            out.append((s, boolv(call.name == "is_none_or")))
        else:
            rs = call_fn_value(I, s, call, call.args[1], call.arg_tys[1], [p.fields[0]], call.name)
            if rs is None:
                return None
            out.extend(rs)
    return out


@model("core::option::Option::<T>::map_or")
def m_opt_map_or(I, st, call):
    sp = _opt_arg(I, st, call)
    if sp is None:
        return None
    out = []
    for s, vi, p in sp:
        if vi == 0:
            out.append((s, call.args[1]))
        else:
            rs = call_fn_value(I, s, call, call.args[2], call.arg_tys[2], [p.fields[0]], "map_or")
            if rs is None:
                return None
            out.extend(rs)
    return out


@model("core::option::Option::<T>::map_or_else")
def m_opt_map_or_else(I, st, call):
    sp = _opt_arg(I, st, call)
    if sp is None:
        return None
    out = []
    for s, vi, p in sp:
        if vi == 0:
            rs = call_fn_value(I, s, call, call.args[1], call.arg_tys[1], [], "default")
        else:
            rs = call_fn_value(I, s, call, call.args[2], call.arg_tys[2], [p.fields[0]], "f")
        if rs is None:
            return None
        out.extend(rs)
    return out


@model("core::option::Option::<T>::unwrap_or_default", "core::result::Result::<T, E>::unwrap_or_default")
def m_unwrap_or_default(I, st, call):
    sp = _opt_arg(I, st, call)
    if sp is None:
        return None
    ok_ix = 1 if "Option" in call.path else 0
    out = []
    for s, vi, p in sp:
        if vi == ok_ix:
            out.append((s, p.fields[0]))
        else:
            d = default_of(I, s, call.dest_ty)
            out.append((s, d if d is not None else I.mat(s, call.dest_ty, "default")))
    return out


@model("core::option::Option::<T>::unwrap_or")
def m_unwrap_or(I, st, call):
    sp = _opt_arg(I, st, call)
    if sp is None:
        return None
    return [(s, p.fields[0] if vi == 1 else call.args[1]) for s, vi, p in sp]


# ------------------------------------------------------------ Result -------
@model("core::result::Result::<T, E>::ok")
def m_res_ok(I, st, call):
    sp = _opt_arg(I, st, call)
    if sp is None:
        return None
    return [(s, mk_option(I, p.fields[0], call.dest_ty) if vi == 0 else mk_none(call.dest_ty)) for s, vi, p in sp]


@model("core::result::Result::<T, E>::err")
def m_res_err(I, st, call):
    sp = _opt_arg(I, st, call)
    if sp is None:
        return None
    return [(s, mk_option(I, p.fields[0], call.dest_ty) if vi == 1 else mk_none(call.dest_ty)) for s, vi, p in sp]


@model("core::result::Result::<T, E>::map")
def m_res_map(I, st, call):
    sp = _opt_arg(I, st, call)
    if sp is None:
        return None
    out = []
    for s, vi, p in sp:
        if vi == 1:
            out.append((s, mk_err(p.fields[0], call.dest_ty)))
        else:
            rs = call_fn_value(I, s, call, call.args[1], call.arg_tys[1], [p.fields[0]], "map")
            if rs is None:
                return None
            for s2, rv in rs:
                out.append((s2, mk_ok(rv, call.dest_ty)))
    return out


@model("core::result::Result::<T, E>::map_err")
def m_res_map_err(I, st, call):
    sp = _opt_arg(I, st, call)
    if sp is None:
        return None
    out = []
    for s, vi, p in sp:
        if vi == 0:
            out.append((s, mk_ok(p.fields[0], call.dest_ty)))
        else:
            rs = call_fn_value(I, s, call, call.args[1], call.arg_tys[1], [p.fields[0]], "map_err")
            if rs is None:
                return None
            for s2, rv in rs:
                out.append((s2, mk_err(rv, call.dest_ty)))
    return out


@model("core::result::Result::<T, E>::map_or")
def m_res_map_or(I, st, call):
    sp = _opt_arg(I, st, call)
    if sp is None:
        return None
    out = []
    for s, vi, p in sp:
        if vi == 1:
            out.append((s, call.args[1]))
        else:
            rs = call_fn_value(I, s, call, call.args[2], call.arg_tys[2], [p.fields[0]], "map_or")
            if rs is None:
                return None
            out.extend(rs)
    return out


@model("core::result::Result::<T, E>::and_then")
def m_res_and_then(I, st, call):
    sp = _opt_arg(I, st, call)
    if sp is None:
        return None
    out = []
    for s, vi, p in sp:
        if vi == 1:
            out.append((s, mk_err(p.fields[0], call.dest_ty)))
        else:
            rs = call_fn_value(I, s, call, call.args[1], call.arg_tys[1], [p.fields[0]], "and_then")
            if rs is None:
                return None
            out.extend(rs)
    return out


# the `?` operator
@model("<core::result::Result<T, E> as core::ops::try_trait::Try>::branch")
def m_res_branch(I, st, call):
    sp = _opt_arg(I, st, call)
    if sp is None:
        return None
    out = []
    for s, vi, p in sp:
        if vi == 0:
            out.append((s, EnumV("core::ops::control_flow::ControlFlow", {0: StructV([p.fields[0]])}, call.dest_ty)))
        else:
            res = EnumV("core::result::Result", {1: StructV([p.fields[0]])})
            out.append((s, EnumV("core::ops::control_flow::ControlFlow", {1: StructV([res])}, call.dest_ty)))
    return out


@model("<core::option::Option<T> as core::ops::try_trait::Try>::branch")
def m_opt_branch(I, st, call):
    sp = _opt_arg(I, st, call)
    if sp is None:
        return None
    out = []
    for s, vi, p in sp:
        if vi == 1:
            out.append((s, EnumV("core::ops::control_flow::ControlFlow", {0: StructV([p.fields[0]])}, call.dest_ty)))
        else:
            out.append((s, EnumV("core::ops::control_flow::ControlFlow", {1: StructV([mk_none()])}, call.dest_ty)))
    return out


@model("<core::result::Result<T, F> as core::ops::try_trait::FromResidual<core::result::Result<core::convert::Infallible, E>>>::from_residual")
def m_res_from_residual(I, st, call):
    sp = _opt_arg(I, st, call)
    if sp is None:
        return None
    out = []
    for s, vi, p in sp:
        if vi != 1:
            continue
        e = p.fields[0]
        # From<E> for F: identity unless a local impl exists
        et = None
        at = call.arg_tys[0]
        if at is not None and at[0] == "adt" and len(at[2]) == 2:
            et = at[2][1]
        ft = call.dest_ty[2][1] if call.dest_ty and call.dest_ty[0] == "adt" and len(call.dest_ty[2]) == 2 else None
        if et is not None and ft is not None and et != ft:
            b, m = I.prog.find_impl_method("core::convert::From", ft, (et,), "from")
            if b is not None:
                names = b.get("generics", [])
                ga = tuple(m.get(x, ("param", x)) for x in names)
                for s2, rv in I.exec_body(b, ga, [e], s, call.ctx, (call.site["bb"], "from")):
                    out.append((s2, mk_err(rv, call.dest_ty)))
                continue
            e = I.mat(s, ft, "from")
        out.append((s, mk_err(e, call.dest_ty)))
    return out


@model("<core::option::Option<T> as core::ops::try_trait::FromResidual<core::option::Option<core::convert::Infallible>>>::from_residual")
def m_opt_from_residual(I, st, call):
    return [(st, mk_none(call.dest_ty))]


# -------------------------------------------------------- conversions ------
def _int_conv(I, st, call, v, src_ty, dst_ty):
    sit, dit = I.int_ty(src_ty), I.int_ty(dst_ty)
    if sit is None or dit is None:
        return None
    v = I.as_int(st, v, sit, "conv")
    return v, sit, dit


@model("<T as core::convert::Into<U>>::into", "core::convert::Into::into", "core::convert::From::from")
def m_into(I, st, call):
    src, dst = call.arg_tys[0], call.dest_ty
    if src is not None and dst is not None and src == dst:
        return [(st, call.args[0])]
    r = _int_conv(I, st, call, call.args[0], src, dst)
    if r is not None:
        v, sit, dit = r
        return [(st, IntV(v.aff, dit, bits=_widen_bits(v, sit, dit)))]
    # Vec<u8> from &[u8] / &str / String etc.
    a = call.args[0]
    if dst is not None and dst[0] == "adt" and dst[1] in ("alloc::vec::Vec", "alloc::string::String"):
        if isinstance(a, SliceV):
            return [(st, VecV(a.len, a.len, ("copy", a.base, a.off, a.len)))]
        if isinstance(a, VecV):
            return [(st, a)]
        if isinstance(a, OpaqueV) and a.get("array_len") is not None:
            n = Aff.const(a.get("array_len"))
            return [(st, VecV(n, n, None))]
    if dst is not None and dst[0] == "adt" and dst[1] == "alloc::collections::linked_list::LinkedList":
        if isinstance(a, OpaqueV) and a.get("array_len") is not None:
            return [(st, OpaqueV(dst, (("count", a.get("array_len")), ("from_array", True))))]
    return None


@prefix_model("core::convert::num::<impl core::convert::From<")
def m_num_from(I, st, call):
    r = _int_conv(I, st, call, call.args[0], call.arg_tys[0], call.dest_ty)
    if r is None:
        return None
    v, sit, dit = r
    return [(st, IntV(v.aff, dit, bits=_widen_bits(v, sit, dit)))]


def _widen_bits(v, sit, dit):
    if v.bits is None or sit[1] or dit[1] or dit[0] < sit[0] or len(v.bits) != sit[0]:
        return None
    return tuple(v.bits) + (0,) * (dit[0] - sit[0])


@prefix_model("core::convert::num::ptr_try_from_impls::<impl core::convert::TryFrom<",
              "core::convert::num::<impl core::convert::TryFrom<")
def m_num_try_from(I, st, call):
    dst = call.dest_ty
    if dst is None or dst[0] != "adt" or not dst[2]:
        return None
    r = _int_conv(I, st, call, call.args[0], call.arg_tys[0], dst[2][0])
    if r is None:
        return None
    v, sit, dit = r
    lo, hi = int_range(dit)
    c = ("ovf", v.aff, lo, hi)
    out = []
    s_ok = st.copy()
    for s in assume(s_ok, c, False):
        out.append((s, mk_ok(IntV(v.aff, dit), dst)))
    for s in assume(st, c, True):
        out.append((s, mk_err(OpaqueV(dst[2][1] if len(dst[2]) > 1 else None, ()), dst)))
    return out


@model("core::convert::TryFrom::try_from", "core::convert::TryInto::try_into")
def m_try_from_generic(I, st, call):
    return m_num_try_from(I, st, call)


@prefix_model("core::clone::impls::<impl core::clone::Clone for")
def m_clone_prim(I, st, call):
    return [(st, deref(I, st, call.args[0]))]


@model("core::clone::Clone::clone", "<core::option::Option<T> as core::clone::Clone>::clone",
       "<alloc::vec::Vec<T, A> as core::clone::Clone>::clone",
       "<alloc::string::String as core::clone::Clone>::clone",
       "<alloc::collections::btree::map::BTreeMap<K, V, A> as core::clone::Clone>::clone",
       "<alloc::collections::linked_list::LinkedList<T, A> as core::clone::Clone>::clone")
def m_clone(I, st, call):
    a = call.args[0]
    if isinstance(a, RefV):
        v = I.ensure(st, a.place, pointee(call.arg_tys[0]), "clone")
        if isinstance(v, VecV):
            return [(st, VecV(v.len, v.len, ("copy", v.tag)))]
        if isinstance(v, OpaqueV):
            return [(st, v.with_(clone_of=repr(a.place)))]
        if isinstance(v, (IntV, StructV, EnumV, TopV)):
            return [(st, clone_val(v))]
    if isinstance(a, SliceV):
        return [(st, a)]
    return None


def clone_val(v):
    if isinstance(v, VecV):
        return VecV(v.len, v.len, ("copy", v.tag))
    if isinstance(v, StructV):
        return StructV([clone_val(f) for f in v.fields])
    if isinstance(v, EnumV):
        return EnumV(v.path, {k: (clone_val(p) if p is not None else None) for k, p in v.variants.items()}, v.ty)
    return v


@model("<core::option::Option<T> as core::clone::Clone>::clone_from")
def m_clone_from(I, st, call):
    dst, src = call.args
    if isinstance(dst, RefV) and isinstance(src, RefV):
        v = I.ensure(st, src.place, pointee(call.arg_tys[1]), "clone_from")
        I.write(st, dst.place, clone_val(v))
        return [(st, UNIT)]
    return None


@model("core::cmp::min", "core::cmp::max", "core::cmp::Ord::min", "core::cmp::Ord::max")
def m_minmax(I, st, call):
    a, b = call.args
    if not (isinstance(a, IntV) and isinstance(b, IntV)):
        return None
    is_min = call.path.endswith("min")
    le = ("cmp", "Le", a.aff, b.aff)
    if a.aff.is_const() != b.aff.is_const() and not holds(st, le, True) and not holds(st, le, False):
        # clamping against a constant: one result symbol with r <= both (min) / r >= both (max) instead of a path
        # split - repeated clamps (e.g. in a small accessor called many times) would otherwise double the paths each time
        lo_a, hi_a = st.range(a.aff)
        lo_b, hi_b = st.range(b.aff)
        lo, hi = (min(lo_a, lo_b), min(hi_a, hi_b)) if is_min else (max(lo_a, lo_b), max(hi_a, hi_b))
        r = I.pure_int(st, ("minmax", is_min, a.aff, b.aff), "clamp", a.ty, lo, hi, ("clamp", is_min, a.aff, b.aff))
        for x in (a, b):
            st.add_fact(x.aff - r.aff if is_min else r.aff - x.aff)
        return [(st, r)]
    out = []
    s2 = st.copy()
    for s in assume(st, le, True):
        out.append((s, a if is_min else b))
    for s in assume(s2, le, False):
        out.append((s, b if is_min else a))
    return out


@model("core::num::<impl usize>::checked_sub", "core::num::<impl u16>::checked_sub",
       "core::num::<impl u32>::checked_sub", "core::num::<impl u8>::checked_sub",
       "core::num::<impl u64>::checked_sub")
def m_checked_sub(I, st, call):
    a, b = call.args
    if not (isinstance(a, IntV) and isinstance(b, IntV)):
        return None
    ge = ("cmp", "Ge", a.aff, b.aff)
    out = []
    s2 = st.copy()
    for s in assume(st, ge, True):
        out.append((s, mk_option(I, IntV(a.aff - b.aff, a.ty), call.dest_ty)))
    for s in assume(s2, ge, False):
        out.append((s, mk_none(call.dest_ty)))
    return out


@model("core::num::<impl usize>::trailing_zeros", "core::num::<impl u64>::trailing_zeros", "core::num::<impl u32>::trailing_zeros",
       "core::num::<impl u16>::trailing_zeros", "core::num::<impl u8>::trailing_zeros",
       "core::num::<impl usize>::count_ones", "core::num::<impl u64>::count_ones", "core::num::<impl u32>::count_ones",
       "core::num::<impl u16>::count_ones", "core::num::<impl u8>::count_ones")
def m_trailing_zeros(I, st, call):
    """constant-folded for a constant argument (masks); otherwise 0..=w"""
    x = call.args[0]
    u32 = (32, False)
    if not isinstance(x, IntV) or x.ty is None or x.ty[1]:
        return None
    w = x.ty[0]
    if x.aff.is_const():
        c = x.aff.c
        if call.name == "count_ones":
            return [(st, IntV(Aff.const(bin(c).count("1")), u32))]
        return [(st, IntV(Aff.const(w if c == 0 else (c & -c).bit_length() - 1), u32))]
    return [(st, I.fresh_int(st, "tz", u32, 0, w))]


@model("core::num::<impl usize>::leading_zeros", "core::num::<impl u64>::leading_zeros", "core::num::<impl u32>::leading_zeros",
       "core::num::<impl u16>::leading_zeros", "core::num::<impl u8>::leading_zeros")
def m_leading_zeros(I, st, call):
    """lz(x) = w for x == 0; otherwise 2^(w-1-lz) <= x < 2^(w-lz)"""
    x = call.args[0]
    if not isinstance(x, IntV) or x.ty is None or x.ty[1]:
        return None
    w = x.ty[0]
    u32 = (32, False)
    out = []
    s0 = st.copy()
    s0.add_eq(x.aff, Aff.const(0))
    if not s0.dead:
        out.append((s0, IntV(Aff.const(w), u32)))
    st.add_fact(x.aff - 1)
    if st.dead:
        return out
    lo, hi = st.range(x.aff)
    lzl = w - hi.bit_length() if hi < (1 << w) else 0
    lzh = w - max(lo, 1).bit_length()
    lz = I.fresh_int(st, "lz", u32, max(lzl, 0), min(lzh, w - 1))
    if lz.aff.is_const() or st.range(lz.aff)[0] == st.range(lz.aff)[1]:
        k = w - 1 - st.range(lz.aff)[0]
        st.add_fact(x.aff - (1 << k))
        st.add_fact(Aff.const((1 << (k + 1)) - 1) - x.aff)
        out.append((st, IntV(Aff.const(st.range(lz.aff)[0]), u32)))
        return out
    # the power of two below x, named as the shift the caller is likely to form from the result
    sh = Aff.const(w - 1) - lz.aff
    p_ = I.pure_int(st, ("shl", 1, sh, x.ty), "shl", x.ty, 1, 1 << (w - 1))
    p_.origin = ("shl", 1, sh)
    st.add_fact(x.aff - p_.aff)
    if w < 64 or True:
        st.add_fact(p_.aff.scale(2) - x.aff - 1)
    out.append((st, lz))
    return out


@model("core::num::<impl usize>::saturating_mul", "core::num::<impl u32>::saturating_mul", "core::num::<impl u64>::saturating_mul",
       "core::num::<impl u16>::saturating_mul")
def m_saturating_mul(I, st, call):
    a, b = call.args
    if not (isinstance(a, IntV) and isinstance(b, IntV)) or a.ty is None:
        return None
    lo, hi = int_range(a.ty)
    tyd = ("int", a.ty[0], a.ty[1])
    prod = I.binop(call.ctx, st, "MulUnchecked", a, b, tyd, call.site)
    c = ("ovf", prod.aff, lo, hi)
    out = []
    s2 = st.copy()
    for s in assume(st, c, False):
        out.append((s, IntV(prod.aff, a.ty)))
    for s in assume(s2, c, True):
        out.append((s, IntV(Aff.const(hi), a.ty)))
    return out


@model("core::num::<impl usize>::checked_div", "core::num::<impl u16>::checked_div",
       "core::num::<impl u32>::checked_div", "core::num::<impl u64>::checked_div", "core::num::<impl u8>::checked_div")
def m_checked_div(I, st, call):
    a, b = call.args
    if not (isinstance(a, IntV) and isinstance(b, IntV)):
        return None
    out = []
    s0 = st.copy()
    s0.add_eq(b.aff, Aff.const(0))
    if not s0.dead:
        out.append((s0, mk_none(call.dest_ty)))
    st.add_fact(b.aff - 1)
    if not st.dead:
        q = I.binop(call.ctx, st, "Div", a, b, ("int", (a.ty or (64, False))[0], False), call.site)
        out.append((st, mk_option(I, q, call.dest_ty)))
    return out


@model("core::num::<impl usize>::checked_add", "core::num::<impl u16>::checked_add",
       "core::num::<impl u32>::checked_add", "core::num::<impl u8>::checked_add",
       "core::num::<impl u64>::checked_add")
def m_checked_add(I, st, call):
    a, b = call.args
    if not (isinstance(a, IntV) and isinstance(b, IntV)) or a.ty is None:
        return None
    lo, hi = int_range(a.ty)
    e = a.aff + b.aff
    c = ("ovf", e, lo, hi)
    out = []
    s2 = st.copy()
    for s in assume(st, c, False):
        out.append((s, mk_option(I, IntV(e, a.ty), call.dest_ty)))
    for s in assume(s2, c, True):
        out.append((s, mk_none(call.dest_ty)))
    return out


@model("core::num::<impl usize>::saturating_sub", "core::num::<impl u8>::saturating_sub",
       "core::num::<impl u16>::saturating_sub", "core::num::<impl u32>::saturating_sub")
def m_saturating_sub(I, st, call):
    a, b = call.args
    if not (isinstance(a, IntV) and isinstance(b, IntV)):
        return None
    ge = ("cmp", "Ge", a.aff, b.aff)
    out = []
    s2 = st.copy()
    for s in assume(st, ge, True):
        out.append((s, IntV(a.aff - b.aff, a.ty)))
    for s in assume(s2, ge, False):
        out.append((s, IntV(Aff.const(0), a.ty)))
    return out


@model("core::num::<impl u8>::saturating_add", "core::num::<impl u16>::saturating_add",
       "core::num::<impl u32>::saturating_add", "core::num::<impl usize>::saturating_add")
def m_saturating_add(I, st, call):
    a, b = call.args
    if not (isinstance(a, IntV) and isinstance(b, IntV)) or a.ty is None:
        return None
    lo, hi = int_range(a.ty)
    e = a.aff + b.aff
    c = ("ovf", e, lo, hi)
    out = []
    s2 = st.copy()
    for s in assume(st, c, False):
        out.append((s, IntV(e, a.ty)))
    for s in assume(s2, c, True):
        out.append((s, IntV(Aff.const(hi), a.ty)))
    return out


@model("core::num::<impl u8>::wrapping_add", "core::num::<impl u16>::wrapping_add",
       "core::num::<impl u32>::wrapping_add", "core::num::<impl usize>::wrapping_add")
def m_wrapping_add(I, st, call):
    a, b = call.args
    if not (isinstance(a, IntV) and isinstance(b, IntV)) or a.ty is None:
        return None
    lo, hi = int_range(a.ty)
    e = a.aff + b.aff
    if holds(st, ("ovf", e, lo, hi), False):
        return [(st, IntV(e, a.ty))]
    return [(st, I.fresh_int(st, "wrap", a.ty))]


@model("core::num::<impl u16>::from_be", "core::num::<impl u32>::from_be", "core::num::<impl u16>::to_be",
       "core::num::<impl u16>::swap_bytes", "core::num::<impl u16>::from_le", "core::num::<impl u16>::to_le")
def m_from_be(I, st, call):
    a = call.args[0]
    it = I.int_ty(call.dest_ty)
    bits = None
    if isinstance(a, IntV) and it is not None and not it[1] and it[0] % 8 == 0:
        # little-endian target: from_be / to_be / swap_bytes reverse the byte order; from_le / to_le are the identity
        ab = I.bits_of(st, a, it[0])
        if call.name in ("from_le", "to_le"):
            return [(st, a)]
        nb = it[0] // 8
        bits = tuple(ab[(nb - 1 - (i // 8)) * 8 + (i % 8)] for i in range(it[0]))
    if bits is not None and any(b is not None for b in bits):
        r = I.from_bits(st, bits, it, "from_be")
    else:
        r = I.fresh_int(st, "from_be", it, info=("byteswap", a.aff if isinstance(a, IntV) else None))
    r.origin = (call.name, a)
    return [(st, r)]


@model("core::num::<impl u16>::to_be_bytes", "core::num::<impl u32>::to_be_bytes", "core::num::<impl u64>::to_be_bytes",
       "core::num::<impl usize>::to_be_bytes",
       "core::num::<impl u16>::to_le_bytes", "core::num::<impl u16>::to_ne_bytes")
def m_to_bytes(I, st, call):
    a = call.args[0]
    n = call.dest_ty[2] if call.dest_ty and call.dest_ty[0] == "array" else None
    attrs = [("array_len", n), ("bytes_of", (call.name, a))]
    if call.name == "to_be_bytes" and isinstance(a, IntV) and a.ty is not None and not a.ty[1] and isinstance(n, int) and n * 8 == a.ty[0]:
        # the bytes as values of their own: byte k carries bits 8(n-1-k)..+7 of the number, and the number is
        # their base-256 sum (so a test on a byte bounds the number and the other way round)
        bits = I.bits_of(st, a, a.ty[0])
        elems, total = [], Aff.const(0)
        for k in range(n):
            e = I.from_bits(st, tuple(bits[8 * (n - 1 - k): 8 * (n - k)]), (8, False), "be")
            elems.append(e)
            total = total + e.aff.scale(256 ** (n - 1 - k))
        st.add_eq(a.aff, total)
        attrs.append(("elems", StructV(elems)))
    return [(st, OpaqueV(call.dest_ty, tuple(attrs)))]


@model("core::num::<impl u16>::from_be_bytes", "core::num::<impl u32>::from_be_bytes",
       "core::num::<impl u16>::from_le_bytes", "core::num::<impl u16>::from_ne_bytes")
def m_from_bytes(I, st, call):
    it = I.int_ty(call.dest_ty)
    a = call.args[0]
    if isinstance(a, OpaqueV) and isinstance(a.get("elems"), StructV):
        a = a.get("elems")
    if isinstance(a, StructV) and a.fields and all(isinstance(f, IntV) and st.range(f.aff)[0] >= 0 and st.range(f.aff)[1] <= 255 for f in a.fields) \
            and it is not None and len(a.fields) * 8 <= it[0] and call.name in ("from_be_bytes", "from_le_bytes"):
        # exact: the bytes are disjoint digits in base 256
        n = len(a.fields)
        e = Aff.const(0)
        for k, f in enumerate(a.fields):
            e = e + f.aff.scale(256 ** ((n - 1 - k) if call.name == "from_be_bytes" else k))
        return [(st, IntV(e, it))]
    r = I.fresh_int(st, call.name, it)
    r.origin = (call.name, call.args[0])
    return [(st, r)]


@model("<&u16 as core::ops::arith::Sub<u16>>::sub", "<&usize as core::ops::arith::Sub<usize>>::sub",
       "<&u16 as core::ops::arith::Sub<&u16>>::sub", "<u16 as core::ops::arith::Sub<&u16>>::sub")
def m_ref_sub(I, st, call):
    a = deref_mat(I, st, call.args[0], call.arg_tys[0], "lhs")
    b = deref_mat(I, st, call.args[1], call.arg_tys[1], "rhs")
    it = I.int_ty(call.dest_ty)
    if not (isinstance(a, IntV) and isinstance(b, IntV)):
        I.note("call:arith", call.site, False, "operator impl on untracked operands")
        return [(st, I.fresh_int(st, "sub", it))]
    e = a.aff - b.aff
    lo, hi = int_range(it)
    ok = holds(st, ("ovf", e, lo, hi), False)
    I.note("call:arith:Sub", call.site, ok, None if ok else "subtraction may overflow: %r" % (e,), st, operands=(a.aff, b.aff))
    out = []
    for s in assume(st, ("ovf", e, lo, hi), False):
        out.append((s, IntV(e, it)))
    return out


@model("<usize as core::ops::bit::Shl<&usize>>::shl", "<usize as core::ops::bit::Shl<usize>>::shl",
       "<i32 as core::ops::bit::Shl<&usize>>::shl")
def m_ref_shl(I, st, call):
    a = deref_mat(I, st, call.args[0], call.arg_tys[0], "lhs")
    b = deref_mat(I, st, call.args[1], call.arg_tys[1], "rhs")
    it = I.int_ty(call.dest_ty)
    if not (isinstance(a, IntV) and isinstance(b, IntV)):
        I.note("call:arith", call.site, False, "operator impl on untracked operands")
        return [(st, I.fresh_int(st, "shl", it))]
    w = it[0]
    ok = holds(st, ("cmp", "Lt", b.aff, Aff.const(w)), True)
    I.note("call:arith:Shl", call.site, ok, None if ok else "shift amount may reach the bit width: %r" % (b.aff,))
    out = []
    for s in assume(st, ("cmp", "Lt", b.aff, Aff.const(w)), True):
        if a.aff.is_const() and a.aff.c == 1 and not b.aff.is_const():
            # 1 << n: partition n == 0 (result 1) / n >= 1 (result even, >= 2)
            s0 = s.copy()
            s0.add_eq(b.aff, Aff.const(0))
            if not s0.dead:
                out.append((s0, IntV(Aff.const(1), it)))
            s.add_fact(b.aff - 1)
            if not s.dead:
                r = I.binop(call.ctx, s, "Shl", a, b, call.dest_ty, call.site)
                out.append((s, r))
            continue
        out.append((s, I.binop(call.ctx, s, "Shl", a, b, call.dest_ty, call.site)))
    return out


def _run_local_method(I, st, call, trait, name, args):
    self_ty = call.gargs[0] if call.gargs else None
    rhs = call.gargs[1] if len(call.gargs) > 1 else self_ty
    if self_ty is None:
        return None
    b, m = I.prog.find_impl_method(trait, self_ty, (rhs,), name)
    if b is None:
        b, m = I.prog.find_impl_method(trait, self_ty, None, name)
    if b is None:
        return None
    names = b.get("generics", [])
    ga = tuple(m.get(x, ("param", x)) for x in names)
    return I.exec_body(b, ga, args, st, call.ctx, (call.site["bb"], name))


def _option_eq(I, st, call):
    """Option<scalar> == Option<scalar> (e.g. `first != Some('"')`): decided per variant pair, payloads compared as numbers"""
    if len(call.args) < 2 or not all(isinstance(x, RefV) for x in call.args[:2]):
        return None
    ta, tb = pointee(call.arg_tys[0]), pointee(call.arg_tys[1])
    if not (ta and tb and ta[0] == "adt" and ta[1] == "core::option::Option" and tb[0] == "adt" and tb[1] == "core::option::Option"):
        return None
    va = I.ensure(st, call.args[0].place, ta, "lhs")
    vb = I.ensure(st, call.args[1].place, tb, "rhs")
    spa = split_variants(I, st, va, ta)
    if spa is None:
        return None
    out = []
    for s, vi, p in spa:
        spb = split_variants(I, s, vb, tb)
        if spb is None:
            return None
        for s2, vj, q in spb:
            if vi != vj:
                out.append((s2, boolv(False)))
            elif vi == 0:
                out.append((s2, boolv(True)))
            else:
                x = p.fields[0] if isinstance(p, StructV) and p.fields else None
                y = q.fields[0] if isinstance(q, StructV) and q.fields else None
                if not (isinstance(x, IntV) and isinstance(y, IntV)):
                    return None
                for val in (True, False):
                    for s3 in assume(s2.copy(), ("cmp", "Eq", x.aff, y.aff), val):
                        if not s3.dead:
                            out.append((s3, boolv(val)))
    return out


@prefix_model("core::option::<impl core::cmp::PartialEq for core::option::Option<T>>::eq")
def m_option_eq(I, st, call):
    return _option_eq(I, st, call)


@model("core::cmp::PartialEq::ne")
def m_ne(I, st, call):
    rs = _run_local_method(I, st, call, "core::cmp::PartialEq", "eq", call.args)
    if rs is None:
        rs = _option_eq(I, st, call)
    if rs is None:
        return None
    out = []
    for s, rv in rs:
        rv = I.as_int(s, rv, BOOL, "eq")
        c = rv.cond if rv.cond is not None else ("cmp", "Ne", rv.aff, Aff.const(0))
        if holds(s, c, True):
            out.append((s, boolv(False)))
        elif holds(s, c, False):
            out.append((s, boolv(True)))
        else:
            out.append((s, IntV(Aff.const(1) - rv.aff, BOOL, cond=("not", c))))
    return out


@model("core::cmp::PartialOrd::ge", "core::cmp::PartialOrd::gt", "core::cmp::PartialOrd::le", "core::cmp::PartialOrd::lt")
def m_partial_ord_default(I, st, call):
    rs = _run_local_method(I, st, call, "core::cmp::PartialOrd", "partial_cmp", call.args)
    if rs is None:
        return None
    # Ordering: Less=-1 (variant 0), Equal=0 (1), Greater=1 (2)
    accept = {"ge": (1, 2), "gt": (2,), "le": (0, 1), "lt": (0,)}[call.name]
    out = []
    for s, rv in rs:
        sp = split_variants(I, s, rv, None, "ord")
        if sp is None:
            out.append((s, I.mat(s, ("bool",), "ord")))
            continue
        for s2, vi, p in sp:
            if vi == 0:
                out.append((s2, boolv(False)))
                continue
            inner = p.fields[0]
            sp2 = split_variants(I, s2, inner, ("adt", "core::cmp::Ordering", (), "enum"), "ordering")
            if sp2 is None:
                out.append((s2, I.mat(s2, ("bool",), "ord")))
                continue
            for s3, oi, _ in sp2:
                out.append((s3, boolv(oi in accept)))
    return out


@prefix_model("core::cmp::impls::<impl core::cmp::PartialOrd for", "core::cmp::impls::<impl core::cmp::Ord for")
def m_int_cmp(I, st, call):
    a = deref_mat(I, st, call.args[0], call.arg_tys[0], "a")
    b = deref_mat(I, st, call.args[1], call.arg_tys[1], "b")
    if not (isinstance(a, IntV) and isinstance(b, IntV)):
        return None
    is_partial = call.name == "partial_cmp"
    if call.name not in ("partial_cmp", "cmp"):
        return None
    out = []
    for vi, cond in ((0, ("cmp", "Lt", a.aff, b.aff)), (1, ("cmp", "Eq", a.aff, b.aff)), (2, ("cmp", "Gt", a.aff, b.aff))):
        s2 = st.copy()
        for s3 in assume(s2, cond, True):
            o = EnumV("core::cmp::Ordering", {vi: StructV([])})
            out.append((s3, mk_option(I, o, call.dest_ty) if is_partial else o))
    return out


@prefix_model("core::cmp::impls::<impl core::cmp::PartialEq<&B> for &A>::")
def m_ref_eq(I, st, call):
    # &A == &B delegates to A == B
    a, b = call.args
    if isinstance(a, RefV) and isinstance(b, RefV):
        ia, ib = I.read(st, a.place), I.read(st, b.place)
        aty = pointee(call.arg_tys[0])
        inner_ty = pointee(aty)
        bty = pointee(pointee(call.arg_tys[1]))
        if inner_ty is not None:
            bd, m = I.prog.find_impl_method("core::cmp::PartialEq", inner_ty, (bty,) if bty else None, "eq")
            if bd is not None and isinstance(ia, RefV) and isinstance(ib, RefV):
                names = bd.get("generics", [])
                ga = tuple(m.get(x, ("param", x)) for x in names)
                rs = I.exec_body(bd, ga, [ia, ib], st, call.ctx, (call.site["bb"], "eq"))
                if call.name == "ne":
                    return [(s, _negate(I, s, rv)) for s, rv in rs]
                return rs
            # primitives
            if isinstance(ia, RefV) and isinstance(ib, RefV):
                va, vb = I.read(st, ia.place), I.read(st, ib.place)
                if isinstance(va, IntV) and isinstance(vb, IntV):
                    r = I.binop(call.ctx, st, "Eq" if call.name == "eq" else "Ne", va, vb, inner_ty, call.site)
                    return [(st, r)]
    return None


def _negate(I, s, rv):
    rv = I.as_int(s, rv, BOOL, "eq")
    c = rv.cond if rv.cond is not None else ("cmp", "Ne", rv.aff, Aff.const(0))
    if holds(s, c, True):
        return boolv(False)
    if holds(s, c, False):
        return boolv(True)
    return IntV(Aff.const(1) - rv.aff, BOOL, cond=("not", c))


@model("core::hint::must_use")
def m_must_use(I, st, call):
    return [(st, call.args[0])]


@model("core::intrinsics::discriminant_value")
def m_discr_value(I, st, call):
    a = call.args[0]
    if isinstance(a, RefV):
        v = I.ensure(st, a.place, pointee(call.arg_tys[0]), "discr")
        if isinstance(v, EnumV):
            ds = [I.prog.discr_of_variant(v.path, vi) for vi in v.variants]
            ds = [d if d is not None else vi for d, vi in zip(ds, v.variants)]
            if len(ds) == 1:
                r = IntV(Aff.const(ds[0]), (64, True))
            else:
                r = I.fresh_int(st, "discr", (64, True), min(ds), max(ds))
            r.origin = ("discr", a.place, v.path)
            return [(st, r)]
    return None


import summaries2  # noqa: E402,F401  (registers the remaining models)
