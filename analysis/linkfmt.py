"""Per-iteration transducer rules for the link-format writer, scanners and
Unquote (C16.4-6).  The abstract interpreter runs the function with models for
the output sink (core::fmt::Write, always Ok: the round trip is about
documents that were written without an error) and for Chars::next that log
what was written / read in the state's ghost store.  The rules then compare,
per path through one loop iteration, what was emitted or consumed with what
RFC 6690 quoted-string needs, as a function of the character read."""
from harness import *
import summaries
import summaries2
from summaries import mk_ok, mk_none

QUOTE, ESC = 34, 92
NEXT = "<core::str::iter::Chars<'a> as core::iter::traits::iterator::Iterator>::next"


def _log(st, key, item):
    st.ghost[key] = tuple(st.ghost.get(key, ())) + (item,)


def instrument(I, value_arg=None):
    """install the logging models; value_arg: the SliceV of the string whose characters are the subject"""
    def m_write_char(I_, st, call):
        c = call.args[1] if len(call.args) > 1 else None
        if isinstance(c, IntV):
            k = c.aff.const_value() if hasattr(c.aff, "const_value") else None
            if k is None and not c.aff.t:
                k = c.aff.c
            _log(st, "w", ("const", k) if k is not None else ("char", c.aff))
        else:
            _log(st, "w", ("unknown",))
        return [(st, mk_ok(UNIT, call.dest_ty))]

    def m_write_str(I_, st, call):
        s = summaries2.as_slice(I_, st, call.args[1], call.arg_tys[1]) if len(call.args) > 1 else None
        _log(st, "w", ("str", s.base if s is not None else None))
        return [(st, mk_ok(UNIT, call.dest_ty))]

    def m_write_fmt(I_, st, call):
        _log(st, "w", ("fmt",))
        return [(st, mk_ok(UNIT, call.dest_ty))]

    orig_next = summaries.MODELS.get(NEXT) if hasattr(summaries, "MODELS") else None

    def m_next(I_, st, call):
        res = orig_next(I_, st, call)
        if res is None:
            return None
        for s, v in res:
            if isinstance(v, EnumV) and list(v.variants) == [1] and isinstance(v.variants[1], StructV):
                c = v.variants[1].fields[0]
                _log(s, "r", ("some", c.aff if isinstance(c, IntV) else None))
                s.ghost["w_iter"] = len(s.ghost.get("w", ()))
            elif isinstance(v, EnumV) and list(v.variants) == [0]:
                _log(s, "r", ("none",))
                s.ghost["w_iter"] = len(s.ghost.get("w", ()))
            else:
                _log(s, "r", ("unknown",))
        return res

    I.extra_models["core::fmt::Write::write_char"] = m_write_char
    I.extra_models["core::fmt::Write::write_str"] = m_write_str
    I.extra_models["core::fmt::Write::write_fmt"] = m_write_fmt
    if orig_next is not None:
        I.extra_models[NEXT] = m_next
    return orig_next is not None


def char_class(s, aff):
    """'quote' | 'esc' | 'other' | None (undetermined in this state)"""
    if aff is None:
        return None
    lo, hi = s.range(aff)
    if lo == hi == QUOTE:
        return "quote"
    if lo == hi == ESC:
        return "esc"
    if not s.may_equal_const(aff, QUOTE) and not s.may_equal_const(aff, ESC):
        return "other"
    return None


def _cells(s):
    return s.cells.get(("gh", "r0")), s.cells.get(("gh", "r1"))


def instrument2(I):
    """as instrument(), and keep the last two characters read alive in ghost cells"""
    ok = instrument(I)
    base_next = I.extra_models.get(NEXT)

    def m_next(I_, st, call):
        res = base_next(I_, st, call)
        if res is None:
            return None
        for s, v in res:
            prev = s.cells.get(("gh", "r0"))
            if prev is not None:
                s.cells[("gh", "r1")] = prev
            if isinstance(v, EnumV) and list(v.variants) == [1] and isinstance(v.variants[1], StructV):
                s.cells[("gh", "r0")] = v.variants[1].fields[0]
            else:
                s.cells[("gh", "r0")] = UNIT
        return res
    if ok:
        I.extra_models[NEXT] = m_next
    return ok


def norm_writes(ws):
    """merge constant characters / constant strings into text"""
    out = []
    for w in ws:
        t = None
        if w[0] == "const" and w[1] is not None:
            t = chr(w[1])
        elif w[0] == "str" and isinstance(w[1], tuple) and w[1] and w[1][0] == "const" and isinstance(w[1][1], str):
            t = w[1][1]
        if t is not None:
            if out and isinstance(out[-1], str):
                out[-1] += t
            else:
                out.append(t)
        else:
            out.append(w)
    return out


def suffix(log, headlog):
    log = tuple(log or ())
    headlog = tuple(headlog or ())
    if headlog and log[:len(headlog)] == headlog:
        return log[len(headlog):]
    return log


def check_writer(prog, rep, body, asep, site):
    """C16.4: attr_quoted emits  ;key="  then, per character c of the value, ESC c if c is a quote or
    a backslash and c alone otherwise, then the closing quote - and writes the value in no other way"""
    I = new_interp(prog)
    if not instrument2(I):
        rep.missing("C16.4", "model of Chars::next")
        return
    gargs = (("param", "T"),)
    st = State()
    subst = prog.body_subst(body, gargs)
    args = [I.mat(st, prog.ty(body["locals"][i + 1]["ty"], subst), "a%d" % i) for i in range(body["arg_count"])]
    # no earlier write failed
    me = args[0]
    okinit = False
    if isinstance(me, StructV) and isinstance(me.fields[0], TopV) and me.fields[0].ty is not None:
        me = StructV([I.mat(st, me.fields[0].ty, "lfw")] + list(me.fields[1:]))
        args[0] = me
    if isinstance(me, StructV) and isinstance(me.fields[0], RefV):
        lw = I.ensure(st, me.fields[0].place, me.fields[0].ty[2] if getattr(me.fields[0], "ty", None) else None, "lfw")
        if isinstance(lw, StructV):
            a = prog.adts.get("link_format::LinkFormatWrite")
            ei = [i for i, f in enumerate(a["variants"][0]["fields"]) if f["name"] == "error"] if a else []
            if ei:
                I.write(st, Place(me.fields[0].place.key, me.fields[0].place.proj + (("f", ei[0]),)), mk_none(None))
                okinit = True
    if not okinit:
        rep.missing("C16.4", "LinkFormatWrite.error behind LinkAttributeWrite.0")
        return
    key_s = summaries2.as_slice(I, st, args[1], prog.ty(body["locals"][2]["ty"], subst))
    val_s = summaries2.as_slice(I, st, args[2], prog.ty(body["locals"][3]["ty"], subst))
    pre, iters, bad = [], [0], []

    def chook(I_, s, call, cbody):
        if call.path == "core::str::<impl str>::chars" and call.ctx.body["id"] == body["id"]:
            sl = summaries2.as_slice(I_, s, call.args[0], call.arg_tys[0])
            if sl is not None and val_s is not None and sl.base == val_s.base:
                pre.append(tuple(s.ghost.get("w", ())))
    I.call_hooks.append(chook)

    def lhook(I_, ctx, h, head, backs, exits):
        if ctx.body["id"] != body["id"]:
            return
        for b_ in backs:
            iters[0] += 1
            reads = suffix(b_.ghost.get("r"), head.ghost.get("r"))
            ws = tuple(b_.ghost.get("w", ()))[b_.ghost.get("w_iter", 0):]
            c0, _ = _cells(b_)
            if len(reads) != 1 or reads[0][0] != "some" or not isinstance(c0, IntV):
                bad.append("an iteration of the value loop does not read exactly one character (reads: %d)" % len(reads))
                continue
            cls = char_class(b_, c0.aff)
            want = None
            if cls in ("quote", "esc"):
                want = [("const", ESC), ("char", c0.aff)]
            elif cls == "other":
                want = [("char", c0.aff)]
            if want is None:
                bad.append("one path through the value loop serves characters that need the escape and characters that do not")
            elif list(ws) != want:
                bad.append("for a character that is %s the loop writes %s" % (
                    {"quote": "a quote", "esc": "a backslash", "other": "neither quote nor backslash"}[cls],
                    [("ESC" if w == ("const", ESC) else "the character" if w == ("char", c0.aff) else norm(w)) for w in ws] or "nothing"))
    I.loop_hooks.append(lhook)
    I.no_join_bodies.add(body["id"])
    I.unroll_max_blocks = 0
    I, res = run(prog, body, args=args, st=st, I=I, gargs=gargs)
    rep.analysed.update(prog.bodies[b]["path"] for b in I.visited_bodies if b in prog.bodies)
    kb = key_s.base if key_s is not None else None
    want_pre = [chr(asep), ("str", kb), '="']
    okpre = bool(pre) and all(norm_writes(p) == want_pre for p in pre)
    rep.ob("C16.4", "writer|prefix", okpre,
           "attr_quoted does not write exactly  %s key =\"  before the value (writes %s)" % (chr(asep), [norm(norm_writes(p)) for p in pre][:2]), site)
    posts, raw = [], False
    for s, rv in res:
        w = tuple(s.ghost.get("w", ()))
        if val_s is not None and any(x[0] == "str" and x[1] == val_s.base for x in w):
            raw = True
        posts.append(norm_writes(w[s.ghost.get("w_iter", 0):]))
    for p in pre:
        if val_s is not None and any(x[0] == "str" and x[1] == val_s.base for x in p):
            raw = True
    rep.ob("C16.4", "writer|value-only-through-escape-loop", not raw and len(pre) >= 1 and all(
        ("r" in s.ghost or ("gh", "r0") in s.cells) for s, _ in res),
           "attr_quoted can write the value (or part of it) without passing each character through the escape step "
           "(a backslash or quote then reaches the output bare and the reader decodes something else)", site)
    rep.ob("C16.4", "writer|per-character", not bad and iters[0] >= 3,
           "attr_quoted: %s (paths through one iteration: %d)" % ("; ".join(sorted(set(bad))[:2]) or "the value loop was not found", iters[0]), site,
           sample={"rule": "C16.4", "iteration_paths": iters[0]})
    rep.ob("C16.4", "writer|suffix", bool(posts) and all(p == ['"'] for p in posts),
           "attr_quoted does not end the value with exactly one closing quote (writes after the last character: %s)" % posts[:2], site)
    for m in I.imprecise:
        rep.ob("C16.4", "imprecise|" + norm(m), False, "cannot establish: analysis bound hit: " + m)


def check_scanner(prog, rep, body, inner_heads, tag, site, self_setup=None):
    """C16.5: inside a quoted string the scanner consumes, per step, one character - and exactly one more,
    whatever it is, after a backslash; only a quote (or the end of input) ends the quoted string"""
    I = new_interp(prog)
    if not instrument2(I):
        rep.missing("C16.5", "model of Chars::next")
        return
    st = State()
    subst = prog.body_subst(body, ())
    args = [I.mat(st, prog.ty(body["locals"][i + 1]["ty"], subst), "a%d" % i) for i in range(body["arg_count"])]
    bad, n = [], [0, 0]

    def lhook(I_, ctx, h, head, backs, exits):
        if ctx.body["id"] != body["id"] or h not in inner_heads:
            return
        hr = head.ghost.get("r")
        for b_ in backs:
            n[0] += 1
            reads = suffix(b_.ghost.get("r"), hr)
            r0, r1 = _cells(b_)
            if not reads or reads[0][0] != "some":
                bad.append("the in-quote loop continues after the input ended")
                continue
            if len(reads) > 2:
                bad.append("one step inside quotes consumes %d characters" % len(reads))
                continue
            c0 = r0 if len(reads) == 1 else r1
            cls = char_class(b_, c0.aff) if isinstance(c0, IntV) else None
            if cls is None:
                bad.append("one path through the in-quote loop serves a backslash and other characters alike, "
                           "so the character after a backslash is not skipped unconditionally")
            elif cls == "quote":
                bad.append("an unescaped quote does not end the quoted string")
            elif cls == "esc" and len(reads) != 2:
                bad.append("after a backslash the next character is not always skipped (a backslash followed by "
                           "a backslash then lets the character after them count as escaped)")
            elif cls == "other" and len(reads) != 1:
                bad.append("a character that is not a backslash swallows the character after it")
        for _, e_ in exits:
            n[1] += 1
            reads = suffix(e_.ghost.get("r"), hr)
            r0, r1 = _cells(e_)
            if len(reads) != 1:
                bad.append("the in-quote loop is left after reading %d characters in one step" % len(reads))
                continue
            if reads[0][0] == "none":
                continue
            cls = char_class(e_, r0.aff) if isinstance(r0, IntV) else None
            if cls != "quote":
                bad.append("the quoted string is ended by a character that is not a quote")
    I.loop_hooks.append(lhook)
    I.no_join_bodies.add(body["id"])
    I.unroll_max_blocks = 0
    I, res = run(prog, body, args=args, st=st, I=I)
    rep.analysed.update(prog.bodies[b]["path"] for b in I.visited_bodies if b in prog.bodies)
    rep.ob("C16.5", "%s|in-quote-step" % tag, not bad and n[0] >= 2 and n[1] >= 2,
           "%s: %s (step paths: %d, exit paths: %d)" % (body["path"], "; ".join(sorted(set(bad))[:2]) or "the in-quote loop was not found", n[0], n[1]), site,
           sample={"rule": "C16.5", "scanner": tag, "step_paths": n[0], "exit_paths": n[1]})


def check_unquote(prog, rep, body, site):
    """C16.6: in the Quoted state Unquote::next yields c for a plain character, the following character
    verbatim after a backslash, and ends at a quote"""
    I = new_interp(prog)
    if not instrument2(I):
        rep.missing("C16.6", "model of Chars::next")
        return
    st = State()
    subst = prog.body_subst(body, ())
    args = [I.mat(st, prog.ty(body["locals"][1]["ty"], subst), "self")]
    me = I.ensure(st, args[0].place, None, "unquote") if isinstance(args[0], RefV) else None
    a = prog.adts.get("link_format::Unquote")
    sa = prog.adts.get("link_format::UnquoteState")
    si = [i for i, f in enumerate(a["variants"][0]["fields"]) if f["name"] == "state"] if a else []
    qv = [i for i, v in enumerate(sa["variants"]) if v["name"] == "Quoted"] if sa else []
    if not (isinstance(me, StructV) and si and qv):
        rep.missing("C16.6", "Unquote.state / UnquoteState::Quoted")
        return
    I.write(st, Place(args[0].place.key, args[0].place.proj + (("f", si[0]),)), EnumV("link_format::UnquoteState", {qv[0]: StructV([])}, None))
    I.no_join_bodies.add(body["id"])
    I, res = run(prog, body, args=args, st=st, I=I)
    rep.analysed.update(prog.bodies[b]["path"] for b in I.visited_bodies if b in prog.bodies)
    bad, n = [], 0
    for s, rv in res:
        n += 1
        reads = tuple(s.ghost.get("r", ()))
        r0, r1 = _cells(s)
        is_none = isinstance(rv, EnumV) and list(rv.variants) == [0]
        some = rv.variants[1].fields[0] if isinstance(rv, EnumV) and list(rv.variants) == [1] and isinstance(rv.variants[1], StructV) else None
        if not reads or len(reads) > 2:
            bad.append("one call reads %d characters" % len(reads))
            continue
        if reads[0][0] == "none":
            if not is_none:
                bad.append("yields a character after the input ended")
            continue
        c0 = r0 if len(reads) == 1 else r1
        cls = char_class(s, c0.aff) if isinstance(c0, IntV) else None
        if cls is None:
            bad.append("one path serves a backslash and other characters alike")
        elif cls == "quote":
            if not is_none or len(reads) != 1:
                bad.append("an unescaped quote does not end the value")
        elif cls == "other":
            if len(reads) != 1 or not (isinstance(some, IntV) and some.aff == c0.aff):
                bad.append("a plain character is not yielded as it is")
        elif cls == "esc":
            if len(reads) != 2:
                bad.append("a backslash is not followed by reading the escaped character")
            elif reads[1][0] == "none":
                if not is_none:
                    bad.append("a trailing backslash yields a character")
            elif not (isinstance(some, IntV) and isinstance(r0, IntV) and some.aff == r0.aff):
                bad.append("the character after a backslash is not yielded verbatim")
    rep.ob("C16.6", "unquote|quoted-step", not bad and n >= 4,
           "Unquote::next in the Quoted state: %s (paths: %d)" % ("; ".join(sorted(set(bad))[:2]) or "too few paths", n), site,
           sample={"rule": "C16.6", "paths": n})
