"""Per-iteration transducer rules for the link-format writer, scanners and
Unquote (C16.4-6).  The abstract interpreter runs the function with models for
the output sink (core::fmt::Write, always Ok: the round trip is about
documents that were written without an error) and for Chars::next that log
what was written / read in the state's ghost store.  The rules then compare,
per path through one loop iteration, what was emitted or consumed with what
RFC 6690 quoted-string needs, as a function of the character read."""
import os
from harness import *
import summaries
import summaries2
from summaries import mk_ok, mk_none

QUOTE, ESC = 34, 92
NEXT = "<core::str::iter::Chars<'a> as core::iter::traits::iterator::Iterator>::next"


def _log(st, key, item):
    st.ghost[key] = tuple(st.ghost.get(key, ())) + (item,)


def instrument(I, value_arg=None):
    """install the logging models; value_arg: the SliceV of the string whose characters are the subject"""
    def m_write_char(I_, st, call):
        c = call.args[1] if len(call.args) > 1 else None
        if isinstance(c, IntV):
            k = c.aff.const_value() if hasattr(c.aff, "const_value") else None
            if k is None and not c.aff.t:
                k = c.aff.c
            _log(st, "w", ("const", k) if k is not None else ("char", c.aff))
        else:
            _log(st, "w", ("unknown",))
        return [(st, mk_ok(UNIT, call.dest_ty))]

    def m_write_str(I_, st, call):
        s = summaries2.as_slice(I_, st, call.args[1], call.arg_tys[1]) if len(call.args) > 1 else None
        _log(st, "w", ("str", s.base if s is not None else None))
        return [(st, mk_ok(UNIT, call.dest_ty))]

    def m_write_fmt(I_, st, call):
        _log(st, "w", ("fmt",))
        return [(st, mk_ok(UNIT, call.dest_ty))]

    orig_next = summaries.MODELS.get(NEXT) if hasattr(summaries, "MODELS") else None

    def m_next(I_, st, call):
        res = orig_next(I_, st, call)
        if res is None:
            return None
        for s, v in res:
            if isinstance(v, EnumV) and list(v.variants) == [1] and isinstance(v.variants[1], StructV):
                c = v.variants[1].fields[0]
                _log(s, "r", ("some", c.aff if isinstance(c, IntV) else None))
                s.ghost["w_iter"] = len(s.ghost.get("w", ()))
            elif isinstance(v, EnumV) and list(v.variants) == [0]:
                _log(s, "r", ("none",))
                s.ghost["w_iter"] = len(s.ghost.get("w", ()))
            else:
                _log(s, "r", ("unknown",))
        return res

    I.extra_models["core::fmt::Write::write_char"] = m_write_char
    I.extra_models["core::fmt::Write::write_str"] = m_write_str
    I.extra_models["core::fmt::Write::write_fmt"] = m_write_fmt
    if orig_next is not None:
        I.extra_models[NEXT] = m_next
    return orig_next is not None


def char_class(s, aff):
    """'quote' | 'esc' | 'other' | None (undetermined in this state)"""
    if aff is None:
        return None
    lo, hi = s.range(aff)
    if lo == hi == QUOTE:
        return "quote"
    if lo == hi == ESC:
        return "esc"
    if not s.may_equal_const(aff, QUOTE) and not s.may_equal_const(aff, ESC):
        return "other"
    return None


def _cells(s):
    return s.cells.get(("gh", "r0")), s.cells.get(("gh", "r1"))


def instrument2(I):
    """as instrument(), and keep the last two characters read alive in ghost cells"""
    ok = instrument(I)
    base_next = I.extra_models.get(NEXT)

    def m_next(I_, st, call):
        res = base_next(I_, st, call)
        if res is None:
            return None
        for s, v in res:
            prev = s.cells.get(("gh", "r0"))
            prev1 = s.cells.get(("gh", "r1"))
            if prev1 is not None:
                s.cells[("gh", "r2")] = prev1
            if prev is not None:
                s.cells[("gh", "r1")] = prev
            if isinstance(v, EnumV) and list(v.variants) == [1] and isinstance(v.variants[1], StructV):
                s.cells[("gh", "r0")] = v.variants[1].fields[0]
            else:
                s.cells[("gh", "r0")] = UNIT
        return res
    if ok:
        I.extra_models[NEXT] = m_next
    return ok


def norm_writes(ws):
    """merge constant characters / constant strings into text"""
    out = []
    for w in ws:
        t = None
        if w[0] == "const" and w[1] is not None:
            t = chr(w[1])
        elif w[0] == "str" and isinstance(w[1], tuple) and w[1] and w[1][0] == "const" and isinstance(w[1][1], str):
            t = w[1][1]
        if t is not None:
            if out and isinstance(out[-1], str):
                out[-1] += t
            else:
                out.append(t)
        else:
            out.append(w)
    return out


def suffix(log, headlog):
    log = tuple(log or ())
    headlog = tuple(headlog or ())
    if headlog and log[:len(headlog)] == headlog:
        return log[len(headlog):]
    return log


def check_writer(prog, rep, body, asep, site):
    """C16.4: attr_quoted emits  ;key="  then, per character c of the value, ESC c if c is a quote or
    a backslash and c alone otherwise, then the closing quote - and writes the value in no other way"""
    I = new_interp(prog)
    if not instrument2(I):
        rep.missing("C16.4", "model of Chars::next")
        return
    gargs = (("param", "T"),)
    st = State()
    subst = prog.body_subst(body, gargs)
    args = [I.mat(st, prog.ty(body["locals"][i + 1]["ty"], subst), "a%d" % i) for i in range(body["arg_count"])]
    # no earlier write failed
    me = args[0]
    okinit = False
    if isinstance(me, StructV) and isinstance(me.fields[0], TopV) and me.fields[0].ty is not None:
        me = StructV([I.mat(st, me.fields[0].ty, "lfw")] + list(me.fields[1:]))
        args[0] = me
    if isinstance(me, StructV) and isinstance(me.fields[0], RefV):
        lw = I.ensure(st, me.fields[0].place, me.fields[0].ty[2] if getattr(me.fields[0], "ty", None) else None, "lfw")
        if isinstance(lw, StructV):
            a = prog.adts.get("link_format::LinkFormatWrite")
            ei = [i for i, f in enumerate(a["variants"][0]["fields"]) if f["name"] == "error"] if a else []
            if ei:
                I.write(st, Place(me.fields[0].place.key, me.fields[0].place.proj + (("f", ei[0]),)), mk_none(None))
                okinit = True
    if not okinit:
        rep.missing("C16.4", "LinkFormatWrite.error behind LinkAttributeWrite.0")
        return
    key_s = summaries2.as_slice(I, st, args[1], prog.ty(body["locals"][2]["ty"], subst))
    val_s = summaries2.as_slice(I, st, args[2], prog.ty(body["locals"][3]["ty"], subst))
    pre, iters, bad = [], [0], []

    def chook(I_, s, call, cbody):
        if call.path == "core::str::<impl str>::chars" and call.ctx.body["path"].startswith("link_format::"):
            sl = summaries2.as_slice(I_, s, call.args[0], call.arg_tys[0])
            if sl is not None and val_s is not None and sl.base == val_s.base:
                pre.append(tuple(s.ghost.get("w", ())))
    I.call_hooks.append(chook)

    def lhook(I_, ctx, h, head, backs, exits):
        if not ctx.body["path"].startswith("link_format::"):
            return
        for b_ in backs:
            iters[0] += 1
            reads = suffix(b_.ghost.get("r"), head.ghost.get("r"))
            ws = tuple(b_.ghost.get("w", ()))[b_.ghost.get("w_iter", 0):]
            c0, _ = _cells(b_)
            if len(reads) != 1 or reads[0][0] != "some" or not isinstance(c0, IntV):
                bad.append("an iteration of the value loop does not read exactly one character (reads: %d)" % len(reads))
                continue
            cls = char_class(b_, c0.aff)
            want = None
            if cls in ("quote", "esc"):
                want = [("const", ESC), ("char", c0.aff)]
            elif cls == "other":
                want = [("char", c0.aff)]
            if want is None:
                bad.append("one path through the value loop serves characters that need the escape and characters that do not")
            elif list(ws) != want:
                bad.append("for a character that is %s the loop writes %s" % (
                    {"quote": "a quote", "esc": "a backslash", "other": "neither quote nor backslash"}[cls],
                    [("ESC" if w == ("const", ESC) else "the character" if w == ("char", c0.aff) else norm(w)) for w in ws] or "nothing"))
    I.loop_hooks.append(lhook)
    I.no_join_bodies.add(body["id"])
    I.no_join_prefixes = ("link_format::",)
    I.unroll_max_blocks = 0
    I, res = run(prog, body, args=args, st=st, I=I, gargs=gargs)
    rep.analysed.update(prog.bodies[b]["path"] for b in I.visited_bodies if b in prog.bodies)
    kb = key_s.base if key_s is not None else None
    want_pre = [chr(asep), ("str", kb), '="']
    okpre = bool(pre) and all(norm_writes(p) == want_pre for p in pre)
    rep.ob("C16.4", "writer|prefix", okpre,
           "attr_quoted does not write exactly  %s key =\"  before the value (writes %s)" % (chr(asep), [norm(norm_writes(p)) for p in pre][:2]), site)
    posts, raw = [], False
    for s, rv in res:
        w = tuple(s.ghost.get("w", ()))
        if val_s is not None and any(x[0] == "str" and x[1] == val_s.base for x in w):
            raw = True
        posts.append(norm_writes(w[s.ghost.get("w_iter", 0):]))
    for p in pre:
        if val_s is not None and any(x[0] == "str" and x[1] == val_s.base for x in p):
            raw = True
    rep.ob("C16.4", "writer|value-only-through-escape-loop", not raw and len(pre) >= 1 and all(
        ("r" in s.ghost or ("gh", "r0") in s.cells) for s, _ in res),
           "attr_quoted can write the value (or part of it) without passing each character through the escape step "
           "(a backslash or quote then reaches the output bare and the reader decodes something else)", site)
    rep.ob("C16.4", "writer|per-character", not bad and iters[0] >= 3,
           "attr_quoted: %s (paths through one iteration: %d)" % ("; ".join(sorted(set(bad))[:2]) or "the value loop was not found", iters[0]), site,
           sample={"rule": "C16.4", "iteration_paths": iters[0]})
    rep.ob("C16.4", "writer|suffix", bool(posts) and all(p == ['"'] for p in posts),
           "attr_quoted does not end the value with exactly one closing quote (writes after the last character: %s)" % posts[:2], site)
    for m in I.imprecise:
        rep.ob("C16.4", "imprecise|" + norm(m), False, "cannot establish: analysis bound hit: " + m)


def check_scanner(prog, rep, body, inner_heads, tag, site, self_setup=None):
    """C16.5: inside a quoted string the scanner consumes, per step, one character - and exactly one more,
    whatever it is, after a backslash; only a quote (or the end of input) ends the quoted string"""
    I = new_interp(prog)
    if not instrument2(I):
        rep.missing("C16.5", "model of Chars::next")
        return
    st = State()
    subst = prog.body_subst(body, ())
    args = [I.mat(st, prog.ty(body["locals"][i + 1]["ty"], subst), "a%d" % i) for i in range(body["arg_count"])]
    bad, n = [], [0, 0]

    def lhook(I_, ctx, h, head, backs, exits):
        if (ctx.body["id"], h) not in inner_heads:
            return
        hr = head.ghost.get("r")
        for b_ in backs:
            n[0] += 1
            reads = suffix(b_.ghost.get("r"), hr)
            r0, r1 = _cells(b_)
            if not reads or reads[0][0] != "some":
                bad.append("the in-quote loop continues after the input ended")
                continue
            if len(reads) > 2:
                bad.append("one step inside quotes consumes %d characters" % len(reads))
                continue
            c0 = r0 if len(reads) == 1 else r1
            cls = char_class(b_, c0.aff) if isinstance(c0, IntV) else None
            if cls is None:
                bad.append("one path through the in-quote loop serves a backslash and other characters alike, "
                           "so the character after a backslash is not skipped unconditionally")
            elif cls == "quote":
                bad.append("an unescaped quote does not end the quoted string")
            elif cls == "esc" and len(reads) != 2:
                bad.append("after a backslash the next character is not always skipped (a backslash followed by "
                           "a backslash then lets the character after them count as escaped)")
            elif cls == "other" and len(reads) != 1:
                bad.append("a character that is not a backslash swallows the character after it")
        for _, e_ in exits:
            n[1] += 1
            reads = suffix(e_.ghost.get("r"), hr)
            r0, r1 = _cells(e_)
            if len(reads) != 1:
                bad.append("the in-quote loop is left after reading %d characters in one step" % len(reads))
                continue
            if reads[0][0] == "none":
                continue
            cls = char_class(e_, r0.aff) if isinstance(r0, IntV) else None
            if cls != "quote":
                bad.append("the quoted string is ended by a character that is not a quote")
    I.loop_hooks.append(lhook)
    # no character is passed over unscanned: every read happens at or before the furthest position the scanner
    # has read up to (the frontier), which starts at the beginning of the unparsed input.  An iterator made over
    # a later part of the input (found by a search that knows nothing about quotes) reads past the frontier.
    skips, nreads = [], [0]
    inner = None
    if args and isinstance(args[0], RefV):
        sty = prog.ty(body["locals"][1]["ty"], subst)
        me = I.ensure(st, args[0].place, sty[2] if sty[0] == "ref" else None, "self")
        fts = I.field_types(sty[2]) if sty[0] == "ref" else None
        if isinstance(me, StructV) and fts:
            inner = I.ensure(st, args[0].place.extend(("f", 0)), fts[0], "self.inner")
    if isinstance(inner, SliceV) and inner.base is not None:
        st.cells[("gh", "frontier")] = IntV(inner.off, (64, False))
        scan_next = I.extra_models[NEXT]

        def m_next_frontier(I_, st_, call):
            ref = call.args[0]
            it = I_.read(st_, ref.place) if isinstance(ref, RefV) else None
            fr = st_.cells.get(("gh", "frontier"))
            if I_.recording:
                nreads[0] += 1
                if not (isinstance(it, OpaqueV) and it.get("iter") == "chars" and it.get("base") == inner.base and isinstance(fr, IntV)):
                    skips.append("a character is read from an iterator that is not shown to run over the unparsed input")
                elif not st_.entails(fr.aff - it.get("pos")):
                    if os.environ.get("VERIF_DEBUG_C16"):
                        print("SKIP at", call.site, "frontier", fr.aff, "pos", it.get("pos"), list(st_.facts)[:20])
                    skips.append("a character is read beyond the furthest position scanned so far: the characters in between "
                                 "are never examined, so a separator found there may lie inside a quoted string")
            res = scan_next(I_, st_, call)
            for s2, v in res or ():
                it2 = I_.read(s2, ref.place) if isinstance(ref, RefV) else None
                if isinstance(it2, OpaqueV) and it2.get("iter") == "chars":
                    s2.cells[("gh", "frontier")] = IntV(it2.get("pos"), (64, False))
            return res
        I.extra_models[NEXT] = m_next_frontier
    else:
        skips.append("the unparsed input (field 0 of the scanner) was not found")
    I.no_join_bodies.add(body["id"])
    I.unroll_max_blocks = 0
    I, res = run(prog, body, args=args, st=st, I=I)
    rep.analysed.update(prog.bodies[b]["path"] for b in I.visited_bodies if b in prog.bodies)
    rep.ob("C16.5", "%s|scans-every-character" % tag, not skips and nreads[0] >= 3,
           "%s: %s (reads checked: %d)" % (body["path"], "; ".join(sorted(set(skips))[:2]) or "too few reads", nreads[0]), site,
           sample={"rule": "C16.5", "scanner": tag, "reads": nreads[0]})
    rep.ob("C16.5", "%s|in-quote-step" % tag, not bad and n[0] >= 2 and n[1] >= 2,
           "%s: %s (step paths: %d, exit paths: %d)" % (body["path"], "; ".join(sorted(set(bad))[:2]) or "the in-quote loop was not found", n[0], n[1]), site,
           sample={"rule": "C16.5", "scanner": tag, "step_paths": n[0], "exit_paths": n[1]})


def _quoted_step(s, reads, vals, rv):
    """one step of the quoted-string reader: `reads` (log entries) / `vals` (values, in reading order) are what
    the step consumed, rv what the call returned.  -> list of complaints"""
    is_none = isinstance(rv, EnumV) and list(rv.variants) == [0]
    some = rv.variants[1].fields[0] if isinstance(rv, EnumV) and list(rv.variants) == [1] and isinstance(rv.variants[1], StructV) else None
    if not reads or len(reads) > 2:
        return ["one quoted step reads %d characters" % len(reads)]
    if reads[0][0] == "none":
        return [] if is_none else ["yields a character after the input ended"]
    c0 = vals[0]
    cls = char_class(s, c0.aff) if isinstance(c0, IntV) else None
    if cls is None:
        return ["one path serves a quote or a backslash and other characters alike"]
    if cls == "quote":
        if not is_none or len(reads) != 1:
            return ["an unescaped quote does not end the value"]
    elif cls == "other":
        if len(reads) != 1 or not (isinstance(some, IntV) and some.aff == c0.aff):
            return ["a plain character is not yielded as it is"]
    elif cls == "esc":
        if len(reads) != 2:
            return ["a backslash is not followed by reading the escaped character"]
        if reads[1][0] == "none":
            if not is_none:
                return ["a trailing backslash yields a character"]
        elif not (isinstance(some, IntV) and isinstance(vals[1], IntV) and some.aff == vals[1].aff):
            return ["the character after a backslash is not yielded verbatim"]
    return []


def check_unquote(prog, rep, body, site):
    """C16.6: Unquote::next as a transducer over the characters read, per starting state.  Quoted: yields c
    for a plain character, the following character verbatim after a backslash, ends at a quote.  NotStarted:
    a leading quote is swallowed, the state becomes Quoted and the rest of the call is one Quoted step;
    any other first character is yielded as it is and the state becomes NotQuoted.  NotQuoted: every
    character is yielded as it is."""
    a = prog.adts.get("link_format::Unquote")
    sa = prog.adts.get("link_format::UnquoteState")
    si = [i for i, f in enumerate(a["variants"][0]["fields"]) if f["name"] == "state"] if a else []
    VI = {v["name"]: i for i, v in enumerate(sa["variants"])} if sa else {}
    if not (si and all(k in VI for k in ("NotStarted", "NotQuoted", "Quoted"))):
        rep.missing("C16.6", "Unquote.state / UnquoteState::{NotStarted, NotQuoted, Quoted}")
        return

    def run_from(start):
        I = new_interp(prog)
        if not instrument2(I):
            rep.missing("C16.6", "model of Chars::next")
            return None
        st = State()
        subst = prog.body_subst(body, ())
        args = [I.mat(st, prog.ty(body["locals"][1]["ty"], subst), "self")]
        me = I.ensure(st, args[0].place, None, "unquote") if isinstance(args[0], RefV) else None
        if not isinstance(me, StructV):
            rep.missing("C16.6", "Unquote value")
            return None
        splace = Place(args[0].place.key, args[0].place.proj + (("f", si[0]),))
        I.write(st, splace, EnumV("link_format::UnquoteState", {VI[start]: StructV([])}, None))
        I.no_join_bodies.add(body["id"])
        I, res = run(prog, body, args=args, st=st, I=I)
        rep.analysed.update(prog.bodies[b]["path"] for b in I.visited_bodies if b in prog.bodies)
        out = []
        for s, rv in res:
            reads = tuple(s.ghost.get("r", ()))
            cells = [s.cells.get(("gh", "r%d" % k)) for k in range(3)]
            vals = list(reversed(cells[:len(reads)])) if len(reads) <= 3 else None
            sv = I.read(s, splace)
            after = sorted(sv.variants) if isinstance(sv, EnumV) else None
            out.append((s, rv, reads, vals, after))
        return out

    # --- Quoted
    bad, n = [], 0
    for s, rv, reads, vals, after in run_from("Quoted") or ():
        n += 1
        if vals is None:
            bad.append("one call reads %d characters" % len(reads))
            continue
        bad += _quoted_step(s, reads, vals, rv)
    rep.ob("C16.6", "unquote|quoted-step", not bad and n >= 4,
           "Unquote::next in the Quoted state: %s (paths: %d)" % ("; ".join(sorted(set(bad))[:2]) or "too few paths", n), site,
           sample={"rule": "C16.6", "paths": n})
    # --- NotStarted
    bad, n = [], 0
    for s, rv, reads, vals, after in run_from("NotStarted") or ():
        n += 1
        is_none = isinstance(rv, EnumV) and list(rv.variants) == [0]
        some = rv.variants[1].fields[0] if isinstance(rv, EnumV) and list(rv.variants) == [1] and isinstance(rv.variants[1], StructV) else None
        if not reads or vals is None:
            bad.append("one call reads %d characters" % len(reads))
            continue
        if reads[0][0] == "none":
            if not is_none:
                bad.append("yields a character from an empty value")
            continue
        c0 = vals[0]
        if not isinstance(c0, IntV):
            bad.append("first character not tracked")
        elif s.range(c0.aff) == (QUOTE, QUOTE):
            if after != [VI["Quoted"]]:
                bad.append("after a leading quote the state is not Quoted")
            if len(reads) < 2:
                bad.append("the leading quote is handed out or ends the value instead of being swallowed")
            else:
                bad += ["after the leading quote: " + x for x in _quoted_step(s, reads[1:], vals[1:], rv)]
        elif not s.may_equal_const(c0.aff, QUOTE):
            if len(reads) != 1 or not (isinstance(some, IntV) and some.aff == c0.aff):
                bad.append("the first character of an unquoted value is not yielded as it is")
            if after != [VI["NotQuoted"]]:
                bad.append("after a first character other than a quote the state is not NotQuoted")
        else:
            bad.append("one path serves a leading quote and other first characters alike")
    rep.ob("C16.6", "unquote|first-step", not bad and n >= 5,
           "Unquote::next in the NotStarted state: %s (paths: %d)" % ("; ".join(sorted(set(bad))[:2]) or "too few paths", n), site,
           sample={"rule": "C16.6", "paths": n})
    # --- NotQuoted
    bad, n = [], 0
    for s, rv, reads, vals, after in run_from("NotQuoted") or ():
        n += 1
        is_none = isinstance(rv, EnumV) and list(rv.variants) == [0]
        some = rv.variants[1].fields[0] if isinstance(rv, EnumV) and list(rv.variants) == [1] and isinstance(rv.variants[1], StructV) else None
        if len(reads) != 1 or vals is None:
            bad.append("one call reads %d characters" % len(reads))
        elif reads[0][0] == "none":
            if not is_none:
                bad.append("yields a character after the input ended")
        elif not (isinstance(some, IntV) and isinstance(vals[0], IntV) and some.aff == vals[0].aff):
            bad.append("a character of an unquoted value is not yielded as it is")
        if after is not None and after != [VI["NotQuoted"]]:
            bad.append("the state leaves NotQuoted")
    rep.ob("C16.6", "unquote|unquoted-step", not bad and n >= 2,
           "Unquote::next in the NotQuoted state: %s (paths: %d)" % ("; ".join(sorted(set(bad))[:2]) or "too few paths", n), site,
           sample={"rule": "C16.6", "paths": n})


# ---------------------------------------------------------------------------------------------------------------
# Structure-agnostic writer rules (C16.2, C16.3 writer side, C16.7): the public writer methods are run with the
# logging sink; what counts is the sequence of writes per path, not which private helper performs them.

def closure_alnum_kind(prog, body):
    """'alnum' / 'not-alnum' for a closure char -> bool that returns (the negation of) is_ascii_alphanumeric(c)"""
    calls = [bb["term"] for bb in body["blocks"] if bb["term"]["k"] == "call" and not bb.get("cleanup")]
    if len(calls) != 1 or not (calls[0].get("resolved") or calls[0].get("callee") or {}).get("path", "").endswith("is_ascii_alphanumeric"):
        return None
    dest = calls[0]["dest"]["l"] if calls[0].get("dest") else None
    if dest == 0:
        return "alnum"
    for bb in body["blocks"]:
        for st_ in bb["stmts"]:
            if st_["k"] == "assign" and st_["place"]["l"] == 0 and not st_["place"]["p"]:
                rv = st_["rv"]
                if rv["k"] == "un" and rv["op"] == "Not" and rv.get("a", {}).get("place", {}).get("l") == dest:
                    return "not-alnum"
                if rv["k"] == "use" and isinstance(rv.get("op"), dict) and rv["op"].get("place", {}).get("l") == dest:
                    return "alnum"
    return None


def instrument_writer(I, prog):
    """sink + formatting models that keep what is written; verdict marks for 'every character is ASCII alphanumeric'"""
    instrument2(I)
    from summaries import boolv, mk_none, mk_option

    def m_new_display(I_, st, call):
        a = call.args[0]
        v = I_.read(st, a.place) if isinstance(a, RefV) else a
        return [(st, OpaqueV(call.dest_ty, (("display_of", v),)))]

    def m_arguments_new(I_, st, call):
        tmpl = call.arg_tys[0]
        n = None
        if tmpl and tmpl[0] == "ref" and tmpl[2][0] == "array":
            n = tmpl[2][2]
        arr = call.args[1]
        av = I_.read(st, arr.place) if isinstance(arr, RefV) else arr
        if isinstance(av, RefV):
            av = I_.read(st, av.place)
        elems = av.get("elems") if isinstance(av, OpaqueV) else None
        if elems is None and isinstance(arr, SliceV) and isinstance(arr.base, tuple) and arr.base[0] == "arr":
            av = I_.read(st, arr.base[1])
            elems = av.get("elems") if isinstance(av, OpaqueV) else None
        return [(st, OpaqueV(call.dest_ty, (("tmpl_len", n), ("fmt_elems", elems))))]

    def m_write_fmt(I_, st, call):
        a = call.args[1] if len(call.args) > 1 else None
        ent = ("fmt", None, None)
        if isinstance(a, OpaqueV):
            el = a.get("fmt_elems")
            shown = None
            if isinstance(el, StructV) and len(el.fields) == 1 and isinstance(el.fields[0], OpaqueV):
                shown = el.fields[0].get("display_of")
            what = None
            if isinstance(shown, IntV):
                what = ("int", shown.aff)
            elif isinstance(shown, SliceV):
                what = ("str", shown.base)
            elif isinstance(shown, RefV):
                inner = I_.read(st, shown.place)
                if isinstance(inner, SliceV):
                    what = ("str", inner.base)
                elif isinstance(inner, IntV):
                    what = ("int", inner.aff)
            ent = ("fmt", a.get("tmpl_len"), what)
        _log(st, "w", ent)
        from summaries import mk_ok
        return [(st, mk_ok(UNIT, call.dest_ty))]
    I.extra_models["core::fmt::rt::Argument::<'_>::new_display"] = m_new_display
    I.extra_models["core::fmt::Arguments::<'a>::new"] = m_arguments_new
    I.extra_models["core::fmt::Write::write_fmt"] = m_write_fmt

    def kind_of(call, idx):
        fty = call.arg_tys[idx] if len(call.arg_tys) > idx else None
        if fty is not None and fty[0] == "closure" and fty[1] in prog.bodies:
            return closure_alnum_kind(prog, prog.bodies[fty[1]])
        return None

    def m_find(I_, st, call):
        k = kind_of(call, 1)
        s_none, s_some = st, st.copy()
        if k == "not-alnum":
            s_none.ghost["all-alnum"] = True
        return [(s_none, mk_none(call.dest_ty)), (s_some, mk_option(I_, I_.fresh_int(s_some, "found", (64, False), 0, (1 << 63) - 1), call.dest_ty))]

    def m_all_any(I_, st, call):
        k = kind_of(call, 1)
        s_t, s_f = st, st.copy()
        if call.name == "all" and k == "alnum":
            s_t.ghost["all-alnum"] = True
        if call.name == "any" and k == "not-alnum":
            s_f.ghost["all-alnum"] = True
        return [(s_t, boolv(True)), (s_f, boolv(False))]
    I.extra_models["core::str::<impl str>::find"] = m_find
    I.extra_models["core::iter::traits::iterator::Iterator::all"] = m_all_any
    I.extra_models["core::iter::traits::iterator::Iterator::any"] = m_all_any
    I.extra_models["<core::str::iter::Chars<'a> as core::iter::traits::iterator::Iterator>::all"] = m_all_any
    I.extra_models["<core::str::iter::Chars<'a> as core::iter::traits::iterator::Iterator>::any"] = m_all_any
    # over the bytes of the text the verdict is the same one: no byte of a multi-byte character is ASCII
    I.extra_models["<core::str::iter::Bytes<'_> as core::iter::traits::iterator::Iterator>::all"] = m_all_any
    I.extra_models["<core::str::iter::Bytes<'_> as core::iter::traits::iterator::Iterator>::any"] = m_all_any


def run_writer_method(prog, body, is_attr_writer, flags=None):
    """-> (I, args, [(state, normalised write log)]) for a writer method run with no earlier failure"""
    I = new_interp(prog)
    instrument_writer(I, prog)
    gargs = (("param", "T"),)
    st = State()
    subst = prog.body_subst(body, gargs)
    args = [I.mat(st, prog.ty(body["locals"][i + 1]["ty"], subst), "a%d" % i) for i in range(body["arg_count"])]
    a = prog.adts.get("link_format::LinkFormatWrite")
    fi = {f["name"]: i for i, f in enumerate(a["variants"][0]["fields"])} if a else {}
    me = args[0]
    if is_attr_writer:
        if isinstance(me, StructV) and isinstance(me.fields[0], TopV) and me.fields[0].ty is not None:
            me = StructV([I.mat(st, me.fields[0].ty, "lfw")] + list(me.fields[1:]))
            args[0] = me
        lf_ref = me.fields[0] if isinstance(me, StructV) else None
    else:
        lf_ref = me
    if not isinstance(lf_ref, RefV) or "error" not in fi:
        return None
    lty = lf_ref.ty[2] if getattr(lf_ref, "ty", None) else None
    I.ensure(st, lf_ref.place, lty, "lfw")
    I.write(st, lf_ref.place.extend(("f", fi["error"])), mk_none(None))
    for name, val in (flags or {}).items():
        if name in fi:
            I.write(st, lf_ref.place.extend(("f", fi[name])), IntV(Aff.const(1 if val else 0), (1, False), cond=("const", bool(val))))
    I.no_join_bodies.add(body["id"])
    I.no_join_prefixes = ("link_format::",)
    I, res = run(prog, body, args=args, st=st, I=I, gargs=gargs)
    out = [(s, norm_writes(tuple(s.ghost.get("w", ())))) for s, _ in res]
    return I, args, out


def check_writer_methods(prog, rep, lsep, asep, site_of):
    WL = find_body(prog, "link_format::LinkFormatWrite::<'a, T>::link")
    WA = find_body(prog, "link_format::LinkAttributeWrite::<'_, '_, T>::attr")
    WU = find_body(prog, "link_format::LinkAttributeWrite::<'_, '_, T>::attr_u32")
    W16 = find_body(prog, "link_format::LinkAttributeWrite::<'_, '_, T>::attr_u16")
    if None in (WL, WA, WU, W16):
        rep.missing("C16.3", "link / attr / attr_u32 / attr_u16")
        return
    import summaries2
    # ---- link(): separator only between links, then <target>
    ok, seen = True, []
    for first in (True, False):
        for nl in (True, False):
            r = run_writer_method(prog, WL, False, {"is_first": first, "add_newlines": nl})
            if r is None:
                ok = False
                continue
            I, args, outs = r
            tgt = summaries2.as_slice(I, State(), args[1], None)
            tb = tgt.base if tgt is not None else None
            want = ([] if first else [chr(lsep) + ("\n\r" if nl else "")])
            for s, log in outs:
                flat = []
                for x in log:
                    if isinstance(x, str) and flat and isinstance(flat[-1], str):
                        flat[-1] += x
                    else:
                        flat.append(x)
                # expected: [sep] "<" TARGET ">"   (constant text merges with its neighbours)
                exp_a = [(want[0] if want else "") + "<", "T", ">"]
                got = ["T" if (isinstance(x, tuple) and ((x[0] == "fmt" and x[1] == 2 and x[2] == ("str", tb)) or (x[0] == "str" and x[1] == tb))) else x for x in flat]
                seen.append(got)
                if got != exp_a:
                    ok = False
    rep.ob("C16.3", "writer|link", ok,
           "link() does not write  [',' (+ newline)] '<' target '>'  - the separator exactly between links (writes seen: %s)" % [norm(x) for x in seen[:3]], site_of(WL),
           sample={"rule": "C16.3", "link_paths": len(seen)})
    # ---- attr_u32 / attr_u16: ;key= and the number through core's Display
    for body, nm in ((WU, "attr_u32"), (W16, "attr_u16")):
        r = run_writer_method(prog, body, True)
        okn, seen = r is not None, []
        if r is not None:
            I, args, outs = r
            ks = summaries2.as_slice(I, State(), args[1], None)
            kb = ks.base if ks is not None else None
            val = args[2]
            okn = bool(outs)
            for s, log in outs:
                seen.append(log)
                if not (len(log) == 4 and log[0] == chr(asep) and log[1] == ("str", kb) and log[2] == "="
                        and isinstance(log[3], tuple) and log[3][0] == "fmt" and log[3][1] == 2 and isinstance(val, IntV) and log[3][2] == ("int", val.aff)):
                    okn = False
        rep.ob("C16.7", "%s|display" % nm, okn,
               "%s does not write  ';' key '='  followed by the number itself through core's decimal Display ('{}') and nothing else "
               "(writes seen: %s); a hand-rolled conversion is not decided and is reported (fail closed)" % (nm, [norm(x) for x in seen[:2]]), site_of(body),
               sample={"rule": "C16.7", "method": nm, "paths": len(seen)})
    # ---- attr(): bare only after an all-alphanumeric verdict; otherwise the quoted form
    r = run_writer_method(prog, WA, True)
    okb, n_bare, n_quoted, seen = r is not None, 0, 0, []
    if r is not None:
        I, args, outs = r
        ks = summaries2.as_slice(I, State(), args[1], None)
        vs = summaries2.as_slice(I, State(), args[2], None)
        kb, vb = (ks.base if ks is not None else None), (vs.base if vs is not None else None)
        for s, log in outs:
            seen.append(log)
            if log == [chr(asep), ("str", kb), "=", ("str", vb)]:
                n_bare += 1
                if not s.ghost.get("all-alnum"):
                    okb = False
            elif (len(log) >= 3 and log[0] == chr(asep) and log[1] == ("str", kb) and isinstance(log[2], str) and log[2].startswith('="')) \
                    or (("gh", "r0") in s.cells and log and isinstance(log[-1], str) and log[-1].endswith('"')):
                # the quoted form (C16.4 decides its content; after its per-character loop only the closing quote is left in the log)
                n_quoted += 1
            else:
                okb = False
    rep.ob("C16.2", "bare-only-alnum", okb and n_bare >= 1 and n_quoted >= 1,
           "attr() writes a value bare on a path without the verdict 'every character is ASCII alphanumeric', or does not fall back to the "
           "quoted form otherwise (bare paths %d, quoted paths %d, writes seen: %s)" % (n_bare, n_quoted, [norm(x) for x in seen[:3]]), site_of(WA),
           sample={"rule": "C16.2", "bare_paths": n_bare, "quoted_paths": n_quoted})
