"""Every patch in /verif/refactors is a behaviour-preserving edit: after
applying it to a scratch copy all checks must stay silent (no false alarm)."""
import concurrent.futures as cf
import json, os, shutil, subprocess, sys, tempfile, time
HERE = os.path.dirname(os.path.abspath(__file__))
VERIF = os.path.dirname(HERE)
RF = os.path.join(VERIF, "refactors")


def one(name, tgt):
    work = tempfile.mkdtemp(prefix="rf-", dir=os.environ.get("VERIF_WORK") or tempfile.gettempdir())
    scratch = os.path.join(work, "repo")
    out = {"name": name}
    try:
        shutil.copytree("/repo", scratch, ignore=shutil.ignore_patterns("target", ".git"))
        p = subprocess.run(["patch", "-p1", "-s", "-i", os.path.join(RF, name + ".diff")], cwd=scratch, capture_output=True, text=True)
        if p.returncode != 0:
            out["applies"] = False
            return out
        out["applies"] = True
        fast = bool(os.environ.get("VERIF_RF_FAST"))
        if not fast:
            env = dict(os.environ, CARGO_TARGET_DIR=tgt, CARGO_NET_OFFLINE="true")
            t = subprocess.run(["cargo", "test", "--offline", "-q"], cwd=scratch, capture_output=True, text=True, env=env)
            out["tests_pass"] = t.returncode == 0
        else:
            out["tests_pass"] = PREV.get(name, {}).get("tests_pass")      # established when the rewrite was imported
        env = dict(os.environ, VERIF_EVIDENCE_DIR=os.path.join(work, "ev"), PYTHONHASHSEED="0")
        pids = ["all"]
        if fast:
            # only the properties whose rules can see the files the rewrite touches (a rule reads its anchor files and what
            # they call: packet / header / option_value are below everything)
            touched = set(l.split(" b/")[-1].strip() for l in open(os.path.join(RF, name + ".diff")) if l.startswith("diff --git"))
            sel = set()
            for f in touched:
                if f == "src/link_format.rs":
                    sel |= {"C16", "C17", "C18"}
                elif f == "src/observe.rs":
                    sel |= {"C14", "C15"}
                elif f.startswith("src/impl_coap_message"):
                    sel |= {"C19"}
                elif f.startswith("src/block_handler/"):
                    sel |= {"C08", "C09", "C10", "C11", "C12", "C13", "C20"}
                else:
                    sel = set("C%02d" % i for i in range(1, 21))
                    break
            pids = sorted(sel)
        rc, alarms, tail = 0, [], ""
        for pid in pids:
            r = subprocess.run([sys.executable, os.path.join(HERE, "check.py"), pid, "--repo", scratch], capture_output=True, text=True, env=env)
            rc = max(rc, r.returncode)
            alarms += [l[:300] for l in r.stdout.splitlines() if l.startswith("  rule ")]
            if r.returncode not in (0, 1):
                tail = (r.stdout + r.stderr)[-500:]
        out["rc"] = rc
        out["alarms"] = alarms
        out["checked"] = pids
        if tail:
            out["tail"] = tail
        return out
    finally:
        shutil.rmtree(work, ignore_errors=True)


PREV = {}


def main():
    names = [a for a in sys.argv[1:] if not a.startswith("--")]
    try:
        PREV.update(json.load(open(os.path.join(RF, "results.json")))["results"])
    except Exception:
        pass
    idx = json.load(open(os.path.join(RF, "index.json")))
    todo = [n for n in sorted(idx) if not names or n in names]
    jobs = int(os.environ.get("VERIF_JOBS", "8"))
    tg = [tempfile.mkdtemp(prefix="rf-tgt-") for _ in range(jobs)]
    res = {}
    t0 = time.time()
    try:
        with cf.ThreadPoolExecutor(max_workers=jobs) as ex:
            futs = {ex.submit(one, n, tg[i % jobs]): n for i, n in enumerate(todo)}
            for f in cf.as_completed(futs):
                r = f.result()
                res[r["name"]] = r
                print("%-28s %s tests=%s" % (r["name"], "SILENT" if r.get("rc") == 0 else "ALARM" if r.get("applies") else "SKIP", r.get("tests_pass")), flush=True)
                for a in r.get("alarms", [])[:4]:
                    print("      ", a)
                if "tail" in r:
                    print(r["tail"])
    finally:
        for d in tg:
            shutil.rmtree(d, ignore_errors=True)
    allres = dict(PREV)
    try:        # another (subset) run may have finished meanwhile
        allres.update(json.load(open(os.path.join(RF, "results.json")))["results"])
    except Exception:
        pass
    allres.update(res)
    json.dump({"results": allres}, open(os.path.join(RF, "results.json"), "w"), indent=1, sort_keys=True)
    print("silent on %d / %d (%.0fs)" % (sum(1 for r in res.values() if r.get("rc") == 0), len(res), time.time() - t0))


if __name__ == "__main__":
    main()
