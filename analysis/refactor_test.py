"""Every patch in /verif/refactors is a behaviour-preserving edit: after
applying it to a scratch copy all checks must stay silent (no false alarm)."""
import concurrent.futures as cf
import json, os, shutil, subprocess, sys, tempfile, time
HERE = os.path.dirname(os.path.abspath(__file__))
VERIF = os.path.dirname(HERE)
RF = os.path.join(VERIF, "refactors")


def one(name, tgt):
    work = tempfile.mkdtemp(prefix="rf-", dir=os.environ.get("VERIF_WORK") or tempfile.gettempdir())
    scratch = os.path.join(work, "repo")
    out = {"name": name}
    try:
        shutil.copytree("/repo", scratch, ignore=shutil.ignore_patterns("target", ".git"))
        p = subprocess.run(["patch", "-p1", "-s", "-i", os.path.join(RF, name + ".diff")], cwd=scratch, capture_output=True, text=True)
        if p.returncode != 0:
            out["applies"] = False
            return out
        out["applies"] = True
        env = dict(os.environ, CARGO_TARGET_DIR=tgt, CARGO_NET_OFFLINE="true")
        t = subprocess.run(["cargo", "test", "--offline", "-q"], cwd=scratch, capture_output=True, text=True, env=env)
        out["tests_pass"] = t.returncode == 0
        env = dict(os.environ, VERIF_EVIDENCE_DIR=os.path.join(work, "ev"), PYTHONHASHSEED="0")
        r = subprocess.run([sys.executable, os.path.join(HERE, "check.py"), "all", "--repo", scratch], capture_output=True, text=True, env=env)
        out["rc"] = r.returncode
        out["alarms"] = [l[:300] for l in r.stdout.splitlines() if l.startswith("  rule ")]
        if r.returncode not in (0, 1):
            out["tail"] = (r.stdout + r.stderr)[-500:]
        return out
    finally:
        shutil.rmtree(work, ignore_errors=True)


def main():
    names = [a for a in sys.argv[1:] if not a.startswith("--")]
    idx = json.load(open(os.path.join(RF, "index.json")))
    todo = [n for n in sorted(idx) if not names or n in names]
    jobs = int(os.environ.get("VERIF_JOBS", "8"))
    tg = [tempfile.mkdtemp(prefix="rf-tgt-") for _ in range(jobs)]
    res = {}
    t0 = time.time()
    try:
        with cf.ThreadPoolExecutor(max_workers=jobs) as ex:
            futs = {ex.submit(one, n, tg[i % jobs]): n for i, n in enumerate(todo)}
            for f in cf.as_completed(futs):
                r = f.result()
                res[r["name"]] = r
                print("%-28s %s tests=%s" % (r["name"], "SILENT" if r.get("rc") == 0 else "ALARM" if r.get("applies") else "SKIP", r.get("tests_pass")), flush=True)
                for a in r.get("alarms", [])[:4]:
                    print("      ", a)
                if "tail" in r:
                    print(r["tail"])
    finally:
        for d in tg:
            shutil.rmtree(d, ignore_errors=True)
    json.dump({"results": res}, open(os.path.join(RF, "results.json"), "w"), indent=1, sort_keys=True)
    print("silent on %d / %d (%.0fs)" % (sum(1 for r in res.values() if r.get("rc") == 0), len(res), time.time() - t0))


if __name__ == "__main__":
    main()
