"""BIT: bit provenance helpers on top of the interpreter's known-bits domain."""
from absdom import IntV, Aff


def resolve_bits(I, st, v, width=None, depth=0):
    """known bits of v (LSB first) with provenance chased through the
    intermediate symbols the interpreter introduced for bit operations.
    entries: 0, 1, None or ('b', symbol, bit index)"""
    if not isinstance(v, IntV):
        return None
    w = width or (v.ty[0] if v.ty else None)
    if w is None:
        return None
    bits = I.bits_of(st, v, w)
    out = []
    for b in bits:
        out.append(_chase(I, st, b, 0))
    return tuple(out)


def _chase(I, st, b, depth):
    if not isinstance(b, tuple) or depth > 8:
        return b
    _, s, i = b
    inf = I.syminfo.get(s)
    if inf is not None and inf[0] == "bits":
        bs = inf[1]
        if i < len(bs):
            return _chase(I, st, bs[i], depth + 1)
        return 0
    lo, hi = st.lo_hi(s)
    if lo >= 0 and hi < (1 << i):
        return 0
    return b


def field_of(bits, sym):
    """positions at which the bits of `sym` appear: dict out_pos -> src_bit"""
    return {i: b[2] for i, b in enumerate(bits) if isinstance(b, tuple) and b[1] == sym}


def sym_of(v):
    if isinstance(v, IntV):
        sg = v.aff.single()
        if sg is not None and sg[1] == 1 and sg[2] == 0:
            return sg[0]
    return None
