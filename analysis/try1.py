import sys, time
sys.setrecursionlimit(10000)
import facts, interp
from absdom import *
prog = facts.load(sys.argv[1])
I = interp.Interp(prog)
bid = [b for b in prog.bodies if b.endswith(sys.argv[2])]
print(bid)
t=time.time()
body = prog.bodies[bid[0]]
st = State()
args = [TopV(prog.ty(body["locals"][i+1]["ty"])) for i in range(body["arg_count"])]
res = I.run(bid[0], args, st)
print("results", len(res), "%.2fs"%(time.time()-t), I.stats)
for s, rv in res[:12]:
    print("  ret", rv)
bad = {}
good = 0
for e in I.events:
    if not e["ok"]:
        k=(e["kind"], e["site"]["fn"], e["site"]["line"], e["detail"])
        bad[k]=bad.get(k,0)+1
    else: good+=1
print("ok events", good)
for k,v in bad.items(): print("  FAIL", v, k)
print("unmodelled", I.unmodelled)
print("imprecise", I.imprecise)
