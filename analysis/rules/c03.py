"""C03 - the parser is total: no panic / overflow / out-of-bounds read, the
loop makes progress, no unsafe code on the decode path, and each must-reject
class of datagrams ends in Err."""
from harness import *
from absdom import Aff, holds

LEVEL = "other"
EXPLANATION = ("abstract interpretation of Packet::from_bytes (with every crate-local callee and closure analysed in "
               "context) over an unconstrained byte slice: every panic-capable MIR site (overflow / bounds / division "
               "asserts, panicking library calls, narrowing casts) is an obligation that must be discharged from the "
               "guards on all paths; loop progress; set of functions with unsafe operations; must-reject classes by "
               "re-analysis under an injected assumption")
ASSUMPTIONS = ["slice length <= isize::MAX (language invariant)",
               "allocation failure is out of scope"]
TRUSTED = ["Vec/slice/BTreeMap/LinkedList contracts as modelled"]

ENTRY = "packet::Packet::from_bytes"


def unsafe_fns(prog):
    out = {}
    for b in prog.bodies.values():
        if b.get("promoted"):
            continue
        n = 0
        for bb in b["blocks"]:
            t = bb["term"]
            if t["k"] == "call":
                c = t.get("callee") or {}
                if c.get("unsafe") and "exp" not in bb["tspan"]:
                    n += 1
        if n or b.get("unsafe_fn"):
            out[b["path"]] = n
    return out


def nibble(v):
    """(symbol, low bit) if v's known bits are exactly four consecutive bits of one symbol"""
    if not isinstance(v, IntV) or v.bits is None or len(v.bits) < 4:
        return None
    b = v.bits
    if not all(isinstance(x, tuple) for x in b[:4]):
        return None
    if any(x != 0 for x in b[4:]):
        return None
    s, lo = b[0][1], b[0][2]
    for i in range(4):
        if b[i][1] != s or b[i][2] != lo + i:
            return None
    return s, lo


def elem_info(I, sym):
    inf = I.syminfo.get(sym)
    if inf and inf[0] == "elem":
        return inf
    return None


class Injector:
    """adds an assumption at the point where the governing value is defined
    (recognised by provenance: a nibble of a byte read from the input)"""

    def __init__(self, cls):
        self.cls = cls
        self.count = 0

    def __call__(self, I, ctx, st, v):
        nb = nibble(v)
        if nb is None or st.dead:
            return
        sym, lo = nb
        inf = elem_info(I, sym)
        if inf is None:
            return
        off = inf[2]
        is_header = off.is_const() and off.c == 0
        c = self.cls
        key = ("inj", c)
        if c in ("tkl_gt8", "tkl_trunc") and is_header and lo == 0:
            if c == "tkl_gt8":
                st.add_fact(v.aff - 9)
            else:
                # 4 + tkl > len(buf), tkl <= 8
                st.add_fact(Aff.const(8) - v.aff)
                ln = self.buf_len(I, st)
                if ln is not None:
                    st.add_fact(v.aff + 4 - ln - 1)
            st.ghost[key] = True
            self.count += 1
        elif not is_header and c == "delta15" and lo == 4:
            st.add_eq(v.aff, Aff.const(15))
            st.add_ne(Aff.sym(sym), Aff.const(255))
            st.ghost[key] = True
            self.count += 1
        elif not is_header and c == "len15" and lo == 0:
            st.add_eq(v.aff, Aff.const(15))
            st.add_ne(Aff.sym(sym), Aff.const(255))
            st.ghost[key] = True
            self.count += 1
        elif not is_header and c in ("delta13_trunc", "delta14_trunc") and lo == 4:
            ln = self.buf_len(I, st)
            if ln is not None:
                if c == "delta13_trunc":
                    st.add_eq(v.aff, Aff.const(13))
                    st.add_eq(ln, off + 1)
                else:
                    st.add_eq(v.aff, Aff.const(14))
                    st.add_fact(off + 2 - ln)
                st.ghost[key] = True
                self.count += 1
        elif not is_header and c in ("len13_trunc", "len14_trunc") and lo == 0:
            ln = self.buf_len(I, st)
            if ln is not None:
                # the delta nibble is plain (<= 12) so the length extension follows directly
                hi_nib = I.fresh_int(st, "hi", (8, False), 0, 12)
                if c == "len13_trunc":
                    st.add_eq(v.aff, Aff.const(13))
                    st.add_eq(ln, off + 1)
                else:
                    st.add_eq(v.aff, Aff.const(14))
                    st.add_fact(off + 2 - ln)
                st.ghost[key] = True
                st.ghost[("plain_delta", sym)] = True
                self.count += 1

    def buf_len(self, I, st):
        for s in st.bounds:
            inf = I.syminfo.get(s)
            if inf and inf[0] == "len" and inf[1] == "buf":
                return Aff.sym(s)
        return None


def is_ok(rv):
    return isinstance(rv, EnumV) and 0 in rv.variants


CLASSES = ["short", "tkl_gt8", "tkl_trunc", "delta15", "len15", "delta13_trunc", "delta14_trunc"]


def check(env, rep, tier):
    configs = ["default"] if tier == "quick" else ["default", "nodefault", "udp"]
    rep.configs = configs
    for cfg in configs:
        prog = env.prog(cfg)
        body = find_body(prog, ENTRY)
        if body is None:
            rep.missing("C03.1", ENTRY)
            continue
        # ---- C03.1 obligations
        I = new_interp(prog)
        progress = []

        def loop_hook(I_, ctx, h, head, backs, exits):
            if ctx.body["path"] != ENTRY:
                return
            # some integer place strictly increases on every back edge and is bounded by len(buf)
            leaves = dict(I_.int_leaves(head, keys=[k for k in head.cells if k[0] == ctx.fid]))
            found = None
            for name, aff in leaves.items():
                if aff.is_const():
                    continue
                ok = bool(backs)
                for b in backs:
                    lb = dict(I_.int_leaves(b, keys=[name[0]]))
                    nv = lb.get(name)
                    if nv is None:
                        ok = False
                        break
                    # the phi of this loop denotes the previous value inside the back-edge state
                    if not b.entails(nv - aff - 1):
                        ok = False
                        break
                if not ok:
                    continue
                # bounded above by a length that does not change in the loop
                for nm2, a2 in leaves.items():
                    if nm2[-1] in (("slen",), ("len",)) and head.entails(a2 - aff):
                        found = (name, nm2)
                        break
                if found:
                    break
            progress.append((h, found is not None, found))
        I.loop_hooks.append(loop_hook)
        I, res = run(prog, body, I=I)
        obs = report_obligations(rep, "C03.1", I, include_cast=True)
        if cfg == "default":
            n_assert = sum(1 for o in obs if o["kind"].startswith("assert:"))
            rep.floor("C03.1", "decoder assert sites analysed", n_assert, 20)
        # ---- C03.3 progress
        if not progress:
            rep.missing("C03.3", "decoder loop")
        for h, ok, found in progress:
            rep.ob("C03.3", "%s|loop" % ENTRY, ok,
                   "cannot establish that the option loop of %s consumes input on every iteration (no cursor that strictly increases and stays <= len)" % ENTRY,
                   sample={"rule": "C03.3", "loop_head_bb": h, "cursor": repr(found)})
        # ---- C03.2 unsafe set
        uf = unsafe_fns(prog)
        reach = set(prog.bodies[b]["path"] for b in I.visited_bodies if b in prog.bodies)
        for fn in sorted(reach):
            rep.ob("C03.2", "unsafe|" + fn, fn not in uf,
                   "function %s on the decode path contains unsafe operations" % fn)
        # ---- C03.4 must-reject classes
        for cls in CLASSES:
            I2 = new_interp(prog)
            st = State()
            args = top_args(prog, body)
            inj = None
            if cls == "short":
                # materialise the slice and bound its length
                buf = I2.mat(st, prog.ty(body["locals"][1]["ty"]), "buf")
                st.add_fact(Aff.const(3) - buf.len)
                args = [buf]
            else:
                inj = Injector(cls)
                I2.value_hooks.append(inj)
            I2, res2 = run(prog, body, args=args, st=st, I=I2)
            bad = 0
            reached = 0
            for s, rv in res2:
                marked = cls == "short" or s.ghost.get(("inj", cls))
                if marked:
                    reached += 1
                    if is_ok(rv):
                        bad += 1
            if inj is not None and inj.count == 0:
                rep.ob("C03.4", "class|%s|anchor" % cls, False,
                       "cannot establish must-reject class %s: the governing value (a nibble of an input byte) was not recognised in %s" % (cls, ENTRY))
                continue
            rep.ob("C03.4", "class|%s" % cls, bad == 0,
                   "must-reject class '%s': a path returns Ok although the datagram is malformed" % cls,
                   sample={"rule": "C03.4", "class": cls, "paths_under_assumption": reached, "ok_paths": bad})
