"""C03 - the parser is total: no panic / overflow / out-of-bounds read, the
loop makes progress, no unsafe code on the decode path, and each must-reject
class of datagrams ends in Err."""
from harness import *
from absdom import Aff, holds

LEVEL = "other"
EXPLANATION = ("abstract interpretation of Packet::from_bytes (with every crate-local callee and closure analysed in "
               "context) over an unconstrained byte slice: every panic-capable MIR site (overflow / bounds / division "
               "asserts, panicking library calls, narrowing casts) is an obligation that must be discharged from the "
               "guards on all paths; loop progress; set of functions with unsafe operations; must-reject classes by "
               "re-analysis under an injected assumption")
ASSUMPTIONS = ["slice length <= isize::MAX (language invariant)",
               "allocation failure is out of scope"]
TRUSTED = ["Vec/slice/BTreeMap/LinkedList contracts as modelled"]

ENTRY = "packet::Packet::from_bytes"


def unsafe_fns(prog):
    out = {}
    for b in prog.bodies.values():
        if b.get("promoted"):
            continue
        n = 0
        for bb in b["blocks"]:
            t = bb["term"]
            if t["k"] == "call":
                c = t.get("callee") or {}
                if c.get("unsafe") and "exp" not in bb["tspan"]:
                    n += 1
        if n or b.get("unsafe_fn"):
            out[b["path"]] = n
    return out


def nibble(v):
    """(symbol, low bit) if v's known bits are exactly four consecutive bits of one symbol"""
    if not isinstance(v, IntV) or v.bits is None or len(v.bits) < 4:
        return None
    b = v.bits
    if not all(isinstance(x, tuple) for x in b[:4]):
        return None
    if any(x != 0 for x in b[4:]):
        return None
    s, lo = b[0][1], b[0][2]
    for i in range(4):
        if b[i][1] != s or b[i][2] != lo + i:
            return None
    return s, lo


def elem_info(I, sym):
    inf = I.syminfo.get(sym)
    if inf and inf[0] == "elem":
        return inf
    return None


class Injector:
    """adds an assumption at the point where the governing value is defined
    (recognised by provenance: a nibble of a byte read from the input)"""

    def __init__(self, cls):
        self.cls = cls
        self.count = 0

    def __call__(self, I, ctx, st, v):
        nb = nibble(v)
        if nb is None or st.dead:
            return
        sym, lo = nb
        inf = elem_info(I, sym)
        if inf is None:
            return
        off = inf[2]
        is_header = off.is_const() and off.c == 0
        c = self.cls
        key = ("inj", c)
        if c in ("tkl_gt8", "tkl_trunc") and is_header and lo == 0:
            if c == "tkl_gt8":
                st.add_fact(v.aff - 9)
            else:
                # 4 + tkl > len(buf), tkl <= 8
                st.add_fact(Aff.const(8) - v.aff)
                ln = self.buf_len(I, st)
                if ln is not None:
                    st.add_fact(v.aff + 4 - ln - 1)
            st.ghost[key] = True
            st.ghost[("saw", c)] = True     # not an 'inj' key: survives a join only if every joined path has it
            self.count += 1
        elif not is_header and c == "delta15" and lo == 4:
            st.add_eq(v.aff, Aff.const(15))
            st.add_ne(Aff.sym(sym), Aff.const(255))
            st.ghost[key] = True
            self.count += 1
        elif not is_header and c == "len15" and lo == 0:
            st.add_eq(v.aff, Aff.const(15))
            st.add_ne(Aff.sym(sym), Aff.const(255))
            st.ghost[key] = True
            self.count += 1
        elif not is_header and c in ("delta13_trunc", "delta14_trunc") and lo == 4:
            ln = self.buf_len(I, st)
            if ln is not None:
                if c == "delta13_trunc":
                    st.add_eq(v.aff, Aff.const(13))
                    st.add_eq(ln, off + 1)
                else:
                    st.add_eq(v.aff, Aff.const(14))
                    st.add_fact(off + 2 - ln)
                st.ghost[key] = True
                self.count += 1
        elif not is_header and c in ("len13_trunc", "len14_trunc") and lo == 0:
            ln = self.buf_len(I, st)
            if ln is not None:
                # the delta nibble is plain (<= 12) so the length extension follows directly
                hi_nib = I.fresh_int(st, "hi", (8, False), 0, 12)
                if c == "len13_trunc":
                    st.add_eq(v.aff, Aff.const(13))
                    st.add_eq(ln, off + 1)
                else:
                    st.add_eq(v.aff, Aff.const(14))
                    st.add_fact(off + 2 - ln)
                st.ghost[key] = True
                st.ghost[("plain_delta", sym)] = True
                self.count += 1

    def buf_len(self, I, st):
        for s in st.bounds:
            inf = I.syminfo.get(s)
            if inf and inf[0] == "len" and inf[1] == "buf":
                return Aff.sym(s)
        return None


def is_ok(rv):
    return isinstance(rv, EnumV) and 0 in rv.variants


CLASSES = ["short", "tkl_gt8", "tkl_trunc", "delta15", "len15", "delta13_trunc", "delta14_trunc"]


def nibble_syms(I, st):
    """[(symbol, low bit, is_header_byte)] for the nibble values present in a state"""
    out = []
    for sym in st.bounds:
        inf = I.syminfo.get(sym)
        if not inf or inf[0] != "bits":
            continue
        b = inf[1]
        if len(b) < 4 or not all(isinstance(x, tuple) for x in b[:4]) or any(x != 0 for x in b[4:]):
            continue
        src, lo = b[0][1], b[0][2]
        if any(b[i][1] != src or b[i][2] != lo + i for i in range(4)):
            continue
        ei = elem_info(I, src)
        if ei is None:
            continue
        out.append((sym, lo, ei[2].is_const() and ei[2].c == 0))
    return out


def justify(I, ctx, s_err, oks):
    """why may this edge reject?  -> reason string or None"""
    nibs = nibble_syms(I, s_err)
    cr = s_err.ghost.get(("inj", "callee-rejected"))
    if cr and ctx.body["path"] != cr:
        return "propagates the rejection decided in %s" % cr
    crf = s_err.ghost.get(("inj", "checked-read-failed"))
    if crf:
        return "a checked read (slice::get) of the input came back empty at %s: the bytes are not there" % crf
    for sname in s_err.bounds:
        inf = I.syminfo.get(sname)
        if inf and inf[0] == "len" and inf[1] == "buf" and s_err.lo_hi(sname)[1] <= 3:
            return "datagram shorter than four bytes"
    for sym, lo, hdr in nibs:
        l, h = s_err.lo_hi(sym)
        if hdr and lo == 0 and l >= 9:
            return "token length nibble >= 9"
        if not hdr and l == 15 and h == 15:
            return "reserved nibble 15"
    # the extension bytes a 13 / 14 nibble announces are not there (the state itself says so: the remaining
    # input is shorter - e.g. the failed length test of a slice pattern - whatever read would have followed)
    buf_len = None
    for sname in s_err.bounds:
        inf = I.syminfo.get(sname)
        if inf and inf[0] == "len" and inf[1] == "buf":
            buf_len = Aff.sym(sname)
    if buf_len is not None:
        def src_of(sym):
            b = I.syminfo[sym][1]
            return b[0][1]
        for sym, lo, hdr in nibs:
            if hdr:
                continue
            l, h = s_err.lo_hi(sym)
            if l != h or l not in (13, 14):
                continue
            off = elem_info(I, src_of(sym))[2]
            need = 1 if l == 13 else 2
            dexts = [0]
            if lo == 0:
                # a length nibble: its extension follows the delta extension of the same header byte
                sib = [x for x, lo2, _ in nibs if lo2 == 4 and src_of(x) == src_of(sym)]
                dexts = None
                if sib:
                    l2, h2 = s_err.lo_hi(sib[0])
                    dexts = [0] if h2 <= 12 else [1] if (l2, h2) == (13, 13) else [2] if (l2, h2) == (14, 14) else None
                if dexts is None:
                    continue
            if s_err.entails(off + dexts[0] + need - buf_len):
                return "the %d extension byte(s) announced by a %s nibble %d are missing from the input" % (need, "length" if lo == 0 else "delta", l)
    # cumulative option number beyond 65535
    import os
    if os.environ.get("VERIF_DEBUG_EDGE"):
        print("EDGE", ctx.body["path"], [(n, s_err.lo_hi(n[0])) for n in nibs], [f for f in s_err.facts if f.c < -60000], [(k, v) for k, v in s_err.bounds.items() if v[0] > 60000 and v[1] < 1 << 40])
    cands = list(s_err.facts)
    for sname, (l_, h_) in s_err.bounds.items():
        if 65536 - 300 <= l_ and h_ < (1 << 40) and l_ > 0:
            cands.append(Aff.sym(sname) - 65536)
        elif l_ >= 65536 - 300 - 269:
            pass
    for f in cands:
        if -65536 <= f.c <= -65536 + 300 and all(k > 0 for _, k in f.t):
            has_phi = any(sname.startswith("phi") for sname, _ in f.t)
            d14 = [n for n in nibs if not n[2] and n[1] == 4 and s_err.lo_hi(n[0]) == (14, 14)]
            l_unrefined = all(s_err.lo_hi(n[0]) != (14, 14) and s_err.lo_hi(n[0])[0] != s_err.lo_hi(n[0])[1] for n in nibs if not n[2] and n[1] == 0)
            if has_phi:
                return "cumulative option number > 65535"
            if d14 and l_unrefined:
                return "option delta alone > 65535"
    for tg in oks:
        evs = I.probe(ctx, tg, s_err.copy())
        for e in evs:
            if e.get("definite"):
                return "protects %s at %s:%s" % (e["kind"], e["site"]["file"], e["site"]["line"])
    return None


def check(env, rep, tier):
    include(rep, env, tier, "c02", ("C02.4", "C02.2"), "C03.6", "'accepts every well-formed datagram and returns exactly the fields that grammar defines': a datagram is accepted only after the option scan ran to the end of the input or to a payload marker, and every option number / value / token / payload is formed from the bytes section 3.1 prescribes")
    configs = ["default"] if tier == "quick" else ["default", "nodefault", "udp"]
    rep.configs = configs
    for cfg in configs:
        prog = env.prog(cfg)
        body = find_body(prog, ENTRY)
        if body is None:
            rep.missing("C03.1", ENTRY)
            continue
        # ---- C03.1 obligations
        I = new_interp(prog)
        progress = []

        def loop_hook(I_, ctx, h, head, backs, exits):
            if not ctx.body["path"].startswith("packet::"):
                return
            # some integer place strictly increases on every back edge and is bounded by len(buf)
            leaves = dict(I_.int_leaves(head, keys=[k for k in head.cells if k[0] == ctx.fid]))
            found = None
            for name, aff in leaves.items():
                if aff.is_const():
                    continue
                ok = bool(backs)
                for b in backs:
                    lb = dict(I_.int_leaves(b, keys=[name[0]]))
                    nv = lb.get(name)
                    if nv is None:
                        ok = False
                        break
                    # the phi of this loop denotes the previous value inside the back-edge state
                    if not b.entails(nv - aff - 1):
                        ok = False
                        break
                if not ok:
                    continue
                # bounded above by a length that does not change in the loop
                for nm2, a2 in leaves.items():
                    if nm2[-1] in (("slen",), ("len",)) and head.entails(a2 - aff):
                        found = (name, nm2)
                        break
                if found:
                    break
            if found is None:
                # the shrinking-slice spelling: the remaining input (a slice length, never negative) strictly decreases
                for name, aff in leaves.items():
                    if aff.is_const() or name[-1] != ("slen",) or not backs:
                        continue
                    if all(dict(I_.int_leaves(b, keys=[name[0]])).get(name) is not None
                           and b.entails(aff - dict(I_.int_leaves(b, keys=[name[0]]))[name] - 1) for b in backs):
                        found = (name, "remaining input shrinks")
                        break
            progress.append((h, found is not None, found))
        I.loop_hooks.append(loop_hook)
        edges = {}

        def edge_hook(I_, ctx, bi, tg, s_err, oks):
            key = (ctx.body["path"], bi, tg)
            why = justify(I_, ctx, s_err, oks)
            e = edges.setdefault(key, {"ok": True, "why": set(), "line": ctx.body["blocks"][bi]["tspan"]["l"], "file": ctx.body["blocks"][bi]["tspan"]["f"]})
            if why is None:
                e["ok"] = False
            else:
                e["why"].add(why)
        I.edge_hooks.append(edge_hook)

        # a rejection raised inside a crate function on the decode path is examined there (its own rejecting branches
        # go through justify()); the caller's `?` that merely hands it on is marked as a propagation
        def mark_err(I_, ctx, outs):
            for s_, rv_ in outs:
                if isinstance(rv_, EnumV) and rv_.path == "core::result::Result" and list(rv_.variants) == [1]:
                    s_.ghost[("inj", "callee-rejected")] = ctx.body["path"]
        for ob in prog.bodies.values():
            if ob.get("promoted") or ob["id"] == body["id"] or ob.get("kind") == "Closure":
                continue
            if prog.types[ob["locals"][0]["ty"]]["s"].startswith("core::result::Result<") and ob["id"] not in I.return_hooks:
                I.return_hooks[ob["id"]] = mark_err
        I, res = run(prog, body, I=I)
        obs = report_obligations(rep, "C03.1", I, include_cast=True)
        if cfg == "default":
            # panic-capable sites of any kind (compiler-inserted asserts, checked library calls such as
            # split_at / index): the number depends on the spelling, its being well above zero does not
            rep.floor("C03.1", "decoder panic-capable sites analysed", len(obs), 12)
        # ---- C03.3 progress
        if not progress:
            rep.missing("C03.3", "decoder loop")
        for h, ok, found in progress:
            rep.ob("C03.3", "%s|loop" % ENTRY, ok,
                   "cannot establish that the option loop of %s consumes input on every iteration (no cursor that strictly increases and stays <= len)" % ENTRY,
                   sample={"rule": "C03.3", "loop_head_bb": h, "cursor": repr(found)})
        # ---- C03.5 every rejecting branch is justified (no over-strict guard)
        n = {}
        for (fn, bi, tg), e in sorted(edges.items(), key=lambda x: (x[0][0], x[1]["line"])):
            k = n.get(fn, 0)
            n[fn] = k + 1
            rep.ob("C03.5", "%s|reject-edge|%d" % (fn, k), e["ok"],
                   "the rejecting branch at %s:%s in %s is taken for inputs that are not malformed: it is neither required by a read that follows "
                   "(forced continuation finds no certain failure) nor one of the RFC's reject conditions (token length > 8, nibble 15, option number > 65535)" % (e["file"], e["line"], fn),
                   {"file": e["file"], "line": e["line"], "fn": fn},
                   sample={"rule": "C03.5", "fn": fn, "line": e["line"], "justified_by": sorted(e["why"])})
        if cfg == "default":
            rep.floor("C03.5", "rejecting branches examined", len(edges), 4)
        # ---- C03.2 unsafe set
        uf = unsafe_fns(prog)
        reach = set(prog.bodies[b]["path"] for b in I.visited_bodies if b in prog.bodies)
        for fn in sorted(reach):
            rep.ob("C03.2", "unsafe|" + fn, fn not in uf,
                   "function %s on the decode path contains unsafe operations" % fn)
        # ---- C03.4 must-reject classes
        for cls in CLASSES:
            I2 = new_interp(prog)
            st = State()
            args = top_args(prog, body)
            inj = None
            if cls == "short":
                # materialise the slice and bound its length
                buf = I2.mat(st, prog.ty(body["locals"][1]["ty"]), "buf")
                st.add_fact(Aff.const(3) - buf.len)
                args = [buf]
            else:
                inj = Injector(cls)
                I2.value_hooks.append(inj)
            I2, res2 = run(prog, body, args=args, st=st, I=I2)
            bad = 0
            reached = 0
            blind = 0
            for s, rv in res2:
                marked = cls == "short" or s.ghost.get(("inj", cls))
                if marked:
                    reached += 1
                    if is_ok(rv):
                        bad += 1
                if cls in ("tkl_gt8", "tkl_trunc") and is_ok(rv) and not s.ghost.get(("saw", cls)):
                    blind += 1      # accepted without the token length ever having been looked at
            if cls in ("tkl_gt8", "tkl_trunc"):
                rep.ob("C03.4", "class|%s|examined" % cls, blind == 0,
                       "a datagram is accepted on %d path(s) on which the token length field was never examined: token lengths 9-15 and "
                       "truncated tokens are not rejected there" % blind)
            if inj is not None and inj.count == 0:
                rep.ob("C03.4", "class|%s|anchor" % cls, False,
                       "cannot establish must-reject class %s: the governing value (a nibble of an input byte) was not recognised in %s" % (cls, ENTRY))
                continue
            rep.ob("C03.4", "class|%s" % cls, bad == 0,
                   "must-reject class '%s': a path returns Ok although the datagram is malformed" % cls,
                   sample={"rule": "C03.4", "class": cls, "paths_under_assumption": reached, "ok_paths": bad})
