"""C10 - block-wise messages respect the budget and the client's block size:
structure of the negotiation."""
from harness import *
from absdom import Aff
import blockutil
from blockutil import Trace, HANDLER
from rules.c13 import BV, bv_invariant
from rules.c05 import REG

LEVEL = "other"
EXPLANATION = ("the negotiation function (found as the block_handler function calling core::cmp::min) is analysed with "
               "symbolic arguments: the bound is budget - ((message size + R) - payload size) computed with "
               "checked_sub and an error on underflow, R being the evaluated reserve constant; with a client block the "
               "size handed to BlockValue::new is min(client size(), bound), so never above the client's, and equals "
               "the client's when it is <= the bound; without one it is the bound itself and no block is produced "
               "iff payload < bound; R >= 2 x (option header + one extended-delta byte + maximal block value length) + "
               "payload marker, the value length being derived from the block number's type")
NOT_DECIDED = ("Not decided: the power-of-two rounding result and the end-to-end inequality 'encodes within the budget' "
               "for every budget (it follows from C10.1-3 and C13 only on paper).")
ASSUMPTIONS = ["the message size argument of the negotiation is the size of a message held in memory (<= isize::MAX) and includes its payload"]


def check(env, rep, tier):
    configs = ["default"] if tier == "quick" else ["default", "udp"]
    rep.configs = configs
    for cfg in configs:
        prog = env.prog(cfg)
        neg = blockutil.fns_calling(prog, "core::cmp::min")
        if len(neg) != 1:
            rep.missing("C10.1", "the (unique) block size negotiation function (found %d callers of min)" % len(neg))
            continue
        neg = neg[0]
        site = {"file": neg["span"]["f"], "line": neg["span"]["l"], "fn": neg["path"]}
        R = None
        for c in prog.consts.values():
            if c["path"].endswith("BLOCK_OPTIONS_MAX_LENGTH"):
                R = int(c["int"])
        rep.ob("C10.3", "reserve-const", R is not None, "BLOCK_OPTIONS_MAX_LENGTH not found")
        if R is None:
            continue
        # ---- C10.3 reserve covers two block options and the marker
        numt = prog.types[prog.adts[BV]["variants"][0]["fields"][blockutil.idx(prog, BV, "num")]["ty"]]
        w = (numt.get("bits", 16) + REG["block"]["num_shift"] + 7) // 8
        need = 2 * (1 + 1 + w) + 1
        rep.ob("C10.3", "reserve>=worst-case", R >= need,
               "the reserve of %d bytes is below the worst case the handler adds: 2 x (header byte + extended delta byte + %d value bytes) + payload marker = %d" % (R, w, need),
               sample={"rule": "C10.3", "reserve": R, "needed": need, "value_bytes": w})
        # ---- C10.1 / C10.2 / C10.4 by symbolic evaluation of the negotiation function
        for mode in ("client", "none"):
            I = new_interp(prog)
            I.type_invariants[BV] = bv_invariant
            I.no_join_bodies.add(neg["id"])
            gargs = (("param", "Endpoint"),)
            st = State()
            subst = prog.body_subst(neg, gargs)
            args = [I.mat(st, prog.ty(neg["locals"][i + 1]["ty"], subst), "a%d" % i) for i in range(neg["arg_count"])]
            tys = [prog.types[neg["locals"][i + 1]["ty"]]["s"] for i in range(neg["arg_count"])]
            oi = [i for i, t in enumerate(tys) if t.startswith("core::option::Option<&")]
            ui = [i for i, t in enumerate(tys) if t == "usize"]
            if len(oi) != 1 or len(ui) != 3:
                rep.missing("C10.1", "signature (Option<&BlockValue>, usize, usize, usize) of %s" % neg["path"])
                break
            ov = args[oi[0]]
            if mode == "client":
                args[oi[0]] = EnumV(ov.path, {1: ov.variants.get(1) or StructV([TopV(prog.ty(neg["locals"][oi[0] + 1]["ty"], subst)[2][0])])}, ov.ty)
            else:
                args[oi[0]] = EnumV(ov.path, {0: StructV([])}, ov.ty)
            msg, total, budget = (args[i] for i in ui)
            st.add_fact(msg.aff - total.aff)   # the message contains its payload
            st.add_fact(Aff.const((1 << 63) - 1) - msg.aff)   # it is the size of an encoded message in memory
            ev = {"sub": [], "min": [], "new": []}

            def hook(I_, s, call, cbody):
                if call.ctx.depth != 0:
                    return
                if call.path.endswith("::checked_sub"):
                    ev["sub"].append((call.args, s.copy()))
                elif call.path == "core::cmp::min":
                    ev["min"].append((call.args, s.copy()))
                    s.ghost["min_args"] = tuple(call.args)
                elif call.path == BV + "::new":
                    ev["new"].append((call.args, s.copy(), s.ghost.get("min_args")))
            I.call_hooks.append(hook)
            I, res = run(prog, neg, args=args, st=st, I=I, gargs=gargs)
            report_obligations(rep, "C10.1", I)
            bound = budget.aff - (msg.aff + R - total.aff)
            # the bound must reach the size decision: as an operand of min (client) or as the size itself (no client)
            oks = False
            for a, s, minargs in ev["new"]:
                cands = list(minargs or ()) + [a[2]]
                if any(isinstance(m, IntV) and m.aff == bound for m in cands):
                    oks = True
            rep.ob("C10.1", "bound|%s" % mode, oks,
                   "the block size bound used for the size decision is not budget - ((message size + %d) - payload size)" % R, site,
                   sample={"rule": "C10.1", "mode": mode, "checked_sub_calls": len(ev["sub"])})
            # underflow -> Err
            und = True
            for s, rv in res:
                if s.entails(-bound - 1) and not (isinstance(rv, EnumV) and list(rv.variants) == [1]):
                    und = False
            rep.ob("C10.1", "underflow=>err|%s" % mode, und, "a budget below the non-payload size does not produce an error", site)
            if mode == "client":
                okm = bool(ev["new"])
                for a, s, minargs in ev["new"]:
                    size = a[2]
                    if not (minargs and isinstance(size, IntV) and any(isinstance(m, IntV) and m.aff == size.aff for m in minargs)):
                        okm = False
                        continue
                    client = [m for m in minargs if isinstance(m, IntV) and m.origin is not None and m.origin[0] == "shl"]
                    other = [m for m in minargs if isinstance(m, IntV) and m.aff == bound]
                    if len(client) != 1 or len(other) != 1:
                        okm = False
                        continue
                    # never above the client's, and exactly the client's when it fits
                    if not s.entails(client[0].aff - size.aff):
                        okm = False
                    if s.entails(bound - client[0].aff) and not s.entails_eq(size.aff, client[0].aff):
                        okm = False
                rep.ob("C10.2", "min(client,bound)", okm,
                       "with a client Block option the negotiated size is not min(client size(), budget bound)", site,
                       sample={"rule": "C10.2", "new_calls": len(ev["new"])})
            else:
                okn = bool(ev["new"])
                for a, s, minargs in ev["new"]:
                    if not (isinstance(a[2], IntV) and a[2].aff == bound and s.entails(total.aff - bound)):
                        okn = False
                nofrag = [(s, rv) for s, rv in res if isinstance(rv, EnumV) and list(rv.variants) == [0] and isinstance(rv.variants[0].fields[0], EnumV) and list(rv.variants[0].fields[0].variants) == [0]]
                for s, rv in nofrag:
                    if not s.entails(bound - total.aff - 1):
                        okn = False
                rep.ob("C10.2", "no-client", okn and bool(nofrag),
                       "without a client Block option the reply is not fragmented exactly when payload >= bound, with block size = bound", site)
