"""C10 - block-wise messages respect the budget and the client's block size:
structure of the negotiation."""
from harness import *
from absdom import Aff
import blockutil
from blockutil import Trace, HANDLER
from rules.c13 import BV, bv_invariant
from rules.c05 import REG

import os
DOMAIN_ROOM = 28   # the property's domain: budget >= non-payload overhead + 28
LEVEL = "other"
EXPLANATION = ("the negotiation function (found as the block_handler function calling core::cmp::min) is analysed with "
               "symbolic arguments: the bound is budget - ((message size + R) - payload size) computed with "
               "checked_sub and an error on underflow, R being the evaluated reserve constant; with a client block the "
               "size handed to BlockValue::new is min(client size(), bound), so never above the client's, and equals "
               "the client's when it is <= the bound; without one it is the bound itself and no block is produced "
               "iff payload < bound; R >= 2 x (option header + one extended-delta byte + maximal block value length) + "
               "payload marker, the value length being derived from the block number's type.  C10.7: BlockValue::new is analysed with "
               "the first-match property of find (the index before the first match fails the predicate): every Ok result has "
               "16 <= size() <= requested size for requested >= 16.  C10.5: at both call sites the negotiation receives the measured "
               "size of the message at hand (to_bytes of that very message + its payload length), its payload length and the "
               "configured budget.  C10.6: the handlers are traced with BlockValue::new replaced by the C10.7 contract; on every "
               "answering path, under the stated domain budget >= overhead + 28, the outgoing payload (one block / unfragmented body) "
               "resp. the acknowledged upload block size + measured non-payload size + reserve <= budget is entailed")
NOT_DECIDED = ("Not decided: that the 12-byte reserve is also enough for what the *application* adds to the reply after "
               "interception (nothing, by the handler's contract); exact equality 'the client's size is used when it fits with 32 "
               "bytes to spare' beyond min(client, bound) + the rounding contract.")
ASSUMPTIONS = ["the message size argument of the negotiation is the size of a message held in memory (<= isize::MAX) and includes its payload (C10.5 checks the call sites)",
               "stated domain: budget >= non-payload overhead + 28; application replies carry no Block2 option of their own"]


def check(env, rep, tier):
    include(rep, env, tier, "c08", ("C08.4", "C08.7"), "C10.9",
            "'the message carrying the block fits the budget': the reply was measured before it is rebuilt from the cached copy, so that "
            "rebuild has to replace the options (not append to them) and put exactly one Block2 option on it; 'never larger than the size the client asked for': "
            "every request that carries a Block2 option leaves it remembered for the reply's fragmentation")
    include(rep, env, tier, "c13", ("C13.1", "C13.5"), "C10.8", "'the size the client asked for': the client's Block option reaches the negotiation through the Block decoder, which accepts every encodable value (a value that fails to decode is treated as absent)")
    configs = ["default"] if tier == "quick" else ["default", "udp"]
    rep.configs = configs
    for cfg in configs:
        prog = env.prog(cfg)
        neg = blockutil.find_negotiate(prog)
        if len(neg) != 1:
            rep.missing("C10.1", "the (unique) block size negotiation function (found %d functions with the signature (Option<&BlockValue>, usize, usize, usize))" % len(neg))
            continue
        neg = neg[0]
        site = {"file": neg["span"]["f"], "line": neg["span"]["l"], "fn": neg["path"]}
        R = None
        for c in prog.consts.values():
            if c["path"].endswith("BLOCK_OPTIONS_MAX_LENGTH"):
                R = int(c["int"])
        rep.ob("C10.3", "reserve-const", R is not None, "BLOCK_OPTIONS_MAX_LENGTH not found")
        if R is None:
            continue
        # ---- C10.3 reserve covers two block options and the marker
        numt = prog.types[prog.adts[BV]["variants"][0]["fields"][blockutil.idx(prog, BV, "num")]["ty"]]
        w = (numt.get("bits", 16) + REG["block"]["num_shift"] + 7) // 8
        need = 2 * (1 + 1 + w) + 1
        rep.ob("C10.3", "reserve>=worst-case", R >= need,
               "the reserve of %d bytes is below the worst case the handler adds: 2 x (header byte + extended delta byte + %d value bytes) + payload marker = %d" % (R, w, need),
               sample={"rule": "C10.3", "reserve": R, "needed": need, "value_bytes": w})
        check_rounding(prog, rep)
        forms = check_sites(prog, rep, R) or []
        # what the negotiation's first size argument means is read off its call sites: the measured size of the whole
        # message ("A": bound = budget - ((size + R) - payload)) or of the message without its payload ("B": budget - (size + R))
        form = "B" if forms and all(f == "B" for f in forms) else "A"
        # ---- C10.1 / C10.2 / C10.4 by symbolic evaluation of the negotiation function
        for mode in ("client", "none"):
            I = new_interp(prog)
            I.type_invariants[BV] = bv_invariant
            I.no_join_bodies.add(neg["id"])
            gargs = (("param", "Endpoint"),)
            st = State()
            subst = prog.body_subst(neg, gargs)
            args = [I.mat(st, prog.ty(neg["locals"][i + 1]["ty"], subst), "a%d" % i) for i in range(neg["arg_count"])]
            tys = [prog.types[neg["locals"][i + 1]["ty"]]["s"] for i in range(neg["arg_count"])]
            oi = [i for i, t in enumerate(tys) if t.startswith("core::option::Option<&")]
            ui = [i for i, t in enumerate(tys) if t == "usize"]
            if len(oi) != 1 or len(ui) != 3:
                rep.missing("C10.1", "signature (Option<&BlockValue>, usize, usize, usize) of %s" % neg["path"])
                break
            ov = args[oi[0]]
            if mode == "client":
                args[oi[0]] = EnumV(ov.path, {1: ov.variants.get(1) or StructV([TopV(prog.ty(neg["locals"][oi[0] + 1]["ty"], subst)[2][0])])}, ov.ty)
            else:
                args[oi[0]] = EnumV(ov.path, {0: StructV([])}, ov.ty)
            msg, total, budget = (args[i] for i in ui)
            if form == "A":
                st.add_fact(msg.aff - total.aff)   # the message contains its payload
            st.add_fact(Aff.const((1 << 63) - 1) - msg.aff)   # it is the size of an encoded message in memory
            ev = {"sub": [], "min": [], "new": []}

            def hook(I_, s, call, cbody):
                if not call.ctx.body["path"].startswith("block_handler::"):
                    return      # (the decision may sit in a private helper of the negotiation)
                if call.path.endswith("::checked_sub"):
                    ev["sub"].append((call.args, s.copy()))
                elif call.path in ("core::cmp::min", "core::cmp::Ord::min"):
                    ev["min"].append((call.args, s.copy()))
                    s.ghost["min_args"] = tuple(call.args)
                elif call.path == BV + "::new":
                    ev["new"].append((call.args, s.copy(), s.ghost.get("min_args")))
            I.call_hooks.append(hook)
            I, res = run(prog, neg, args=args, st=st, I=I, gargs=gargs)
            report_obligations(rep, "C10.1", I)
            bound = budget.aff - (msg.aff + R - total.aff) if form == "A" else budget.aff - (msg.aff + R)
            # the bound must reach the size decision: as an operand of min (client) or as the size itself (no client)
            oks = False
            for a, s, minargs in ev["new"]:
                cands = list(minargs or ()) + [a[2]]
                if any(isinstance(m, IntV) and m.aff == bound for m in cands):
                    oks = True
            rep.ob("C10.1", "bound|%s" % mode, oks,
                   "the block size bound used for the size decision is not budget - %s" % ("((message size + %d) - payload size)" % R if form == "A" else "(non-payload size + %d)" % R), site,
                   sample={"rule": "C10.1", "mode": mode, "checked_sub_calls": len(ev["sub"])})
            # underflow -> Err
            und = True
            for s, rv in res:
                if s.entails(-bound - 1) and not (isinstance(rv, EnumV) and list(rv.variants) == [1]):
                    und = False
            rep.ob("C10.1", "underflow=>err|%s" % mode, und, "a budget below the non-payload size does not produce an error", site)
            if mode == "client":
                okm = bool(ev["new"])
                for a, s, minargs in ev["new"]:
                    size = a[2]
                    if not (minargs and isinstance(size, IntV) and any(isinstance(m, IntV) and m.aff == size.aff for m in minargs)):
                        okm = False
                        continue
                    client = [m for m in minargs if isinstance(m, IntV) and m.origin is not None and m.origin[0] == "shl"]
                    other = [m for m in minargs if isinstance(m, IntV) and m.aff == bound]
                    if len(client) != 1 or len(other) != 1:
                        okm = False
                        continue
                    # never above the client's, and exactly the client's when it fits
                    if not s.entails(client[0].aff - size.aff):
                        okm = False
                    if s.entails(bound - client[0].aff) and not s.entails_eq(size.aff, client[0].aff):
                        okm = False
                rep.ob("C10.2", "min(client,bound)", okm,
                       "with a client Block option the negotiated size is not min(client size(), budget bound)", site,
                       sample={"rule": "C10.2", "new_calls": len(ev["new"])})
            else:
                okn = bool(ev["new"])
                for a, s, minargs in ev["new"]:
                    if not (isinstance(a[2], IntV) and a[2].aff == bound and s.entails(total.aff - bound)):
                        okn = False
                nofrag = [(s, rv) for s, rv in res if isinstance(rv, EnumV) and list(rv.variants) == [0] and isinstance(rv.variants[0].fields[0], EnumV) and list(rv.variants[0].fields[0].variants) == [0]]
                for s, rv in nofrag:
                    if not s.entails(bound - total.aff - 1):
                        okn = False
                rep.ob("C10.2", "no-client", okn and bool(nofrag),
                       "without a client Block option the reply is not fragmented exactly when payload >= bound, with block size = bound", site)


def _bv_size(I, prog, s, bv):
    """value of BlockValue::size() for a tracked BlockValue, computed in state s (returns (state, IntV) or None)"""
    size_b = find_body(prog, BV + "::size")
    if size_b is None or not isinstance(bv, StructV):
        return None
    I.nsym += 1
    key = ("h", "bvtmp*%d" % I.nsym)
    s.cells[key] = bv
    saved = I.recording
    I.recording = False
    try:
        r2 = I.exec_body(size_b, (), [RefV(Place(key), False)], s, None, "size")
    finally:
        I.recording = saved
    if len(r2) != 1 or not isinstance(r2[0][1], IntV):
        return None
    r2[0][0].cells.pop(key, None)
    return r2[0]


def check_rounding(prog, rep):
    """C10.7: BlockValue::new(_, _, size) with size >= 16 yields a value whose size() is a power of two with
    16 <= size() <= size (uses the first-match property of `find`: the index before the first match fails the predicate)"""
    new = find_body(prog, BV + "::new")
    if new is None:
        rep.missing("C10.7", BV + "::new")
        return
    I = new_interp(prog)
    I.no_join_bodies.add(new["id"])
    I.no_join_prefixes = ("block_handler::block_value",)
    st = State()
    args = [I.mat(st, prog.ty(new["locals"][i + 1]["ty"]), "a%d" % i) for i in range(new["arg_count"])]
    sizes = [i for i in range(new["arg_count"]) if prog.types[new["locals"][i + 1]["ty"]]["s"] == "usize"]
    if len(sizes) != 2:
        rep.missing("C10.7", "signature (usize, bool, usize) of BlockValue::new")
        return
    req = args[sizes[1]]
    st.add_fact(req.aff - 16)
    I, res = run(prog, new, args=args, st=st, I=I)
    n_ok, bad = 0, []
    for s, rv in res:
        if not (isinstance(rv, EnumV) and 0 in rv.variants):
            continue
        r = _bv_size(I, prog, s, rv.variants[0].fields[0])
        if r is None:
            bad.append("size of the constructed value not tracked")
            continue
        n_ok += 1
        s2, sz = r
        pow2 = sz.aff.is_const() and sz.aff.c & (sz.aff.c - 1) == 0 or (sz.aff.single() and (I.syminfo.get(sz.aff.single()[0]) or ("",))[0] in ("shl", "pure"))
        if not s2.entails(req.aff - sz.aff):
            bad.append("size() can exceed the requested size")
        if not s2.entails(sz.aff - 16):
            bad.append("size() can be below 16")
    site = {"file": new["span"]["f"], "line": new["span"]["l"], "fn": new["path"]}
    rep.ob("C10.7", "rounding", not bad and n_ok >= 1,
           "BlockValue::new: %s (success paths: %d)" % ("; ".join(sorted(set(bad))) or "no success path", n_ok), site,
           sample={"rule": "C10.7", "success_paths": n_ok})


def check_sites(prog, rep, R):
    """C10.5 / C10.6: at both call sites the negotiation is fed the measured size of the message at hand, its payload
    length and the configured budget; and on every path that answers, block size (or unfragmented payload) +
    measured non-payload size + reserve <= budget"""
    import blockutil
    from blockutil import Trace
    negs = blockutil.find_negotiate(prog)
    if len(negs) != 1:
        return
    neg = negs[0]
    tys = [prog.types[neg["locals"][i + 1]["ty"]]["s"] for i in range(neg["arg_count"])]
    ui = [i for i, t in enumerate(tys) if t == "usize"]
    if len(ui) != 3:
        return
    new_b = find_body(prog, BV + "::new")
    forms = []
    I_cur = [None]

    def size_form(msg, encs, p0):
        # only sizes measured with the payload taken out count (see blockutil.model_to_bytes)
        encs = [e for e in encs if len(I_cur[0].syminfo.get(e, ())) > 3 and I_cur[0].syminfo[e][3] == "bare"]
        if isinstance(msg, IntV) and isinstance(p0, VecV):
            if any(msg.aff == Aff.sym(e) + p0.len for e in encs):
                return "A"
            if any(msg.aff == Aff.sym(e) for e in encs):
                return "B"
        return None

    i_num, i_more, i_szx = (blockutil.idx(prog, BV, n) for n in ("num", "more", "size_exponent"))
    nargs = [i for i in range(new_b["arg_count"]) if prog.types[new_b["locals"][i + 1]["ty"]]["s"] == "usize"] if new_b is not None else []

    def setup_common(tr, I, st):
        # BlockValue::new is replaced by its contract, which C10.7 establishes on the real body:
        # Ok(v) with v.num = num <= 65535, v.more = more, v.size_exponent <= 7 and 16 <= v.size() (<= size when size >= 16)
        def m_new(I_, s_, call):
            from summaries import mk_ok, mk_err
            if len(nargs) != 2 or None in (i_num, i_more, i_szx):
                return None
            num, size = call.args[nargs[0]], call.args[nargs[1]]
            more = [a for k, a in enumerate(call.args) if k not in nargs][0]
            if not (isinstance(num, IntV) and isinstance(size, IntV)):
                return None
            out = []
            e_ = s_.copy()
            out.append((e_, mk_err(I_.mat(e_, call.dest_ty[2][1] if call.dest_ty and len(call.dest_ty[2]) > 1 else None, "err"), call.dest_ty)))
            for big in (True, False):
                s2 = s_.copy()
                if big:
                    s2.add_fact(size.aff - 16)
                else:
                    s2.add_fact(Aff.const(15) - size.aff)
                s2.add_fact(Aff.const(65535) - num.aff)
                if s2.dead:
                    continue
                szx = I_.fresh_int(s2, "szx", (8, False), 0, 7)
                fields = [None, None, None]
                fields[i_num] = IntV(num.aff, (16, False))
                fields[i_more] = more
                fields[i_szx] = szx
                bv = StructV(fields)
                r = _bv_size(I_, prog, s2, bv)
                if r is None:
                    return None
                s3, sz = r
                s3.add_fact(sz.aff - 16)
                if big:
                    s3.add_fact(size.aff - sz.aff)
                else:
                    s3.add_eq(sz.aff, Aff.const(16))
                if s3.dead:
                    continue
                s3.cells[("gh", "bvsize")] = sz
                s3.cells[("gh", "bvszx")] = szx
                out.append((s3, mk_ok(bv, call.dest_ty)))
            return out
        if new_b is not None:
            I.extra_models[new_b["path"]] = m_new

    def enc_of(I, s, place):
        for x in s.bounds:
            inf = I.syminfo.get(x, ("",))
            if inf[0] == "len" and len(inf) > 2 and inf[1] == "encoded" and inf[2] == place:
                yield x

    # ------------------------------------------------ Block2: intercept_response
    def setup2(tr, I, st):
        setup_common(tr, I, st)

        def m_get_option(I_, s_, call):
            # stated domain: application replies do not carry a Block2 option of their own
            a = call.args[0]
            o = call.args[1]
            if isinstance(a, RefV) and a.place == tr.resp_msg and isinstance(o, EnumV) and len(o.variants) == 1 \
                    and prog.adts["packet::CoapOption"]["variants"][next(iter(o.variants))]["name"] == "Block2":
                from summaries import mk_none
                return [(s_, mk_none(call.dest_ty))]
            return None
        I.extra_models["packet::Packet::get_option"] = m_get_option
    tr = Trace(prog, "intercept_response", setup=setup2)
    if not tr.ok:
        rep.missing("C10.5", "BlockHandler::intercept_response")
    else:
        I = tr.I
        I_cur[0] = I
        site = {"file": tr.body["span"]["f"], "line": tr.body["span"]["l"], "fn": tr.body["path"]}
        hi = blockutil.idx(prog, "block_handler::BlockHandler", "config")
        ci = blockutil.idx(prog, "block_handler::BlockHandlerConfig", "max_total_message_size")
        cfg_place = tr.args[0].place.extend(("f", hi), ("f", ci)) if isinstance(tr.args[0], RefV) and hi is not None and ci is not None else None
        negs_ev = [e for e in tr.events if e[0] == "negotiate"]
        ok = bool(negs_ev) and cfg_place is not None
        for _, a, s, sitec in negs_ev:
            msg, pay, bud = (a[i] for i in ui)
            p0 = tr.resp_payload0
            encs = list(enc_of(I, s, tr.resp_msg))
            cfgv = I.read(s, cfg_place) if cfg_place is not None else None
            good = isinstance(pay, IntV) and isinstance(p0, VecV) and pay.aff == p0.len
            fm = size_form(msg, encs, p0)
            forms.append(fm)
            good = good and fm is not None
            good = good and isinstance(bud, IntV) and isinstance(cfgv, IntV) and bud.aff == cfgv.aff
            ok = ok and good
        rep.ob("C10.5", "site|response", ok,
               "intercept_response does not negotiate with (measured size of this response, its payload length, config.max_total_message_size)", site,
               sample={"rule": "C10.5", "site": "response", "negotiate_calls": len(negs_ev)})
        n, bad = 0, 0
        for s, rv in tr.res:
            ret = tr.ret_kind(rv)
            if "err" in ret:
                continue
            n += 1
            pl = I.read(s, tr.resp_msg.extend(("f", tr.P["payload"])))
            cfgv = I.read(s, cfg_place) if cfg_place is not None else None
            encs = list(enc_of(I, s, tr.resp_msg))
            fits = isinstance(pl, VecV) and isinstance(cfgv, IntV) and bool(encs)
            if fits:
                fits = False
                for e in encs:
                    s2 = s.copy()
                    s2.add_fact(cfgv.aff - Aff.sym(e) - DOMAIN_ROOM)    # stated domain: budget >= overhead + 28
                    if s2.dead or s2.entails(cfgv.aff - Aff.sym(e) - R - pl.len):
                        fits = True
            if not fits:
                bad += 1
                if os.environ.get("VERIF_DEBUG_C10"):
                    print("RESP path not shown:", sorted(k[1] for k in s.ghost if isinstance(k, tuple) and k[0] == "inj"), ret, pl, encs, s.cells.get(("gh", "bvsize")))
        rep.ob("C10.6", "fits|response", bad == 0 and n >= 2,
               "intercept_response answers on %d of %d paths without the outgoing payload (one block, or the whole body when it is left "
               "unfragmented) + measured non-payload size + %d-byte reserve being shown <= the budget" % (bad, n, R), site,
               sample={"rule": "C10.6", "site": "response", "paths": n, "not_shown": bad})
    # ------------------------------------------------ Block1: the upload handler
    anchor = blockutil.upload_anchor(prog)
    if anchor is None:
        rep.missing("C10.5", "the handler function that splices upload blocks into the per-key buffer (or a caller of it holding the request)")
        return forms
    body, req_arg, budget_i = anchor
    tr = Trace(prog, None, body=body, req_arg=req_arg, setup=setup_common)
    I = tr.I
    I_cur[0] = I
    site = {"file": body["span"]["f"], "line": body["span"]["l"], "fn": body["path"]}
    req_msg = tr.req_payload_place.parent() if hasattr(tr.req_payload_place, "parent") else Place(tr.req_payload_place.key, tr.req_payload_place.proj[:-1])
    cfg_place1 = blockutil.config_budget_place(prog, tr) if budget_i is None else None
    budget = tr.args[budget_i] if budget_i is not None else (I.read(tr.res[0][0], cfg_place1) if tr.res and cfg_place1 is not None else None)
    negs_ev = [e for e in tr.events if e[0] == "negotiate"]
    ok = bool(negs_ev)
    for _, a, s, sitec in negs_ev:
        msg, pay, bud = (a[i] for i in ui)
        p0 = tr.req_payload0
        encs = list(enc_of(I, s, req_msg))
        good = isinstance(pay, IntV) and isinstance(p0, VecV) and pay.aff == p0.len
        fm = size_form(msg, encs, p0)
        forms.append(fm)
        good = good and fm is not None
        good = good and isinstance(bud, IntV) and isinstance(budget, IntV) and bud.aff == budget.aff
        ok = ok and good
    rep.ob("C10.5", "site|request", ok,
           "the upload handler does not negotiate with (measured size of this request, its payload length, the budget it was given)", site,
           sample={"rule": "C10.5", "site": "request", "negotiate_calls": len(negs_ev)})
    n, bad = 0, 0
    for s, rv in tr.res:
        marks = set(k[1] for k in s.ghost if isinstance(k, tuple) and k[0] == "inj")
        if not (marks & {"add_option_as:Block1", "add_option:Block1"}) or "err" in tr.ret_kind(rv):
            continue
        n += 1
        sz = s.cells.get(("gh", "bvsize"))
        encs = list(enc_of(I, s, req_msg))
        fits = isinstance(sz, IntV) and isinstance(budget, IntV) and bool(encs)
        if fits:
            fits = False
            for e in encs:
                s2 = s.copy()
                s2.add_fact(budget.aff - Aff.sym(e) - DOMAIN_ROOM)
                if s2.dead or s2.entails(budget.aff - Aff.sym(e) - R - sz.aff):
                    fits = True
        if not fits:
            bad += 1
            if os.environ.get("VERIF_DEBUG_C10"):
                print("REQ path not shown:", sorted(marks), tr.ret_kind(rv), sz, encs)
    # the Block1 value put on the reply is the negotiated one (not the client's, not a stale one)
    opts = [e for e in tr.events if e[0] == "option" and e[2] == "Block1"]
    okv = bool(opts)
    for e in opts:
        val, s_ = e[3], e[4]
        neg_szx = s_.cells.get(("gh", "bvszx"))
        if not (isinstance(val, StructV) and i_szx is not None and isinstance(val.fields[i_szx], IntV) and isinstance(neg_szx, IntV)
                and val.fields[i_szx].aff == neg_szx.aff):
            okv = False
    rep.ob("C10.6", "acknowledged-value-is-negotiated", okv,
           "a Block1 option is put on the reply whose size exponent is not the one the negotiation produced (e.g. the client's own "
           "value is echoed): the acknowledged size was not chosen against the budget", site,
           sample={"rule": "C10.6", "block1_writes": len(opts)})
    rep.ob("C10.6", "fits|request", bad == 0 and n >= 2,
           "the upload handler acknowledges a block size on %d of %d paths without size + measured non-payload size of this request + "
           "%d-byte reserve being shown <= the budget (the client's next block of that size need not fit)" % (bad, n, R), site,
           sample={"rule": "C10.6", "site": "request", "paths": n, "not_shown": bad})
    rep.ob("C10.5", "site|same-meaning", len(set(forms)) <= 1,
           "the two call sites hand the negotiation sizes of different meaning (whole message / message without payload): %s" % forms)
    return forms
