"""C11 - the block handler survives hostile traffic: panic-freedom of its
entry points, bounded buffer growth, renderable errors."""
from harness import *
from absdom import Aff
from rules.c13 import bv_invariant, BV

LEVEL = "other"
EXPLANATION = ("abstract interpretation of BlockHandler::{new, intercept_request, intercept_response} for an arbitrary "
               "request (any packet, response present or not, any endpoint) and any budget: every panic-capable site "
               "reachable from them (including the encoder used for size measurement, BlockValue and the accessors) is "
               "an obligation; the only growth of the per-key upload buffer happens in extending_splice after the guard "
               "against the 16 KiB constant and nothing is written on the rejecting path; every HandlingError built on "
               "these paths carries a 4.xx/5.xx code or is not_handled() where no response exists; rendering an error puts the diagnostic on the reply whole (C11.7 = C07.6)")
NOT_DECIDED = "Not decided: nothing material; lru_time_cache internals and the user's Endpoint trait impls are trusted not to panic."
ASSUMPTIONS = ["lru_time_cache::LruCache methods and the Endpoint type's Clone/Ord impls do not panic",
               "BlockValue.size_exponent <= 7 for block values held in the handler's state (established by both constructors, C13.3)"]

HANDLER = "block_handler::BlockHandler::<Endpoint>::"


def check(env, rep, tier):
    include(rep, env, tier, "c07", ("C07.6",), "C11.7",
            "'every error is renderable as a 4.xx/5.xx reply, never a panic': rendering puts the diagnostic text on the reply whole "
            "(no cutting of peer-influenced text at a byte count, which panics inside a multi-byte character)")
    include(rep, env, tier, "c09", ("C09.2",), "C11.5",
            "'a block far beyond the buffered length is rejected': the offset handed to the bounded splice is the true byte offset "
            "num x size computed at full width (a narrowed product wraps a far block back into the accepted window)")
    configs = ["default"] if tier == "quick" else ["default", "udp"]
    rep.configs = configs
    for cfg in configs:
        prog = env.prog(cfg)
        grow_calls = []
        total_sites = 0
        for name in ("new", "intercept_request", "intercept_response"):
            body = find_body(prog, HANDLER + name)
            if body is None:
                rep.missing("C11.1", HANDLER + name)
                continue
            I = new_interp(prog)
            I.type_invariants[BV] = bv_invariant
            gargs = (("param", "Endpoint"),)
            errors = []

            def hook(I_, s, call, cbody, errors=errors):
                # C11.2: growth of a Vec<u8> buffer inside extending_splice
                fn = call.ctx.body["path"]
                if call.path.startswith(("<alloc::vec::Vec<T, A> as core::iter::traits::collect::Extend", "alloc::vec::Vec::<T, A>::resize",
                                         "alloc::vec::Vec::<T, A>::extend_from_slice", "alloc::vec::Vec::<T, A>::reserve")) and "block_handler" in fn:
                    grow_calls.append((fn, call.path, call.site, s.copy(), call.args))
            I.call_hooks.append(hook)
            I, res = run(prog, body, I=I, gargs=gargs)
            obs = report_obligations(rep, "C11.1", I)
            total_sites += len(obs)
            # ---- C11.3 errors renderable: Err(HandlingError{code}) : code Some(4.xx/5.xx) or None only if response is None
            for s, rv in res:
                if isinstance(rv, EnumV) and 1 in rv.variants and isinstance(rv.variants[1], StructV) and name != "new":
                    he = rv.variants[1].fields[0]
                    code = he.fields[0] if isinstance(he, StructV) and he.fields else None
                    ok = True
                    detail = ""
                    if isinstance(code, EnumV):
                        for vi, p in code.variants.items():
                            if vi == 1 and isinstance(p, StructV) and isinstance(p.fields[0], EnumV):
                                names = [prog.adts["header::ResponseType"]["variants"][k]["name"] for k in p.fields[0].variants]
                                from rules.c05 import REG
                                for nm in names:
                                    if REG["responses"].get(nm, 0) < 128:
                                        ok = False
                                        detail = "error code %s is not a 4.xx/5.xx code" % nm
                    else:
                        ok = False
                        detail = "error code not tracked"
                    rep.ob("C11.3", "%s|err-code" % (HANDLER + name), ok,
                           "%s returns a HandlingError that cannot be rendered as an error reply: %s" % (HANDLER + name, detail),
                           {"file": body["span"]["f"], "line": body["span"]["l"], "fn": HANDLER + name})
        if cfg == "default":
            rep.floor("C11.1", "panic-capable sites analysed from the handler entry points", total_sites, 60)
        check_reject_keeps_buffer(prog, rep)
        check_not_handled(prog, rep)
        # ---- C11.2 bounded growth
        es = find_body(prog, "block_handler::extending_splice")
        if es is None:
            rep.missing("C11.2", "extending_splice")
        else:
            const = None
            for c in prog.consts.values():
                if c["path"].endswith("MAXIMUM_UNCOMMITTED_BUFFER_RESERVE_LENGTH"):
                    const = int(c.get("int", "0"))
            rep.ob("C11.2", "constant", const is not None and 0 < const <= 16384,
                   "MAXIMUM_UNCOMMITTED_BUFFER_RESERVE_LENGTH is %s, expected at most 16384" % const)
            seen = 0
            # private helpers extending_splice was split into count as the splice itself, as long as nobody else calls them
            inside = set(b_["path"] for b_ in reachable(prog, es))
            for hp in sorted(inside - {es["path"]}):
                callers_ = [b_["path"] for b_ in prog.bodies.values() if not b_.get("promoted") and "::tests::" not in b_["id"] and b_["path"] not in inside
                            and any(bb_["term"]["k"] == "call" and not bb_.get("cleanup") and ((bb_["term"].get("resolved") or {}).get("path") == hp) for bb_ in b_["blocks"])]
                if callers_:
                    inside.discard(hp)
            for fn, path, site, s, args in grow_calls:
                if fn in inside:
                    fn = "block_handler::extending_splice"
                tgt = args[0] if args else None
                from_entry = isinstance(tgt, RefV) and isinstance(tgt.place.key, tuple) and tgt.place.key[0] == "h" \
                    and str(tgt.place.key[1]).startswith("entry")
                if fn != "block_handler::extending_splice" and not from_entry:
                    continue  # not the per-key upload buffer (e.g. the reply payload being filled)
                if fn != "block_handler::extending_splice":
                    rep.ob("C11.2", "growth-outside|%s|%s" % (fn, path), False,
                           "%s grows a buffer with %s outside extending_splice (unbounded growth path?)" % (fn, path), site)
                    continue
                seen += 1
                # the amount added must be entailed <= the reserve bound passed by the caller, which is the constant
                from summaries2 import iter_count
                cnt = iter_count(None, s, args[1]) if len(args) > 1 else None
                if cnt is None and path.endswith("::resize") and len(args) > 1 and isinstance(args[1], IntV) and isinstance(tgt, RefV):
                    cur = tr_read(s, tgt)
                    if cur is not None:
                        cnt = args[1].aff - cur       # resize(new_len, _) grows by new_len - len
                if cnt is None and path.endswith("::reserve"):
                    continue                          # capacity only: no growth of the buffer's length
                ok = cnt is not None and const is not None and s.entails(Aff.const(const) - cnt)
                rep.ob("C11.2", "extend-bounded", ok,
                       "extending_splice extends the buffer by %r, not shown <= %s on every path (guard missing, inverted or constant changed)" % (cnt, const),
                       site, sample={"rule": "C11.2", "extend_by": repr(cnt), "bound": const})
            rep.ob("C11.2", "growth-site", seen >= 1, "no buffer growth found in extending_splice: mechanism moved?")
            # on the Err path nothing is written to dst before returning
            I = new_interp(prog)
            writes = []
            gargs = (("adt", "core::ops::range::Range", (("int", 64, False),), "struct"),
                     ("adt", "core::iter::adapters::copied::Copied", (), "struct"), ("int", 8, False))
            st = State()
            subst = prog.body_subst(es, gargs)
            args = [I.mat(st, prog.ty(es["locals"][i + 1]["ty"], subst), "a%d" % i) for i in range(es["arg_count"])]
            dst = args[0]

            def hook2(I_, s, call, cbody):
                if cbody is not None and cbody.get("path", "").startswith("block_handler::"):
                    return      # a helper of the splice: what it does to the buffer is seen inside it
                for a in call.args:
                    if isinstance(a, RefV) and a.mut and isinstance(dst, RefV) and a.place.key == dst.place.key:
                        s.ghost[("inj", "wrote")] = True
            I.call_hooks.append(hook2)
            I.no_join_bodies.add(es["id"])
            I, res = run(prog, es, args=args, st=st, I=I, gargs=gargs)
            n_err = 0
            for s, rv in res:
                if isinstance(rv, EnumV) and list(rv.variants) == [1]:
                    n_err += 1
                    rep.ob("C11.2", "reject-leaves-buffer", not s.ghost.get(("inj", "wrote")),
                           "extending_splice mutates the buffer on a path that then rejects the block",
                           {"file": es["span"]["f"], "line": es["span"]["l"], "fn": es["path"]})
            rep.ob("C11.2", "reject-path", n_err >= 1, "extending_splice has no rejecting path any more (the jump guard is gone)",
                   {"file": es["span"]["f"], "line": es["span"]["l"], "fn": es["path"]})


def tr_read(s, ref):
    """length of the Vec a reference points to, in state s (None if untracked)"""
    v = s.cells.get(ref.place.key)
    try:
        for kind, i in ref.place.proj:
            if kind == "f":
                v = v.fields[i]
            elif kind == "v":
                v = v.variants[i]
            else:
                return None
    except Exception:
        return None
    return v.len if isinstance(v, VecV) else None


def check_not_handled(prog, rep):
    """C11.6: 'every failure is a handling error that renders as 4.xx / 5.xx': the code-less "not handled" error stands
    for one thing only - there is no prepared response to write to.  With a response prepared, neither entry point
    ever builds it (decided on the traces of the entry points with `response = Some(..)`; where the constructor is
    written - `ok_or_else(not_handled)`, a `None =>` arm - does not matter)."""
    import blockutil
    from blockutil import Trace
    for entry in ("intercept_request", "intercept_response"):
        built = []

        def setup(tr_, I_, st_, built=built):
            def hook(I__, s_, call, cbody):
                if call.path == "error::HandlingError::not_handled":
                    built.append(call.site)
            I_.call_hooks.append(hook)
        tr = Trace(prog, entry, setup=setup)
        if not tr.ok:
            rep.missing("C11.6", "BlockHandler::" + entry)
            continue
        rep.ob("C11.6", "not-handled-only-for-missing-response|" + entry, not built,
               "%s can build the code-less 'not handled' error although a response is prepared (at %s): such a failure cannot be rendered "
               "as a 4.xx / 5.xx reply" % (entry, sorted(set("%s:%s" % (x.get("file"), x.get("line")) for x in built))[:3]),
               {"file": tr.body["span"]["f"], "line": tr.body["span"]["l"], "fn": tr.body["path"]}, sample={"rule": "C11.6", "entry": entry, "paths": len(tr.res)})


def check_reject_keeps_buffer(prog, rep):
    """C11.4: at the handler level - when the splice helper rejects a block, the per-key upload buffer that existed
    when the request arrived is still in the state, the same vector (not taken out, not replaced, not cleared)"""
    import blockutil
    from blockutil import Trace
    es = find_body(prog, "block_handler::extending_splice")
    anchor = blockutil.upload_anchor(prog)
    if anchor is None or es is None:
        rep.missing("C11.4", "the handler function calling extending_splice (or a caller of it holding the request)")
        return
    body, req_arg, _budget_i = anchor
    entry = {}

    def setup(tr, I, st):
        # the request arrives while an upload is buffered: state.buffer = Some(v0)
        bi = tr.sf.get("buffer")
        key = next((k for k in st.cells if isinstance(k, tuple) and k[0] == "h" and str(k[1]).startswith("entry")), None)
        if key is None or bi is None:
            return
        n = I.fresh(st, "len(buffered)", 0, (1 << 63) - 1, ("len", "buffered"))
        v0 = VecV(Aff.sym(n), None, ("buffered",), I.newgen())
        cur = I.ensure(st, Place(key, (("f", bi),)), None, "state.buffer")
        path = cur.path if isinstance(cur, EnumV) else "core::option::Option"
        I.write(st, Place(key, (("f", bi),)), EnumV(path, {1: StructV([v0])}, getattr(cur, "ty", None)))
        entry["place"] = Place(key, (("f", bi),))
        entry["v0"] = v0

        def es_ret(I_, ctx, outs):
            for s_, rv_ in outs:
                if isinstance(rv_, EnumV) and list(rv_.variants) == [1]:
                    s_.ghost[("inj", "splice-rejected")] = True
        I.return_hooks[es["id"]] = es_ret
        I.no_join_bodies.add(es["id"])
    tr = Trace(prog, None, body=body, req_arg=req_arg, setup=setup)
    site = {"file": body["span"]["f"], "line": body["span"]["l"], "fn": body["path"]}
    if "v0" not in entry:
        rep.missing("C11.4", "per-key upload buffer field of the handler state")
        return
    n, bad = 0, 0
    for s, rv in tr.res:
        if not s.ghost.get(("inj", "splice-rejected")):
            continue
        n += 1
        cur = tr.I.read(s, entry["place"])
        ok = isinstance(cur, EnumV) and list(cur.variants) == [1] and isinstance(cur.variants[1], StructV)
        if ok:
            v = cur.variants[1].fields[0]
            ok = isinstance(v, VecV) and v.gen == entry["v0"].gen and s.entails_eq(v.len, entry["v0"].len) and "err" in tr.ret_kind(rv)
        if not ok:
            bad += 1
    rep.ob("C11.4", "reject-keeps-buffer", bad == 0 and n >= 1,
           "when the splice helper rejects a block, %d of %d paths of %s leave the state without the upload buffer it held before "
           "(taken out of the state, replaced or resized): the blocks received so far are lost" % (bad, n, body["path"]), site,
           sample={"rule": "C11.4", "rejecting_paths": n, "buffer_lost": bad})
