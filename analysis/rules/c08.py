"""C08 - Block2 download: structural necessary conditions."""
import os
from harness import *
from absdom import holds
from absdom import Aff
import blockutil
import interp
from blockutil import Trace, HANDLER
from rules.c13 import BV

LEVEL = "other"
EXPLANATION = ("the function that cuts the cached body into chunks (found as the caller of slice::chunks), its two "
               "callers (intercept_response and the request-side Block2 handler) and the function that copies the "
               "cached reply into the live one are analysed with per-path event recording: the packet stored in the "
               "per-key cache has the payload length the response had on entry (snapshot before truncation); the cache "
               "is filled exactly on paths whose served block has more = true and released exactly on paths with "
               "more = false; a path that served from the cache never returns Ok(false) from the request side; the "
               "copy loop writes every option of the cached reply unconditionally and Block2 is set by replacement; "
               "with block number 0 the 4.00 exit is unreachable (first block of any body, including the empty one).  C08.6: the "
               "serve function is run with the exact contract of [T]::chunks / skip / next (k-th item = src[k*size .. min((k+1)*size, "
               "len)]); on every serving path the reply payload is a copy of cached.payload[num*size .. +min(size, len - num*size)] "
               "with size = the requested block's size(), and the Block2 value written keeps num and SZX and has more exactly when "
               "(num+1)*size < len")
NOT_DECIDED = ("Not decided: the client-side reassembly over a whole transfer as an equality of byte strings (each served block is "
               "decided: which bytes of the cached body it carries and what its more flag says); ETag stability across blocks "
               "beyond the option copy loop.")
ASSUMPTIONS = ["BlockValue.size_exponent <= 7 for block values in the handler state"]


def check(env, rep, tier):
    include(rep, env, tier, "c12", ("C12.1", "C12.2"), "C08.11",
            "'cached per (endpoint, method, path)': the cache key carries the path segment by segment, the method and the endpoint unchanged, "
            "and the handler keeps no state outside that keyed map (no slot shared between overlapping exchanges)")
    include(rep, env, tier, "c10", ("C10.5",), "C08.9", "'every body length': the reply is measured without its payload before it is fragmented (a whole-message size check would refuse large bodies)")
    include(rep, env, tier, "c13", ("C13.1",), "C08.10", "'block numbers agree with byte offsets': the Block2 value put on a served block reaches the wire (and the client's request value is read) with NUM, M and SZX at their RFC 7959 bit positions")
    include(rep, env, tier, "c20", ("C20.2",), "C08.8", "'later blocks are served from the cache': the per-key entry is only reached through entry()/or_insert() - it is never removed, replaced or iterated by the handler")
    configs = ["default"] if tier == "quick" else ["default", "udp"]
    rep.configs = configs
    for cfg in configs:
        prog = env.prog(cfg)
        serve = blockutil.find_serve(prog)
        if len(serve) != 1:
            rep.missing("C08.2", "the (unique) function serving a chunk of the cached body (found %d)" % len(serve))
            continue
        serve = serve[0]
        callers = blockutil.fns_calling(prog, serve["path"])
        ir = find_body(prog, HANDLER + "intercept_response")
        req_side = [b for b in callers if not b.get("pub")]
        rep.ob("C08.2", "callers", ir is not None and any(b["id"] == ir["id"] for b in callers) and len(req_side) == 1,
               "the chunk-serving function is not called from exactly intercept_response and one request-side handler (callers: %s)" % [b["path"] for b in callers])
        if ir is None or len(req_side) != 1:
            continue
        # ------------------------------------------------ response side
        tr = Trace(prog, "intercept_response")
        site = {"file": ir["span"]["f"], "line": ir["span"]["l"], "fn": ir["path"]}
        rep.analysed.update(prog.bodies[b]["path"] for b in tr.I.visited_bodies if b in prog.bodies)
        stores = [e for e in tr.events if e[0] == "cache-store"]
        ok1 = ok2 = bool([e for e in stores if e[1] == "Some"])
        for _, kind, v, s, st_site in stores:
            if kind != "Some":
                ok2 = False
                continue
            pkt = v.variants[1].fields[0] if isinstance(v.variants[1], StructV) else None
            pl = pkt.fields[tr.P["payload"]] if isinstance(pkt, StructV) else None
            if not (isinstance(pl, VecV) and pl.len == tr.resp_payload0.len):
                ok1 = False
            if blockutil.last_more(s) != 1:
                ok2 = False
        rep.ob("C08.1", "snapshot-before-truncation", ok1,
               "the reply stored in the per-key cache does not have the full body the application produced (cloned after the payload was cut to one block?)", site,
               sample={"rule": "C08.1", "cache_stores": len(stores)})
        rep.ob("C08.2", "fill-iff-more", ok2, "the per-key cache is filled on a path whose served block does not have more = true (or cleared in intercept_response)", site)
        okr = True
        for s, rv in tr.res:
            marks = set(k[1] for k in s.ghost if isinstance(k, tuple) and k[0] == "inj")
            ret = tr.ret_kind(rv)
            if "cache:Some" in marks and ret != {"true"}:
                okr = False
            if "served" in marks and blockutil.last_more(s) == 1 and "cache:Some" not in marks and "err" not in ret:
                okr = False
        # early negotiation: every reply the application did not fragment itself goes through the size negotiation (which
        # looks at the Block2 value remembered from the request) - no shortcut in front of it decides "fits, leave it alone"
        def setup_nob2(tr_, I_, st_):
            def m_get_option(I__, s_, call):
                a, o = call.args[0], call.args[1]
                if isinstance(a, RefV) and a.place == tr_.resp_msg and isinstance(o, EnumV) and len(o.variants) == 1 \
                        and prog.adts["packet::CoapOption"]["variants"][next(iter(o.variants))]["name"] == "Block2":
                    from summaries import mk_none
                    return [(s_, mk_none(call.dest_ty))]
                return None
            I_.extra_models["packet::Packet::get_option"] = m_get_option
        trn = Trace(prog, "intercept_response", setup=setup_nob2)
        n_un, bad_un = 0, 0
        for s, rv in trn.res:
            if "err" in trn.ret_kind(rv):
                continue
            n_un += 1
            marks = set(k[1] for k in s.ghost if isinstance(k, tuple) and k[0] == "inj")
            if "negotiated" not in marks:
                bad_un += 1
        rep.ob("C08.5", "every-reply-negotiated", bad_un == 0 and n_un >= 2,
               "intercept_response returns on %d of %d paths without having consulted the size negotiation (reply prepared, no Block2 option of the "
               "application's own): a client that asked for small blocks in its first request gets the body whole" % (bad_un, n_un), site,
               sample={"rule": "C08.5", "paths": n_un})
        rep.ob("C08.2", "response-return", okr, "intercept_response: a path that fragments the reply does not cache it and return Ok(true)", site)
        # ------------------------------------------------ request side
        rb = req_side[0]
        req_arg = [i for i in range(rb["arg_count"]) if "request::CoapRequest" in prog.types[rb["locals"][i + 1]["ty"]]["s"]]
        bvdec = find_impl_fn(prog, "core::convert::TryFrom", BV, "alloc::vec::Vec<u8>", "try_from")

        def setup_dec(tr_, I_, st_):
            # a Block2 option whose value does not decode is treated as absent by the handler: mark those paths
            def dec_ret(I__, ctx, outs):
                for s_, rv_ in outs:
                    if isinstance(rv_, EnumV) and list(rv_.variants) == [1]:
                        s_.ghost[("inj", "block-undecodable")] = True
            if bvdec is not None:
                I_.return_hooks[bvdec["id"]] = dec_ret
                I_.no_join_bodies.add(bvdec["id"])
        tr2 = Trace(prog, None, body=rb, req_arg=req_arg[0] if req_arg else 0, setup=setup_dec)
        site2 = {"file": rb["span"]["f"], "line": rb["span"]["l"], "fn": rb["path"]}
        ok3 = ok4 = True
        n_served = 0
        for s, rv in tr2.res:
            marks = set(k[1] for k in s.ghost if isinstance(k, tuple) and k[0] == "inj")
            ret = tr2.ret_kind(rv)
            if "served" in marks:
                n_served += 1
                if "false" in ret or "?" in ret:
                    ok3 = False
                if "err" not in ret:
                    more = blockutil.last_more(s)
                    if more == 0 and "cache:None" not in marks:
                        ok4 = False
                    if more == 1 and "cache:None" in marks:
                        ok4 = False
                    if more not in (0, 1):
                        ok4 = False
        ok6, n6 = True, 0
        for s, rv in tr2.res:
            if s.ghost.get("has_Block2") is False:
                n6 += 1
                ek = [k for k in s.cells if isinstance(k, tuple) and k[0] == "h" and str(k[1]).startswith("entry")]
                lb = tr2.I.read(s, Place(ek[0], (("f", tr2.sf.get("last_block2")),))) if ek else None
                if not (isinstance(lb, EnumV) and list(lb.variants) == [0]):
                    ok6 = False
        rep.ob("C08.2", "no-block2-forgets-preference", ok6 and n6 > 0,
               "a request without a Block2 option leaves an earlier request's Block2 value remembered in the per-key state: "
               "the next reply is fragmented from a stale block number / size (paths: %d)" % n6, site2,
               sample={"rule": "C08.2", "paths_without_block2": n6})
        # ---- C08.7 a follow-up is answered from the cache: with a reply cached for the key on entry, every path of the
        #      request side that sees a Block2 option serves from it (the application is not consulted again), and a
        #      request with a Block2 option leaves that value remembered for intercept_response (early negotiation)
        def setup7(tr_, I_, st_):
            setup_dec(tr_, I_, st_)
            ek = [k for k in st_.cells if isinstance(k, tuple) and k[0] == "h" and str(k[1]).startswith("entry")]
            if not ek:
                return
            cp = Place(ek[0], (("f", tr_.sf.get("cached_response")),))
            cur = I_.ensure(st_, cp, None, "state.cache")
            if isinstance(cur, EnumV):
                pk = ("adt", "packet::Packet", (), "struct")
                I_.write(st_, cp, EnumV(cur.path, {1: StructV([I_.mat(st_, pk, "cached")])}, cur.ty))
                tr_.cache_set = True
        tr7 = Trace(prog, None, body=rb, req_arg=req_arg[0] if req_arg else 0, setup=setup7)
        n7, bad7, n_rem, bad_rem = 0, 0, 0, 0
        for s, rv in tr7.res:
            if s.ghost.get("has_Block2") is not True:
                continue
            marks = set(k[1] for k in s.ghost if isinstance(k, tuple) and k[0] == "inj")
            if "block-undecodable" in marks:
                continue
            n7 += 1
            if "serve-called" not in marks:
                bad7 += 1
        for s, rv in tr2.res:
            # (a path that returns without ever looking for the option is taken by requests that carry one, too)
            if s.ghost.get("has_Block2") is not False and "err" not in tr2.ret_kind(rv) and not s.ghost.get(("inj", "block-undecodable")):
                n_rem += 1
                ek = [k for k in s.cells if isinstance(k, tuple) and k[0] == "h" and str(k[1]).startswith("entry")]
                lb = tr2.I.read(s, Place(ek[0], (("f", tr2.sf.get("last_block2")),))) if ek else None
                if not (isinstance(lb, EnumV) and list(lb.variants) == [1]):
                    bad_rem += 1
        rep.ob("C08.7", "follow-up-served-from-cache", getattr(tr7, "cache_set", False) and bad7 == 0 and n7 >= 1,
               "with a reply cached for the key, %d of %d request-side paths that see a Block2 option do not serve from the cache: "
               "the application is consulted again in the middle of a transfer" % (bad7, n7), site2,
               sample={"rule": "C08.7", "paths_with_block2_and_cache": n7, "not_served": bad7})
        rep.ob("C08.7", "block2-remembered", bad_rem == 0 and n_rem >= 1,
               "a request with a Block2 option leaves the per-key state without that value (%d of %d paths): the size the client asked "
               "for in its first request is lost before the reply is fragmented" % (bad_rem, n_rem), site2)
        rep.ob("C08.3", "served=>handled", ok3 and n_served > 0,
               "a follow-up block served from the cache is still passed to the application (Ok(false))", site2,
               sample={"rule": "C08.3", "served_paths": n_served})
        rep.ob("C08.2", "release-iff-last", ok4, "the cache entry is not released exactly when the served block was the last one", site2)
        # the reply must carry Block2 by replacement
        opts = [e for e in tr2.events + tr.events if e[0] == "option" and e[2] == "Block2"]
        rep.ob("C08.4", "block2-replaced", bool(opts) and all(e[1] in ("set_options_as", "set_option") for e in opts),
               "the Block2 option of a served block is appended instead of replacing the cached reply's (calls: %s)" % sorted(set(e[1] for e in opts)), site2)
        # ------------------------------------------------ option echo
        clone = None
        for bb in serve["blocks"]:
            t = bb["term"]
            if t["k"] == "call" and not bb["cleanup"]:
                r = t.get("resolved") or {}
                if r.get("local") and r.get("id") in prog.bodies:
                    cb = prog.bodies[r["id"]]
                    tys = [prog.types[cb["locals"][i + 1]["ty"]]["s"] for i in range(cb["arg_count"])]
                    if tys == ["&mut packet::Packet", "&packet::Packet"]:
                        clone = cb
        if clone is None:
            rep.missing("C08.4", "the function copying the cached reply into the live reply")
        else:
            I = new_interp(prog)
            gargs = (("param", "Endpoint"),)
            st = State()
            subst = prog.body_subst(clone, gargs)
            cargs = [I.mat(st, prog.ty(clone["locals"][i + 1]["ty"], subst), "a%d" % i) for i in range(clone["arg_count"])]
            bad, n_items, n_sets = [], [0], [0]
            src_opts = []

            def chook(I_, s, call, cbody):
                p = call.path
                if "btree::map::Iter" in p and p.endswith("::next"):
                    s.ghost.pop(("inj", "item-open"), None)
                    s.ghost.pop("echoed", None)
                    n_items[0] += 1
                elif p == "packet::Packet::options" or p.endswith("BTreeMap::<K, V, A>::iter"):
                    a = call.args[0]
                    src_opts.append(a.place.key if isinstance(a, RefV) else None)
                elif p in ("packet::Packet::set_option", "packet::Packet::add_option") and isinstance(call.args[0], RefV) \
                        and isinstance(cargs[0], RefV) and call.args[0].place.key == cargs[0].place.key:
                    v = call.args[2] if len(call.args) > 2 else None
                    if p.endswith("set_option") and isinstance(v, OpaqueV) and v.get("clone_of") is not None:
                        s.ghost["echoed"] = True
                        n_sets[0] += 1
            I.call_hooks.append(chook)

            def lhook(I_, ctx, h, head, backs, exits):
                if ctx.body["id"] != clone["id"]:
                    return
                for b_ in backs:
                    if b_.ghost.get(("inj", "item-open")) and not b_.ghost.get("echoed"):
                        bad.append({"file": clone["span"]["f"], "line": clone["span"]["l"], "fn": clone["path"]})
            I.loop_hooks.append(lhook)

            # the same copy spelled as options().for_each(|entry| ..): the closure is applied to every entry, so every
            # path through the closure must make the copy
            def entry_closure_ret(I_, ctx, outs):
                for s_, _ in outs:
                    n_items[0] += 1
                    if not s_.ghost.get("echoed"):
                        bad.append({"file": clone["span"]["f"], "line": clone["span"]["l"], "fn": clone["path"]})
                    s_.ghost.pop("echoed", None)
            for ob in prog.bodies.values():
                if not ob.get("promoted") and ob["path"].startswith(clone["path"] + "::{closure"):
                    I.return_hooks[ob["id"]] = entry_closure_ret
                    I.no_join_bodies.add(ob["id"])
            I.no_join_bodies.add(clone["id"])
            I.unroll_max_blocks = 0
            I, cres = run(prog, clone, args=cargs, st=st, I=I, gargs=gargs)
            from_src = bool(src_opts) and isinstance(cargs[1], RefV) and all(k == cargs[1].place.key for k in src_opts)
            ok = not bad and n_items[0] > 0 and n_sets[0] > 0 and from_src
            # ... and none is taken away again: the handler's own code removes no option from a reply
            # (replacing the Block2 option goes through set_option / set_options_as, which insert)
            removers = []
            for x in prog.bodies.values():
                if x.get("promoted") or not x["path"].startswith("block_handler::") or "::tests" in x["id"]:
                    continue
                for bb in x["blocks"]:
                    t = bb["term"]
                    if t["k"] == "call" and not bb.get("cleanup"):
                        pth = (t.get("resolved") or t.get("callee") or {}).get("path", "") or ""
                        if pth in ("packet::Packet::clear_option", "packet::Packet::clear_all_options") \
                                or (pth.startswith("alloc::collections::btree::map::BTreeMap::<K, V, A>::") and pth.rsplit("::", 1)[-1] in ("remove", "clear", "retain", "pop_first", "pop_last", "split_off", "remove_entry")):
                            removers.append((x["path"], pth.rsplit("::", 1)[-1], bb["tspan"]["l"]))
            rep.ob("C08.4", "no-option-removed", not removers,
                   "the block handler removes options from a message (%s): a served block can lack an option the application's reply carried" % removers[:3],
                   {"file": clone["span"]["f"], "line": clone["span"]["l"], "fn": clone["path"]})
            rep.ob("C08.4", "option-echo", ok,
                   "the cached reply's options are not all copied into each served block: some option entry of the cached reply can be passed over "
                   "without set_option(number, values.clone()) on the live reply (items iterated: %d, copies: %d, skipping paths: %d)" % (n_items[0], n_sets[0], len(bad)),
                   {"file": clone["span"]["f"], "line": clone["span"]["l"], "fn": clone["path"]},
                   sample={"rule": "C08.4", "iterated": n_items[0], "copied": n_sets[0], "skipping_paths": len(bad)})
        check_served_chunk(prog, rep, serve)
        # ------------------------------------------------ C08.5 first block never 4.00
        def setup(tr_, I, st):
            pass
        I = new_interp(prog)
        from rules.c13 import bv_invariant
        I.type_invariants[BV] = bv_invariant
        gargs = (("param", "Endpoint"),)
        st = State()
        subst = prog.body_subst(serve, gargs)
        args = [I.mat(st, prog.ty(serve["locals"][i + 1]["ty"], subst), "a%d" % i) for i in range(serve["arg_count"])]
        bvi = [i for i in range(serve["arg_count"]) if prog.types[serve["locals"][i + 1]["ty"]]["s"] == BV]
        if not bvi:
            rep.missing("C08.5", "block value argument of %s" % serve["path"])
        else:
            bvv = args[bvi[0]]
            ni = blockutil.idx(prog, BV, "num")
            fs = list(bvv.fields)
            fs[ni] = IntV(Aff.const(0), (16, False))
            args[bvi[0]] = StructV(fs)
            bad = []

            def hook(I_, s, call, cbody):
                if call.path == "error::HandlingError::bad_request":
                    bad.append(call.site)
            I.call_hooks.append(hook)
            I, res = run(prog, serve, args=args, st=st, I=I, gargs=gargs)
            rep.ob("C08.5", "first-block-not-4.00", not bad,
                   "a request for block 0 can be answered 4.00 Bad Request (an empty body yields no chunk): the first block of a transfer must always be served",
                   {"file": serve["span"]["f"], "line": bad[0]["line"] if bad else serve["span"]["l"], "fn": serve["path"]},
                   sample={"rule": "C08.5", "bad_request_reachable_with_num_0": bool(bad)})


def check_served_chunk(prog, rep, serve):
    """C08.6: what a served block contains.  The serve function is run for an arbitrary block value and cached
    reply with the exact model of [T]::chunks (k-th item = src[k*size .. min((k+1)*size, len)]); on every path that
    serves: the reply payload is a copy of cached.payload[num*size .. +l] with l = min(size, len - num*size), size being
    the requested block's size(), and the Block2 value written keeps num and SZX and has more <=> (num+1)*size < len"""
    from rules.c13 import bv_invariant
    I = new_interp(prog)
    I.precise_chunks = True
    I.type_invariants[BV] = bv_invariant
    I.no_join_bodies.add(serve["id"])
    gargs = (("param", "Endpoint"),)
    st = State()
    subst = prog.body_subst(serve, gargs)
    args = [I.mat(st, prog.ty(serve["locals"][i + 1]["ty"], subst), "a%d" % i) for i in range(serve["arg_count"])]
    tys = [prog.types[serve["locals"][i + 1]["ty"]]["s"] for i in range(serve["arg_count"])]
    bvi = [i for i, t in enumerate(tys) if t == BV]
    pki = [i for i, t in enumerate(tys) if t == "&packet::Packet"]
    rqi = [i for i, t in enumerate(tys) if "request::CoapRequest" in t]
    site = {"file": serve["span"]["f"], "line": serve["span"]["l"], "fn": serve["path"]}
    if len(bvi) != 1 or len(pki) != 1 or len(rqi) != 1:
        rep.missing("C08.6", "signature (request, block value, &Packet) of %s" % serve["path"])
        return
    R = {n: blockutil.idx(prog, "request::CoapRequest", n) for n in ("message", "response")}
    P = {n: blockutil.idx(prog, "packet::Packet", n) for n in ("payload",)}
    ni, mi, zi = (blockutil.idx(prog, BV, n) for n in ("num", "more", "size_exponent"))
    bv = args[bvi[0]]
    if isinstance(bv, StructV) and isinstance(bv.fields[ni], TopV):
        fs = list(bv.fields)
        fs[ni] = I.mat(st, fs[ni].ty, "bv.num")
        bv = StructV(fs)
        args[bvi[0]] = bv
    cached = args[pki[0]]
    cty = prog.ty(serve["locals"][pki[0] + 1]["ty"], subst)[2]
    I.ensure(st, cached.place, cty, "cached")
    cpl = I.ensure(st, cached.place.extend(("f", P["payload"])), ("adt", "alloc::vec::Vec", (("int", 8, False),), "struct"), "cached.payload")
    req = args[rqi[0]]
    rty = prog.ty(serve["locals"][rqi[0] + 1]["ty"], subst)[2]
    I.ensure(st, req.place, rty, "request")
    rv0 = I.ensure(st, req.place.extend(("f", R["response"])), I.field_types(rty)[R["response"]], "request.response")
    if not (isinstance(rv0, EnumV) and isinstance(cpl, VecV) and isinstance(bv, StructV)):
        rep.missing("C08.6", "tracked arguments of %s" % serve["path"])
        return
    crt = I.field_types(rty)[R["response"]][2][0]
    I.write(st, req.place.extend(("f", R["response"])), EnumV(rv0.path, {1: StructV([I.mat(st, crt, "response")])}, rv0.ty))
    rmsg = req.place.extend(("f", R["response"]), ("v", 1), ("f", 0), ("f", 0))
    I.ensure(st, rmsg, I.field_types(crt)[0], "response.message")
    written = []

    def vhook(I_, ctx, s, v):
        if isinstance(v, StructV) and len(v.fields) == 3 and isinstance(v.fields[mi], IntV) and v.fields[mi].ty == (1, False) \
                and ctx.body["id"] == serve["id"]:
            s.ghost["bv_written"] = v
    I.value_hooks.append(vhook)

    def chook(I_, s, call, cbody):
        if call.path in ("packet::Packet::set_options_as", "packet::Packet::set_option", "packet::Packet::add_option_as") and call.ctx.depth == 0:
            s.ghost[("inj", "block2-set")] = True
    I.call_hooks.append(chook)
    I, res = run(prog, serve, args=args, st=st, I=I, gargs=gargs)
    L = cpl.len
    num = bv.fields[ni]
    n, bad = 0, []
    for s, rv in res:
        if not (isinstance(rv, EnumV) and list(rv.variants) == [0]):
            continue
        # a product with a factor known to be zero is zero (the guard `num == 0` is learnt after the product was formed)
        for sym in list(s.bounds):
            inf = I.syminfo.get(sym)
            if inf and inf[0] == "mul" and (s.entails_eq(inf[1], Aff.const(0)) or s.entails_eq(inf[2], Aff.const(0))):
                s.add_eq(Aff.sym(sym), Aff.const(0))
        if s.dead:
            continue
        n += 1
        pl = I.read(s, rmsg.extend(("f", P["payload"])))
        if not (isinstance(pl, VecV) and isinstance(pl.tag, tuple) and pl.tag[0] == "slice"):
            bad.append("the reply payload is not (shown to be) a copy of one chunk of the cached payload")
            continue
        _, base, off, ln = pl.tag
        if isinstance(base, tuple) and base[0] == "arr" and ln.is_const() and ln.c == 0:
            # the empty final block of an empty body: only for block 0 of an exhausted (empty) cached payload, more = 0
            w = s.ghost.get("bv_written")
            mv = w.fields[mi] if isinstance(w, StructV) else None
            if not (s.entails_eq(num.aff, Aff.const(0)) and s.entails(-L) and isinstance(mv, IntV) and mv.aff.is_const() and mv.aff.c == 0):
                if os.environ.get("VERIF_DEBUG_C08"):
                    print("EMPTY", s.entails_eq(num.aff, Aff.const(0)), s.entails(-L), mv, s.range(L), [f for f in s.facts][:8], {k: v for k, v in s.bounds.items() if "mul" in k}, num)
                bad.append("an empty block is served although the cached body is not shown empty / block 0 / more = 0")
            continue
        okb = isinstance(base, tuple) and base[0] == "vec" and base[1] == cached.place.extend(("f", P["payload"]))
        if not okb:
            if os.environ.get("VERIF_DEBUG_C08"):
                print("base", base, "want", cached.place.extend(("f", P["payload"])))
            bad.append("the served chunk is not cut from the cached reply's payload")
            continue
        # offset = num * size, size = the requested block's size()
        size = None
        sg = off.single()
        if off.is_const() and off.c == 0 and s.entails_eq(num.aff, Aff.const(0)):
            size = "any"
        elif sg and sg[1] == 1 and sg[2] == 0:
            inf = I.syminfo.get(sg[0])
            if inf and inf[0] == "mul":
                fa = [f for f in (inf[1], inf[2]) if f != num.aff]
                if len(fa) == 1 and (inf[1] == num.aff or inf[2] == num.aff):
                    size = fa[0]
        if size is None:
            bad.append("the chunk offset %s is not block number x block size" % norm(off))
            continue
        if size != "any":
            ssym = size.single()
            sinf = I.syminfo.get(ssym[0]) if ssym else None
            zs = bv.fields[zi]
            if not (sinf and sinf[0] in ("shl",) or (ssym and str(ssym[0]).startswith("shl"))):
                bad.append("the chunk size is not the requested block's size()")
                continue
            # length: full chunk or the tail
            if not (s.entails_eq(ln, size) and s.entails(L - off - size) or s.entails_eq(ln, L - off) and s.entails(off + size - L - 1)):
                bad.append("the chunk length is not min(size, len - offset)")
                continue
            w = s.ghost.get("bv_written")
            if not (isinstance(w, StructV) and s.ghost.get(("inj", "block2-set"))):
                bad.append("no Block2 value is written on a serving path")
                continue
            more = w.fields[mi]
            mv = None
            if isinstance(more, IntV):
                if more.aff.is_const():
                    mv = more.aff.c
                elif more.cond is not None:
                    mv = 1 if holds(s, more.cond, True) else 0 if holds(s, more.cond, False) else None
            if mv is None and isinstance(more, IntV):
                # the flag is computed as a value, not branched on: it must be equivalent to (num+1) x size < len
                from absdom import assume
                cnd = more.cond if more.cond is not None else ("cmp", "Ne", more.aff, Aff.const(0))
                ok_t = all(x.dead or x.entails(L - off - size - 1) for x in assume(s.copy(), cnd, True))
                ok_f = all(x.dead or x.entails(off + size - L) for x in assume(s.copy(), cnd, False))
                if not (ok_t and ok_f):
                    bad.append("the more flag written is not equivalent to (num+1) x size < len")
                    continue
            elif mv is None:
                bad.append("the more flag written is not determined by the path")
                continue
            elif mv == 1 and not s.entails(L - off - size - 1) or mv == 0 and not s.entails(off + size - L):
                bad.append("more = %d is written although (num+1) x size %s len is not established" % (mv, "<" if mv else ">="))
                continue
            if not (isinstance(w.fields[ni], IntV) and w.fields[ni].aff == num.aff and w.fields[zi] == bv.fields[zi]):
                bad.append("the Block2 value written does not keep the requested num / SZX")
    rep.ob("C08.6", "served-chunk", not bad and n >= 2,
           "%s: %s (serving paths: %d)" % (serve["path"], "; ".join(sorted(set(bad))[:2]) or "too few serving paths", n), site,
           sample={"rule": "C08.6", "serving_paths": n})
