"""C08 - Block2 download: structural necessary conditions."""
from harness import *
from absdom import Aff
import blockutil
import interp
from blockutil import Trace, HANDLER
from rules.c13 import BV

LEVEL = "other"
EXPLANATION = ("the function that cuts the cached body into chunks (found as the caller of slice::chunks), its two "
               "callers (intercept_response and the request-side Block2 handler) and the function that copies the "
               "cached reply into the live one are analysed with per-path event recording: the packet stored in the "
               "per-key cache has the payload length the response had on entry (snapshot before truncation); the cache "
               "is filled exactly on paths whose served block has more = true and released exactly on paths with "
               "more = false; a path that served from the cache never returns Ok(false) from the request side; the "
               "copy loop writes every option of the cached reply unconditionally and Block2 is set by replacement; "
               "with block number 0 the 4.00 exit is unreachable (first block of any body, including the empty one)")
NOT_DECIDED = "Not decided: byte-for-byte reassembly, exact block sizes, the more flag's value for every body length."
ASSUMPTIONS = ["BlockValue.size_exponent <= 7 for block values in the handler state"]


def check(env, rep, tier):
    configs = ["default"] if tier == "quick" else ["default", "udp"]
    rep.configs = configs
    for cfg in configs:
        prog = env.prog(cfg)
        serve = blockutil.fns_calling(prog, "core::slice::<impl [T]>::chunks")
        if len(serve) != 1:
            rep.missing("C08.2", "the (unique) function serving a chunk of the cached body (found %d)" % len(serve))
            continue
        serve = serve[0]
        callers = blockutil.fns_calling(prog, serve["path"])
        ir = find_body(prog, HANDLER + "intercept_response")
        req_side = [b for b in callers if not b.get("pub")]
        rep.ob("C08.2", "callers", ir is not None and any(b["id"] == ir["id"] for b in callers) and len(req_side) == 1,
               "the chunk-serving function is not called from exactly intercept_response and one request-side handler (callers: %s)" % [b["path"] for b in callers])
        if ir is None or len(req_side) != 1:
            continue
        # ------------------------------------------------ response side
        tr = Trace(prog, "intercept_response")
        site = {"file": ir["span"]["f"], "line": ir["span"]["l"], "fn": ir["path"]}
        rep.analysed.update(prog.bodies[b]["path"] for b in tr.I.visited_bodies if b in prog.bodies)
        stores = [e for e in tr.events if e[0] == "cache-store"]
        ok1 = ok2 = bool([e for e in stores if e[1] == "Some"])
        for _, kind, v, s, st_site in stores:
            if kind != "Some":
                ok2 = False
                continue
            pkt = v.variants[1].fields[0] if isinstance(v.variants[1], StructV) else None
            pl = pkt.fields[tr.P["payload"]] if isinstance(pkt, StructV) else None
            if not (isinstance(pl, VecV) and pl.len == tr.resp_payload0.len):
                ok1 = False
            if s.ghost.get("last_more") != 1:
                ok2 = False
        rep.ob("C08.1", "snapshot-before-truncation", ok1,
               "the reply stored in the per-key cache does not have the full body the application produced (cloned after the payload was cut to one block?)", site,
               sample={"rule": "C08.1", "cache_stores": len(stores)})
        rep.ob("C08.2", "fill-iff-more", ok2, "the per-key cache is filled on a path whose served block does not have more = true (or cleared in intercept_response)", site)
        okr = True
        for s, rv in tr.res:
            marks = set(k[1] for k in s.ghost if isinstance(k, tuple) and k[0] == "inj")
            ret = tr.ret_kind(rv)
            if "cache:Some" in marks and ret != {"true"}:
                okr = False
            if "served" in marks and s.ghost.get("last_more") == 1 and "cache:Some" not in marks and "err" not in ret:
                okr = False
        rep.ob("C08.2", "response-return", okr, "intercept_response: a path that fragments the reply does not cache it and return Ok(true)", site)
        # ------------------------------------------------ request side
        rb = req_side[0]
        req_arg = [i for i in range(rb["arg_count"]) if "request::CoapRequest" in prog.types[rb["locals"][i + 1]["ty"]]["s"]]
        tr2 = Trace(prog, None, body=rb, req_arg=req_arg[0] if req_arg else 0)
        site2 = {"file": rb["span"]["f"], "line": rb["span"]["l"], "fn": rb["path"]}
        ok3 = ok4 = True
        n_served = 0
        for s, rv in tr2.res:
            marks = set(k[1] for k in s.ghost if isinstance(k, tuple) and k[0] == "inj")
            ret = tr2.ret_kind(rv)
            if "served" in marks:
                n_served += 1
                if "false" in ret or "?" in ret:
                    ok3 = False
                if "err" not in ret:
                    more = s.ghost.get("last_more")
                    if more == 0 and "cache:None" not in marks:
                        ok4 = False
                    if more == 1 and "cache:None" in marks:
                        ok4 = False
                    if more not in (0, 1):
                        ok4 = False
        ok6, n6 = True, 0
        for s, rv in tr2.res:
            if s.ghost.get("has_Block2") is False:
                n6 += 1
                ek = [k for k in s.cells if isinstance(k, tuple) and k[0] == "h" and str(k[1]).startswith("entry")]
                lb = tr2.I.read(s, Place(ek[0], (("f", tr2.sf.get("last_block2")),))) if ek else None
                if not (isinstance(lb, EnumV) and list(lb.variants) == [0]):
                    ok6 = False
        rep.ob("C08.2", "no-block2-forgets-preference", ok6 and n6 > 0,
               "a request without a Block2 option leaves an earlier request's Block2 value remembered in the per-key state: "
               "the next reply is fragmented from a stale block number / size (paths: %d)" % n6, site2,
               sample={"rule": "C08.2", "paths_without_block2": n6})
        rep.ob("C08.3", "served=>handled", ok3 and n_served > 0,
               "a follow-up block served from the cache is still passed to the application (Ok(false))", site2,
               sample={"rule": "C08.3", "served_paths": n_served})
        rep.ob("C08.2", "release-iff-last", ok4, "the cache entry is not released exactly when the served block was the last one", site2)
        # the reply must carry Block2 by replacement
        opts = [e for e in tr2.events + tr.events if e[0] == "option" and e[2] == "Block2"]
        rep.ob("C08.4", "block2-replaced", bool(opts) and all(e[1] in ("set_options_as", "set_option") for e in opts),
               "the Block2 option of a served block is appended instead of replacing the cached reply's (calls: %s)" % sorted(set(e[1] for e in opts)), site2)
        # ------------------------------------------------ option echo
        clone = None
        for bb in serve["blocks"]:
            t = bb["term"]
            if t["k"] == "call" and not bb["cleanup"]:
                r = t.get("resolved") or {}
                if r.get("local") and r.get("id") in prog.bodies:
                    cb = prog.bodies[r["id"]]
                    tys = [prog.types[cb["locals"][i + 1]["ty"]]["s"] for i in range(cb["arg_count"])]
                    if tys == ["&mut packet::Packet", "&packet::Packet"]:
                        clone = cb
        if clone is None:
            rep.missing("C08.4", "the function copying the cached reply into the live reply")
        else:
            I = new_interp(prog)
            gargs = (("param", "Endpoint"),)
            st = State()
            subst = prog.body_subst(clone, gargs)
            cargs = [I.mat(st, prog.ty(clone["locals"][i + 1]["ty"], subst), "a%d" % i) for i in range(clone["arg_count"])]
            bad, n_items, n_sets = [], [0], [0]
            src_opts = []

            def chook(I_, s, call, cbody):
                p = call.path
                if "btree::map::Iter" in p and p.endswith("::next"):
                    s.ghost.pop(("inj", "item-open"), None)
                    s.ghost.pop("echoed", None)
                    n_items[0] += 1
                elif p == "packet::Packet::options" or p.endswith("BTreeMap::<K, V, A>::iter"):
                    a = call.args[0]
                    src_opts.append(a.place.key if isinstance(a, RefV) else None)
                elif p in ("packet::Packet::set_option", "packet::Packet::add_option") and isinstance(call.args[0], RefV) \
                        and isinstance(cargs[0], RefV) and call.args[0].place.key == cargs[0].place.key:
                    v = call.args[2] if len(call.args) > 2 else None
                    if p.endswith("set_option") and isinstance(v, OpaqueV) and v.get("clone_of") is not None:
                        s.ghost["echoed"] = True
                        n_sets[0] += 1
            I.call_hooks.append(chook)

            def lhook(I_, ctx, h, head, backs, exits):
                if ctx.body["id"] != clone["id"]:
                    return
                for b_ in backs:
                    if b_.ghost.get(("inj", "item-open")) and not b_.ghost.get("echoed"):
                        bad.append({"file": clone["span"]["f"], "line": clone["span"]["l"], "fn": clone["path"]})
            I.loop_hooks.append(lhook)
            I.no_join_bodies.add(clone["id"])
            I.unroll_max_blocks = 0
            I, cres = run(prog, clone, args=cargs, st=st, I=I, gargs=gargs)
            from_src = bool(src_opts) and isinstance(cargs[1], RefV) and all(k == cargs[1].place.key for k in src_opts)
            ok = not bad and n_items[0] > 0 and n_sets[0] > 0 and from_src
            rep.ob("C08.4", "option-echo", ok,
                   "the cached reply's options are not all copied into each served block: some option entry of the cached reply can be passed over "
                   "without set_option(number, values.clone()) on the live reply (items iterated: %d, copies: %d, skipping paths: %d)" % (n_items[0], n_sets[0], len(bad)),
                   {"file": clone["span"]["f"], "line": clone["span"]["l"], "fn": clone["path"]},
                   sample={"rule": "C08.4", "iterated": n_items[0], "copied": n_sets[0], "skipping_paths": len(bad)})
        # ------------------------------------------------ C08.5 first block never 4.00
        def setup(tr_, I, st):
            pass
        I = new_interp(prog)
        from rules.c13 import bv_invariant
        I.type_invariants[BV] = bv_invariant
        gargs = (("param", "Endpoint"),)
        st = State()
        subst = prog.body_subst(serve, gargs)
        args = [I.mat(st, prog.ty(serve["locals"][i + 1]["ty"], subst), "a%d" % i) for i in range(serve["arg_count"])]
        bvi = [i for i in range(serve["arg_count"]) if prog.types[serve["locals"][i + 1]["ty"]]["s"] == BV]
        if not bvi:
            rep.missing("C08.5", "block value argument of %s" % serve["path"])
        else:
            bvv = args[bvi[0]]
            ni = blockutil.idx(prog, BV, "num")
            fs = list(bvv.fields)
            fs[ni] = IntV(Aff.const(0), (16, False))
            args[bvi[0]] = StructV(fs)
            bad = []

            def hook(I_, s, call, cbody):
                if call.path == "error::HandlingError::bad_request":
                    bad.append(call.site)
            I.call_hooks.append(hook)
            I, res = run(prog, serve, args=args, st=st, I=I, gargs=gargs)
            rep.ob("C08.5", "first-block-not-4.00", not bad,
                   "a request for block 0 can be answered 4.00 Bad Request (an empty body yields no chunk): the first block of a transfer must always be served",
                   {"file": serve["span"]["f"], "line": bad[0]["line"] if bad else serve["span"]["l"], "fn": serve["path"]},
                   sample={"rule": "C08.5", "bad_request_reachable_with_num_0": bool(bad)})
