"""C07 - prepared responses are correlated with their request."""
from harness import *
from absdom import Aff
import bitprov
from rules.c05 import REG

LEVEL = "other"
EXPLANATION = ("CoapResponse::new is evaluated abstractly once per message type (type bits fixed, all other request "
               "state unconstrained): a response exists iff the type is CON/NON, its type bits are ACK for CON and NON "
               "for NON, version bits 01, code 2.05, message id = the request's symbol, token = a copy of the request "
               "token, options empty, payload empty; the set of request fields ever materialised (read) must be within "
               "{type bits byte, message id, token}; from_packet wires response/message/source; apply_from_error "
               "returns true only with a response and a code, writes only code / Content-Format / payload on that path "
               "and nothing otherwise; apply_from_error reports failure only without a reply or without a code (third entry shape: reply prepared, any code)")
NOT_DECIDED = "Not decided: nothing material."
ASSUMPTIONS = ["request token of 0-8 bytes (the property's stated domain; set_token asserts a 4-bit length)"]

MT = REG["message_types"]


def fidx(prog, adt, name):
    for i, f in enumerate(prog.adts[adt]["variants"][0]["fields"]):
        if f["name"] == name:
            return i
    return None


def check(env, rep, tier):
    include(rep, env, tier, "c19", ("C19.3",), "C07.7",
            "'an error reply carries ... the text/plain content format': the reply may already carry a Content-Format when the error is applied, "
            "so the setter apply_from_error relies on has to replace whatever is there")
    configs = ["default"] if tier == "quick" else ["default", "nodefault"]
    rep.configs = configs
    for cfg in configs:
        prog = env.prog(cfg)
        new = find_body(prog, "response::CoapResponse::new")
        if new is None:
            rep.missing("C07.1", "CoapResponse::new")
            continue
        P = {n: fidx(prog, "packet::Packet", n) for n in ("header", "token", "options", "payload")}
        H = {n: fidx(prog, "header::Header", n) for n in ("ver_type_tkl", "code", "message_id")}
        mcv = [v["name"] for v in prog.adts["header::MessageClass"]["variants"]]
        rtv = [v["name"] for v in prog.adts["header::ResponseType"]["variants"]]
        site = {"file": new["span"]["f"], "line": new["span"]["l"], "fn": new["path"]}
        for tname, tnum in MT.items():
            I = new_interp(prog)
            I.no_join_bodies.add(new["id"])
            st = State()
            req = I.mat(st, prog.ty(new["locals"][1]["ty"]), "request")
            pty = prog.ty(new["locals"][1]["ty"])[2]
            I.ensure(st, req.place, pty, "request")
            hp = req.place.extend(("f", P["header"]))
            I.ensure(st, hp, I.field_types(pty)[P["header"]], "request.header")
            # first header byte: type bits fixed, everything else unknown
            o = I.fresh(st, "hdr0", 0, 255)
            bits = tuple(("b", o, i) if i not in (4, 5) else ((tnum >> (i - 4)) & 1) for i in range(8))
            b0 = I.from_bits(st, bits, (8, False), "hdr")
            I.write(st, hp.extend(("f", H["ver_type_tkl"])), b0)
            tok = I.ensure(st, req.place.extend(("f", P["token"])), I.field_types(pty)[P["token"]], "request.token")
            st.add_fact(Aff.const(REG["header"]["max_token_length"]) - tok.len)
            I, res = run(prog, new, args=[req], st=st, I=I)
            report_obligations(rep, "C07.1", I)
            want_some = tname in ("Confirmable", "NonConfirmable")
            kinds = set()
            for s, rv in res:
                if isinstance(rv, EnumV):
                    kinds.update(rv.variants)
            rep.ob("C07.1", "exists|%s" % tname, kinds == ({1} if want_some else {0}),
                   "for a %s request CoapResponse::new returns %s, expected %s" % (tname, sorted(kinds), "Some" if want_some else "None"), site,
                   sample={"rule": "C07.1", "request_type": tname, "result": "Some" if kinds == {1} else "None" if kinds == {0} else str(kinds)})
            if not want_some:
                continue
            want_t = MT["Acknowledgement"] if tname == "Confirmable" else MT["NonConfirmable"]
            for s, rv in res:
                if not (isinstance(rv, EnumV) and 1 in rv.variants):
                    continue
                resp = rv.variants[1].fields[0]
                pkt = resp.fields[0] if isinstance(resp, StructV) else None
                if not isinstance(pkt, StructV):
                    rep.ob("C07.1", "shape|%s" % tname, False, "cannot establish: response packet not tracked", site)
                    continue
                h = pkt.fields[P["header"]]
                bits = bitprov.resolve_bits(I, s, h.fields[H["ver_type_tkl"]], 8) if isinstance(h.fields[H["ver_type_tkl"]], IntV) else None
                tb = (bits[4], bits[5]) if bits else None
                rep.ob("C07.1", "type|%s" % tname, tb == (want_t & 1, want_t >> 1),
                       "response to a %s request has type bits %r, expected %d" % (tname, tb, want_t), site)
                rep.ob("C07.2", "version|%s" % tname, bool(bits) and bits[6] == 1 and bits[7] == 0, "response version bits are not 01", site)
                tk = pkt.fields[P["token"]]
                tklbits = bits[:4] if bits else None
                # token length nibble = len of the token vector
                code = h.fields[H["code"]]
                okc = isinstance(code, EnumV) and list(code.variants) == [mcv.index("Response")] and isinstance(code.variants[mcv.index("Response")].fields[0], EnumV) \
                    and list(code.variants[mcv.index("Response")].fields[0].variants) == [rtv.index("Content")]
                rep.ob("C07.3", "code|%s" % tname, okc, "prepared response code is not 2.05 Content", site)
                req_h = I.read(s, hp)
                req_mid = req_h.fields[H["message_id"]] if isinstance(req_h, StructV) else None
                mid = h.fields[H["message_id"]]
                rep.ob("C07.3", "message_id|%s" % tname, isinstance(mid, IntV) and isinstance(req_mid, IntV) and mid.aff == req_mid.aff,
                       "prepared response does not carry the request's message id (%r vs %r)" % (mid, req_mid), site)
                okt = isinstance(tk, VecV) and isinstance(tk.tag, tuple) and tk.tag[0] == "copy" and tk.len == tok.len \
                    and isinstance(tk.tag[1], tuple) and tk.tag[1][0] == "vec" and tk.tag[1][1] == req.place.extend(("f", P["token"]))
                rep.ob("C07.3", "token|%s" % tname, okt, "prepared response token is not a copy of the request token (%r)" % (tk,), site)
                # the token length nibble of the reply header says how many token bytes follow the header on the wire
                lsym = bitprov.sym_of(IntV(tk.len, (64, False))) if isinstance(tk, VecV) and tk.len.single() else None
                okl = False
                if tklbits and isinstance(tk, VecV):
                    if tk.len.is_const():
                        okl = all(b == ((tk.len.c >> i) & 1) for i, b in enumerate(tklbits))
                    elif lsym is not None:
                        okl = bitprov.field_of(tuple(tklbits), lsym) == {0: 0, 1: 1, 2: 2, 3: 3}
                rep.ob("C07.3", "token-length|%s" % tname, okl,
                       "the token length field of the prepared response header is not the length of the token it carries (bits %r): "
                       "the token bytes would be parsed as options by the peer" % (tklbits,), site)
                opts = pkt.fields[P["options"]]
                rep.ob("C07.4", "no-options|%s" % tname, isinstance(opts, OpaqueV) and bool(opts.get("empty")),
                       "prepared response does not start with an empty option map (%r)" % (opts,), site)
                pl = pkt.fields[P["payload"]]
                rep.ob("C07.4", "no-payload|%s" % tname, isinstance(pl, VecV) and pl.len == Aff.const(0),
                       "prepared response does not start with an empty payload (%r)" % (pl,), site)
                # read set of the request
                rq = I.read(s, req.place)
                read = set()
                for nm, i in P.items():
                    v = rq.fields[i]
                    if nm == "header":
                        for hn, hi in H.items():
                            if not isinstance(v.fields[hi], TopV):
                                read.add("header." + hn)
                    elif not isinstance(v, TopV):
                        read.add(nm)
                allowed = {"header.ver_type_tkl", "header.message_id", "token"}
                rep.ob("C07.4", "read-set|%s" % tname, read <= allowed,
                       "CoapResponse::new reads request fields %s beyond %s (request content could be echoed)" % (sorted(read - allowed), sorted(allowed)), site,
                       sample={"rule": "C07.4", "request_type": tname, "read_set": sorted(read)})
        # ---- C07.5 from_packet
        fp = find_body(prog, "request::CoapRequest::<Endpoint>::from_packet")
        if fp is None:
            rep.missing("C07.5", "CoapRequest::from_packet")
        else:
            I = new_interp(prog)
            gargs = (("param", "Endpoint"),)
            st = State()
            subst = prog.body_subst(fp, gargs)
            args = [I.mat(st, prog.ty(fp["locals"][i + 1]["ty"], subst), "a%d" % i) for i in range(fp["arg_count"])]
            seen = []

            def hook(I_, s, call, cbody):
                if call.path == "response::CoapResponse::new" and call.ctx.depth == 0:
                    seen.append(call.args[0])
            I.call_hooks.append(hook)
            I.max_depth = 0
            made = []

            def m_resp_new(I_, s_, call):
                # whatever CoapResponse::new decides (C07.1-4) is what the request gets: its result is a marker here
                v = OpaqueV(call.dest_ty, (("prepared_for", len(made)),))
                made.append(v)
                return [(s_, v)]
            I.extra_models["response::CoapResponse::new"] = m_resp_new
            I, res = run(prog, fp, args=args, st=st, I=I, gargs=gargs)
            R = {n: fidx(prog, "request::CoapRequest", n) for n in ("message", "response", "source")}
            ok = bool(res) and len(seen) == 1
            for s, rv in res:
                if not isinstance(rv, StructV):
                    ok = False
                    continue
                # ... on every path: no second opinion on when a reply is prepared
                if not (made and rv.fields[R["response"]] in made):
                    ok = False
                src = rv.fields[R["source"]]
                if not (isinstance(src, EnumV) and list(src.variants) == [1] and src.variants[1].fields[0] == args[1]):
                    ok = False
                if rv.fields[R["message"]] != args[0]:
                    ok = False
            site5 = {"file": fp["span"]["f"], "line": fp["span"]["l"], "fn": fp["path"]}
            rep.ob("C07.5", "from_packet", ok, "from_packet does not produce {response: CoapResponse::new(&packet), message: packet, source: Some(source)}", site5)
        # ---- C07.6 apply_from_error
        af = find_body(prog, "request::CoapRequest::<Endpoint>::apply_from_error")
        if af is None:
            rep.missing("C07.6", "CoapRequest::apply_from_error")
        else:
            ok_true = ok_false = True
            n_true = 0
            cf_calls = []
            n_pinned = bad_pinned = 0
            for entry_variant, pin_code in ((1, False), (0, False), (1, True)):
                I = new_interp(prog)
                I.no_join_bodies.add(af["id"])
                gargs = (("param", "Endpoint"),)
                st = State()
                subst = prog.body_subst(af, gargs)
                a0 = I.mat(st, prog.ty(af["locals"][1]["ty"], subst), "self")
                err = I.mat(st, prog.ty(af["locals"][2]["ty"], subst), "error")
                if isinstance(err, StructV):
                    err = StructV([I.mat(st, f.ty, "error.%d" % i) if isinstance(f, TopV) else f for i, f in enumerate(err.fields)])
                    ci_ = fidx(prog, "error::HandlingError", "code")
                    cv_ = err.fields[ci_] if ci_ is not None else None
                    if pin_code and isinstance(cv_, EnumV) and 1 in cv_.variants:
                        # third shape: a reply is prepared and the error carries a code (any ResponseType): failure may not be reported
                        fl = list(err.fields)
                        fl[ci_] = EnumV(cv_.path, {1: cv_.variants[1]}, cv_.ty)
                        err = StructV(fl)
                    elif pin_code:
                        continue
                R = {n: fidx(prog, "request::CoapRequest", n) for n in ("message", "response", "source")}
                rty = prog.ty(af["locals"][1]["ty"], subst)[2]
                I.ensure(st, a0.place, rty, "self")
                respv = I.ensure(st, a0.place.extend(("f", R["response"])), I.field_types(rty)[R["response"]], "self.response")
                # materialise the prepared reply's correlation fields so that any write to them is visible
                if isinstance(respv, EnumV):
                    rp = a0.place.extend(("f", R["response"]), ("v", 1))
                    crt = I.field_types(rty)[R["response"]][2][0]
                    I.write(st, a0.place.extend(("f", R["response"])), EnumV(respv.path, {0: StructV([]), 1: StructV([I.mat(st, crt, "reply")])}, respv.ty))
                    mp = rp.extend(("f", 0), ("f", 0))
                    pkt_ty = I.field_types(crt)[0]
                    I.ensure(st, mp, pkt_ty, "reply.message")
                    I.ensure(st, mp.extend(("f", P["header"])), I.field_types(pkt_ty)[P["header"]], "reply.header")
                    corr0 = (I.ensure(st, mp.extend(("f", P["header"]), ("f", H["ver_type_tkl"])), ("int", 8, False), "reply.b0"),
                             I.ensure(st, mp.extend(("f", P["header"]), ("f", H["message_id"])), ("int", 16, False), "reply.mid"),
                             I.ensure(st, mp.extend(("f", P["token"])), I.field_types(pkt_ty)[P["token"]], "reply.token"))
                else:
                    corr0 = None
                # one run per shape of the entry state: a reply is prepared / no reply
                cur = I.read(st, a0.place.extend(("f", R["response"])))
                if isinstance(cur, EnumV):
                    I.write(st, a0.place.extend(("f", R["response"])), EnumV(cur.path, {entry_variant: cur.variants.get(entry_variant) or StructV([])}, cur.ty))
                before = I.read(st, a0.place)

                def hook6(I_, s, call, cbody):
                    if call.path == "packet::Packet::set_content_format":
                        cf_calls.append(call.args[1])
                        s.ghost[("inj", "cf")] = True
                I.call_hooks.append(hook6)
                I, res = run(prog, af, args=[a0, err], st=st, I=I, gargs=gargs)
                site6 = {"file": af["span"]["f"], "line": af["span"]["l"], "fn": af["path"]}
                E = {n: fidx(prog, "error::HandlingError", n) for n in ("code", "message")}
                for s, rv in res:
                    rv = I.as_int(s, rv, (1, False), "ret")
                    after = I.read(s, a0.place)
                    resp = after.fields[R["response"]]
                    if pin_code:
                        n_pinned += 1
                        if rv.aff != Aff.const(1):
                            bad_pinned += 1
                        continue
                    if rv.aff == Aff.const(1):
                        n_true += 1
                        if entry_variant == 0:
                            ok_true = False     # success reported although there is no reply to apply the error to
                        code = err.fields[E["code"]] if isinstance(err, StructV) else None
                        good = isinstance(resp, EnumV) and list(resp.variants) == [1]
                        if good:
                            pkt = resp.variants[1].fields[0].fields[0]
                            h = pkt.fields[P["header"]]
                            c = h.fields[H["code"]]
                            good = isinstance(c, EnumV) and list(c.variants) == [mcv.index("Response")]
                            pl = pkt.fields[P["payload"]]
                            em = err.fields[E["message"]]
                            good = good and isinstance(pl, VecV) and isinstance(em, VecV) and pl.len == em.len
                            good = good and bool(s.ghost.get(("inj", "cf")))
                            # correlation fields of the reply are left alone
                            good = good and corr0 is not None and h.fields[H["ver_type_tkl"]] == corr0[0] \
                                and h.fields[H["message_id"]] == corr0[1] and pkt.fields[P["token"]] == corr0[2]
                            # message (request) untouched, correlation fields untouched
                            good = good and after.fields[R["message"]] == before.fields[R["message"]]
                        if not good:
                            ok_true = False
                    elif rv.aff == Aff.const(0):
                        # reporting failure leaves the request and the prepared reply exactly as they were
                        if after != before:
                            ok_false = False
                        # nothing written: compare packet payload/code if a response exists
                        if s.ghost.get(("inj", "cf")):
                            ok_false = False
                    else:
                        ok_true = ok_false = False
            # who may touch the reply: besides the three direct stores, set_content_format is the only callee handed the packet
            touch = []

            def collect_touch(fb, depth=0):
                for bb in fb["blocks"]:
                    t = bb["term"]
                    if t["k"] != "call" or bb.get("cleanup"):
                        continue
                    c = t.get("resolved") or t.get("callee") or {}
                    atys = []
                    for a_ in t["args"]:
                        if a_["k"] in ("copy", "move") and not a_["place"]["p"]:
                            atys.append(prog.types[fb["locals"][a_["place"]["l"]]["ty"]]["s"])
                    if any(x in ("&mut packet::Packet", "&mut response::CoapResponse") for x in atys) and c.get("path") not in ("packet::Packet::set_content_format", "response::CoapResponse::set_status"):   # set_status: code only (C19.2)
                        # a private helper of the request / response types that was handed the reply is looked into
                        # (the semantic rule above has executed it; here: whom does it hand the reply on to)
                        cb = prog.bodies.get(c.get("id")) if c.get("local") else None
                        if cb is not None and depth < 2 and cb["path"].startswith(("response::CoapResponse::", "request::CoapRequest::")) and not cb.get("pub_api"):
                            collect_touch(cb, depth + 1)
                        else:
                            touch.append(c.get("path"))
            collect_touch(af)
            for x in reachable(prog, af):
                if x["id"] != af["id"] and x["path"].startswith(af["path"] + "::{closure"):
                    collect_touch(x)
            rep.ob("C07.6", "touches-only", not touch,
                   "apply_from_error hands the reply to %s: more than the code, the diagnostic payload and the content format can change "
                   "(options the handler had set are lost or altered)" % touch, site6)
            rep.ob("C07.6", "true-path", ok_true and n_true >= 1,
                   "apply_from_error: a path returning true does not (only) set code := Response(error.code), Content-Format and payload := error.message on an existing response", site6)
            rep.ob("C07.6", "failure-only-without-reply-or-code", n_pinned >= 1 and bad_pinned == 0,
                   "apply_from_error: with a reply prepared and an error that carries a code (of any ResponseType), %d of %d paths do not report success: "
                   "failure is reported although there is a response and a code to apply" % (bad_pinned, n_pinned), site6)
            rep.ob("C07.6", "false-path", ok_false, "apply_from_error: a path returning false modifies the reply", site6)
            okcf = bool(cf_calls) and all(isinstance(v, EnumV) and [prog.adts["packet::ContentFormat"]["variants"][k]["name"] for k in v.variants] == ["TextPlain"] for v in cf_calls)
            rep.ob("C07.6", "content-format", okcf, "apply_from_error does not mark the diagnostic payload as text/plain", site6)
