"""C17 - the link-format parser is total: panic-free slicing and arithmetic
for every &str, every loop consumes input, nothing after the first error,
only substrings of the input are yielded."""
from harness import *
from absdom import Aff

LEVEL = "other"
EXPLANATION = ("abstract interpretation of the three parsing iterators' next(), Unquote::{to_cow,is_quoted}, Display for "
               "Unquote and the Cow conversion for an arbitrary &str: every str slicing (range within length AND on a "
               "char boundary), split_at, subtraction of string addresses and arithmetic is an obligation; every loop "
               "must advance the character cursor on each back edge; every path yielding Some(Err) must leave the "
               "parser empty and an empty parser must yield None; every &str yielded must point into the input object")
NOT_DECIDED = "Not decided: to_cow == to_string as a value equality (only its panic / slicing part)."
ASSUMPTIONS = ["lemma (Chars cursor): Chars::as_str() of an iterator over s, advanced only by next(), is a suffix of s that starts on a char boundary; every &str's end points are char boundaries; str::find returns a boundary and, for a one-byte pattern, the byte after it is one too"]

ENTRIES = [
    ("<link_format::LinkFormatParser<'a> as core::iter::traits::iterator::Iterator>::next", "parser"),
    ("<link_format::LinkAttributeParser<'a> as core::iter::traits::iterator::Iterator>::next", "attr"),
    ("<link_format::Unquote<'_> as core::iter::traits::iterator::Iterator>::next", "unquote"),
    ("link_format::Unquote::<'a>::to_cow", "to_cow"),
    ("link_format::Unquote::<'a>::is_quoted", "is_quoted"),
    ("<link_format::Unquote<'_> as core::fmt::Display>::fmt", "display"),
    ("link_format::<impl core::convert::From<link_format::Unquote<'a>> for alloc::borrow::Cow<'a, str>>::from", "cow_from"),
]


def str_slices(v, out):
    if isinstance(v, SliceV):
        out.append(v)
    elif isinstance(v, StructV):
        for f in v.fields:
            str_slices(f, out)
    elif isinstance(v, EnumV):
        for p in v.variants.values():
            if p is not None:
                str_slices(p, out)


def check(env, rep, tier):
    configs = ["default"] if tier == "quick" else ["default", "nodefault"]
    rep.configs = configs
    for cfg in configs:
        prog = env.prog(cfg)
        nsites = 0
        for path, kind in ENTRIES:
            body = find_body(prog, path)
            if body is None:
                rep.missing("C17.1", path)
                continue
            I = new_interp(prog)
            I.no_join_bodies.add(body["id"])
            I.K_ret = 8
            loops = []

            def loop_hook(I_, ctx, h, head, backs, exits, loops=loops):
                # a character cursor (the pos attribute of a Chars iterator, or a str offset) advances on every back edge
                leaves = dict(I_.int_leaves(head))
                found = False
                for name, aff in leaves.items():
                    if name[-1] not in (("attr", "pos"), ("soff",)) or aff.is_const():
                        continue
                    ok = bool(backs)
                    for b in backs:
                        nv = dict(I_.int_leaves(b, keys=[name[0]])).get(name)
                        if nv is None or not b.entails(nv - aff - 1):
                            ok = False
                            break
                    if ok:
                        found = True
                        break
                if not found and not ctx.body["path"].endswith("::next"):
                    # a loop that merely drives one of the crate's own character iterators (`for c in unquote { .. }`): it ends
                    # when that iterator does, and the iterator's progress is judged on its `next` (loops there, C16.6 / C17.7)
                    for b_ in ctx.info.loops.get(h, ()):
                        t_ = ctx.body["blocks"][b_]["term"]
                        if t_["k"] == "call" and not ctx.body["blocks"][b_].get("cleanup"):
                            p_ = (t_.get("resolved") or {}).get("path", "") or ""
                            if p_.startswith("<link_format::") and p_.endswith("core::iter::traits::iterator::Iterator>::next"):
                                found = True
                loops.append((ctx.body["path"], h, found))
            I.loop_hooks.append(loop_hook)
            st = State()
            args = top_args(prog, body)
            a0 = I.mat(st, args[0].ty, "self")
            args[0] = a0
            in_base = None
            if kind in ("parser", "attr") and isinstance(a0, RefV):
                sv = I.ensure(st, a0.place, args and prog.ty(body["locals"][1]["ty"])[2], "self")
                if isinstance(sv, StructV) and sv.fields:
                    inner = I.ensure(st, a0.place.extend(("f", 0)), None, "self.inner")
                    if isinstance(inner, TopV):
                        fts = I.field_types(prog.ty(body["locals"][1]["ty"])[2])
                        inner = I.ensure(st, a0.place.extend(("f", 0)), fts[0], "self.inner")
                    if isinstance(inner, SliceV):
                        in_base = inner.base
            I, res = run(prog, body, args=args, st=st, I=I)
            obs = report_obligations(rep, "C17.1", I)
            nsites += len(obs)
            for fn, h, found in loops:
                rep.ob("C17.2", "%s|loop" % fn, found,
                       "cannot establish that the loop at bb%d of %s consumes at least one character per iteration" % (h, fn),
                       sample={"rule": "C17.2", "fn": fn, "loop_head_bb": h, "cursor_advances": found})
            if kind == "to_cow":
                # the borrowed form ends at the FIRST closing quote (what the character iterator does)
                firsts, others, starts = 0, [], []
                raw_offs = []
                a0v = args[0] if args else None
                if isinstance(a0v, RefV):
                    def _offs(v, d=0):
                        if isinstance(v, SliceV):
                            raw_offs.append(v.off)
                        elif isinstance(v, OpaqueV) and v.get("iter") == "chars" and isinstance(v.get("start"), Aff):
                            raw_offs.append(v.get("start"))
                        elif isinstance(v, StructV) and d < 3:
                            for f in v.fields:
                                _offs(f, d + 1)
                    _offs(I.read(st, a0v.place))
                for s, rv in res:
                    if isinstance(rv, EnumV) and 0 in rv.variants and isinstance(rv.variants[0], StructV) and rv.variants[0].fields:
                        sl = rv.variants[0].fields[0]
                        if isinstance(sl, SliceV):
                            for sym, _ in sl.len.t:
                                inf = I.syminfo.get(sym)
                                if inf and inf[0] == "found_ascii":
                                    if len(inf) > 4 and inf[4] == "find" and inf[3] == ord('"'):
                                        firsts += 1
                                        # ... and starts right behind the opening quote: exactly one character is dropped
                                        # (a second leading quote is the closing one: the value is empty)
                                        sg_ = sl.off.single()
                                        starts.append(any(s.entails_eq(sl.off, o_ + 1) or s.entails_eq(sl.off, o_) for o_ in raw_offs)
                                                      or (sg_ is not None and sg_[1] == 1 and sg_[2] in (0, 1) and str(sg_[0]).startswith("pos")))
                                    else:
                                        others.append(inf[4] if len(inf) > 4 else "?")
                rep.ob("C17.5", "to_cow|one-opening-quote", bool(starts) and all(starts),
                       "to_cow does not take the text of a quoted value from right behind its first quote (more than one leading quote is stripped, "
                       "or none): it differs from the character iterator for values like \"\"a", {"file": body["span"]["f"], "line": body["span"]["l"], "fn": path})
                rep.ob("C17.5", "to_cow|first-closing-quote", firsts >= 1 and not others,
                       "to_cow does not cut a quoted value at the first closing quote (search used: %s): it differs from the character iterator when text with another quote follows" % (others or "none"),
                       {"file": body["span"]["f"], "line": body["span"]["l"], "fn": path},
                       sample={"rule": "C17.5", "paths_cut_at_first_quote": firsts, "other_searches": others})
            if kind == "to_cow":
                check_cow_escape_free(prog, rep, body, path)
            if kind in ("parser", "attr") and in_base is not None:
                for s, rv in res:
                    # C17.4 substrings
                    sl = []
                    str_slices(rv, sl)
                    # every text piece an item hands out is tracked: an item is (text, ...) - two pieces for an attribute
                    # (key and raw value) and for a link (target and its attribute text); a piece that is not a known
                    # slice (e.g. looked up in a table of constants) is not shown to come from the input
                    is_item = isinstance(rv, EnumV) and list(rv.variants) == [1] and not (
                        isinstance(rv.variants[1], StructV) and rv.variants[1].fields and isinstance(rv.variants[1].fields[0], EnumV)
                        and list(rv.variants[1].fields[0].variants) == [1])
                    def chars_pieces(v):
                        # (a character cursor over a piece of the input - Unquote keeps its value that way)
                        if isinstance(v, OpaqueV) and v.get("iter") == "chars":
                            b_ = v.get("base")
                            empty_const = isinstance(b_, tuple) and b_ and b_[0] == "const" and (v.get("start") == v.get("end") or (len(b_) > 1 and b_[1] == ""))
                            return 1 if (b_ == in_base or empty_const) else 0
                        if isinstance(v, StructV):
                            return sum(chars_pieces(f) for f in v.fields)
                        if isinstance(v, EnumV):
                            return sum(chars_pieces(p_) for p_ in v.variants.values() if p_ is not None)
                        return 0
                    n_pieces = len(sl) + chars_pieces(rv)
                    if is_item:
                        rep.ob("C17.4", "%s|pieces-tracked" % path, n_pieces >= 2,
                               "%s yields an item with %d tracked text piece(s), expected 2: some text it hands out is not shown to be a slice of the input" % (path, n_pieces),
                               {"file": body["span"]["f"], "line": body["span"]["l"], "fn": path})
                    for x in sl:
                        ok = x.base == in_base or (isinstance(x.base, tuple) and x.base[0] == "const" and x.len == Aff.const(0)) \
                            or (isinstance(x.base, tuple) and x.base[0] == "const" and s.entails_eq(x.len, Aff.const(0)))
                        rep.ob("C17.4", "%s|substring" % path, ok,
                               "%s yields a &str that is not shown to be a slice of the input (base %r)" % (path, x.base),
                               {"file": body["span"]["f"], "line": body["span"]["l"], "fn": path})
                    # C17.3 fused after an error
                    if kind == "parser" and isinstance(rv, EnumV) and 1 in rv.variants:
                        item = rv.variants[1].fields[0] if isinstance(rv.variants[1], StructV) else None
                        if isinstance(item, EnumV) and 1 in item.variants:
                            after = I.read(s, a0.place.extend(("f", 0)))
                            ok = isinstance(after, SliceV) and s.entails_eq(after.len, Aff.const(0))
                            rep.ob("C17.3", "%s|err-empties" % path, ok,
                                   "%s can return Some(Err(..)) without emptying the parser: more items may follow the first error" % path,
                                   {"file": body["span"]["f"], "line": body["span"]["l"], "fn": path})
            if kind in ("parser", "attr"):
                # an empty parser yields None
                I2 = new_interp(prog)
                st2 = State()
                a = I2.mat(st2, prog.ty(body["locals"][1]["ty"]), "self")
                I2.ensure(st2, a.place, prog.ty(body["locals"][1]["ty"])[2], "self")
                fts = I2.field_types(prog.ty(body["locals"][1]["ty"])[2])
                inner = I2.ensure(st2, a.place.extend(("f", 0)), fts[0], "self.inner")
                if isinstance(inner, SliceV):
                    st2.add_eq(inner.len, Aff.const(0))
                I2, res2 = run(prog, body, args=[a], st=st2, I=I2)
                ok = bool(res2) and all(isinstance(rv, EnumV) and list(rv.variants) == [0] for s, rv in res2)
                rep.ob("C17.3", "%s|empty=>None" % path, ok, "%s on an empty parser can yield something other than None" % path,
                       {"file": body["span"]["f"], "line": body["span"]["l"], "fn": path})
        if cfg == "default":
            rep.floor("C17.1", "panic-capable sites analysed in the link-format parser", nsites, 6)
    include(rep, env, tier, "c16", ("C16.6",), "C17.7",
            "'to_cow and the character iterator agree': to_cow is checked against the quoted-string grammar (C17.5-6), so the "
            "character iterator has to follow the same grammar from each of its states - leading quote swallowed, ends at the first unescaped quote")


def check_cow_escape_free(prog, rep, body, path):
    """C17.6: for a quoted value the borrowed form of to_cow is handed out only on paths where a search for the
    escape character over a region covering the returned slice came back empty (the character iterator removes
    every backslash, so a borrowed slice containing one differs from it)"""
    a = prog.adts.get("link_format::Unquote")
    sa = prog.adts.get("link_format::UnquoteState")
    si = [i for i, f in enumerate(a["variants"][0]["fields"]) if f["name"] == "state"] if a else []
    if not (si and sa):
        rep.missing("C17.6", "Unquote.state")
        return
    bad, n_quoted = [], 0
    for vi, vd in enumerate(sa["variants"]):
        if vd["name"] == "NotQuoted":
            continue
        I = new_interp(prog)
        I.no_join_bodies.add(body["id"])
        I.no_join_prefixes = ("link_format::Unquote",)
        st = State()
        a0 = I.mat(st, prog.ty(body["locals"][1]["ty"]), "self")
        I.ensure(st, a0.place, prog.ty(body["locals"][1]["ty"])[2], "self")
        I.write(st, a0.place.extend(("f", si[0])), EnumV("link_format::UnquoteState", {vi: StructV([])}, None))
        I, res = run(prog, body, args=[a0], st=st, I=I)
        for s, rv in res:
            if not (isinstance(rv, EnumV) and list(rv.variants) == [0] and isinstance(rv.variants[0], StructV) and rv.variants[0].fields):
                continue
            sl = rv.variants[0].fields[0]
            if not isinstance(sl, SliceV):
                bad.append("borrowed result not tracked")
                continue
            quoted = vd["name"] == "Quoted" or ("boundary", sl.base) in s.ghost
            if not quoted:
                continue
            n_quoted += 1
            cover = False
            for (b_, off, ln) in s.ghost.get(("absent", 92), ()):
                if b_ == sl.base and s.entails(sl.off - off) and s.entails(off + ln - sl.off - sl.len):
                    cover = True
            if not cover:
                bad.append("state %s: a slice of the raw text is returned although no search showed it free of backslashes" % vd["name"])
    rep.ob("C17.6", "to_cow|borrowed-only-without-escapes", not bad and n_quoted >= 2,
           "to_cow: %s (borrowed quoted paths: %d)" % ("; ".join(sorted(set(bad))[:2]) or "no borrowed path for quoted values found", n_quoted),
           {"file": body["span"]["f"], "line": body["span"]["l"], "fn": path}, sample={"rule": "C17.6", "borrowed_quoted_paths": n_quoted})
