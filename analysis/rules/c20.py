"""C20 - cached block-transfer state lives exactly as long as configured."""
from harness import *

LEVEL = "other"
EXPLANATION = ("the handler's map must be constructed by LruCache::with_expiry_duration (expiry only: no capacity bound, "
               "so load cannot evict) from a copy of the configured cache_expiry_duration; across the whole crate the "
               "only LruCache methods called are entry + Entry::or_insert, the API that purges expired entries and "
               "refreshes the timestamp on every use; no other place holds transfer state (C12.1)")
NOT_DECIDED = ("Not decided: everything involving elapsed time (a runtime quantity); the expiry arithmetic is "
               "lru_time_cache's and is trusted.")
ASSUMPTIONS = ["lru_time_cache: with_expiry_duration has unbounded capacity; entry() removes expired entries and refreshes the accessed one"]

ALLOWED = {"lru_time_cache::LruCache::<Key, Value>::with_expiry_duration",
           "lru_time_cache::LruCache::<Key, Value>::entry",
           "lru_time_cache::Entry::<'a, Key, Value>::or_insert",
           "lru_time_cache::Entry::<'a, Key, Value>::or_insert_with",
           # the two sides of an Entry obtained from entry() (which has refreshed and purged already)
           "lru_time_cache::OccupiedEntry::<'a, Value>::into_mut",
           "lru_time_cache::VacantEntry::<'a, Key, Value>::insert"}


def check(env, rep, tier):
    include(rep, env, tier, "c08", ("C08.7",), "C20.5",
            "'state is kept for the configured duration': with a reply cached for the key every follow-up request is served from it - no second "
            "lifetime (Max-Age of the reply, a freshness deadline) ends the cache before the configured expiry")
    include(rep, env, tier, "c09", ("C09.1",), "C20.4",
            "'a follow-up block after expiry is handled like the first of a new transfer (continues from an empty buffer)': the upload "
            "handler has no test of its own that compares a block's offset with what is buffered - only the bounded splice turns blocks down")
    include(rep, env, tier, "c12", ("C12.1", "C12.2"), "C20.3",
            "'expired state is reclaimed / nothing outlives the configured duration': the expiring cache is the only place the handler keeps "
            "per-transfer state (no second map, static or interior-mutable field beside it that expiry never touches)")
    configs = ["default"] if tier == "quick" else ["default", "udp"]
    rep.configs = configs
    for cfg in configs:
        prog = env.prog(cfg)
        new = find_body(prog, "block_handler::BlockHandler::<Endpoint>::new")
        if new is None:
            rep.missing("C20.1", "BlockHandler::new")
            continue
        site = {"file": new["span"]["f"], "line": new["span"]["l"], "fn": new["path"]}
        I = new_interp(prog)
        gargs = (("param", "Endpoint"),)
        st = State()
        subst = prog.body_subst(new, gargs)
        cfgv = I.mat(st, prog.ty(new["locals"][1]["ty"], subst), "config")
        if isinstance(cfgv, StructV):
            cfgv = StructV([I.mat(st, f.ty, "config.%d" % i) if isinstance(f, TopV) else f for i, f in enumerate(cfgv.fields)])
        dur_i = None
        for i, f in enumerate(prog.adts["block_handler::BlockHandlerConfig"]["variants"][0]["fields"]):
            if f["name"] == "cache_expiry_duration":
                dur_i = i
        I, res = run(prog, new, args=[cfgv], st=st, I=I, gargs=gargs)
        ok = bool(res) and dur_i is not None
        for s, rv in res:
            maps = [f for f in rv.fields if isinstance(f, OpaqueV) and f.get("ctor")] if isinstance(rv, StructV) else []
            if len(maps) != 1:
                ok = False
                continue
            m = maps[0]
            if m.get("ctor") != "with_expiry_duration":
                ok = False
            a = m.get("ctor_args") or ()
            if len(a) != 1 or a[0] != cfgv.fields[dur_i]:
                ok = False
        rep.ob("C20.1", "constructor", ok,
               "the handler's state map is not built by LruCache::with_expiry_duration(config.cache_expiry_duration) "
               "(a capacity-bounded or differently timed cache evicts or keeps transfers contrary to the configuration)", site,
               sample={"rule": "C20.1", "ok": ok})
        # ---- C20.2 API use
        used = {}
        for b in prog.bodies.values():
            if b.get("promoted") or "::tests::" in b["id"] or "::test::" in b["id"]:
                continue
            for bb in b["blocks"]:
                t = bb["term"]
                if t["k"] == "call" and not bb["cleanup"]:
                    p = (t.get("resolved") or t.get("callee") or {}).get("path", "")
                    if p.startswith("lru_time_cache::"):
                        used.setdefault(p, []).append((b["path"], bb["tspan"]["l"], bb["tspan"]["f"]))
        for p, sites in sorted(used.items()):
            rep.ob("C20.2", "api|" + p, p in ALLOWED,
                   "%s is called (in %s): only entry()+or_insert() refresh and purge on every use; peek/get/insert/iteration do not" % (p, sites[0][0]),
                   {"file": sites[0][2], "line": sites[0][1], "fn": sites[0][0]},
                   sample={"rule": "C20.2", "api": p, "sites": len(sites)})
        rep.ob("C20.2", "entry-used", "lru_time_cache::LruCache::<Key, Value>::entry" in used,
               "no LruCache::entry call found: the state lookup mechanism is gone", site)
        rep.floor("C20.2", "entry().or_insert() lookups", len(used.get("lru_time_cache::Entry::<'a, Key, Value>::or_insert", []))
                  + len(used.get("lru_time_cache::Entry::<'a, Key, Value>::or_insert_with", []))
                  + len(used.get("lru_time_cache::VacantEntry::<'a, Key, Value>::insert", [])), 1)
