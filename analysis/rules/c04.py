"""C04 - the serialiser enforces the size limit exactly and stays inside its
buffers."""
from harness import *
from absdom import Aff

LEVEL = "other"
EXPLANATION = ("abstract interpretation of Packet::to_bytes_internal (reached from the three public serialisers) with "
               "affine length tracking: every raw copy / ptr.add / set_len must be inside the capacity reserved for it "
               "and leave no uninitialised byte below the new length; at every Ok return the output length must equal "
               "the value compared with the limit; Err(InvalidPacketLength) iff that value exceeds the limit; the limit "
               "passed by each public entry (1280 / 64000 with udp / the caller's / none); the 16-bit extended length "
               "cast must be lossless; Err(InvalidHeader) unreachable")
NOT_DECIDED = "Not decided: nothing material; trusts the Vec / ptr contracts as modelled."
ASSUMPTIONS = ["lengths of distinct live buffers sum to less than 2^64 (lemma: sum-of-lengths)",
               "BTreeMap::iter yields strictly ascending keys (ghost last-key in the iterator model)"]

INTERNAL = "packet::Packet::to_bytes_internal"


def check(env, rep, tier):
    include(rep, env, tier, "c01", ("C01.4",), "C04.7",
            "'the output has exactly the accounted length': every value in the option map is emitted with the header its true delta and "
            "length need (a stale delta base makes the image shorter than what was compared with the limit)")
    configs = ["default", "udp"] if tier == "quick" else ["default", "nodefault", "udp"]     # MAX_SIZE is feature-dependent: both values on every change
    rep.configs = configs
    for cfg in configs:
        prog = env.prog(cfg)
        body = find_body(prog, INTERNAL)
        if body is None:
            rep.missing("C04.1", INTERNAL)
            continue
        mc = [v["name"] for v in prog.adts["error::MessageError"]["variants"]]
        for mode in ("some", "none"):
            I = new_interp(prog)
            I.no_join_bodies.add(body["id"])
            st = State()
            a0 = I.mat(st, prog.ty(body["locals"][1]["ty"]), "self")
            lim_ty = prog.ty(body["locals"][2]["ty"])
            L = I.fresh_int(st, "limit", (64, False))
            plain_limit = lim_ty is not None and lim_ty[0] == "int"     # `limit: usize` with usize::MAX standing for "no limit"
            if plain_limit:
                lim = L if mode == "some" else IntV(Aff.const((1 << 64) - 1), (64, False))
            elif mode == "some":
                lim = EnumV("core::option::Option", {1: StructV([L])}, lim_ty)
            else:
                lim = EnumV("core::option::Option", {0: StructV([])}, lim_ty)

            def call_hook(I_, s, call, cbody):
                if call.path in ("alloc::vec::Vec::<T>::with_capacity",) and call.ctx.body["path"] == INTERNAL:
                    a = call.args[0]
                    if isinstance(a, IntV):
                        s.ghost["cap_arg"] = a.aff
            I.call_hooks.append(call_hook)

            def value_hook(I_, ctx, s, v):
                if isinstance(v, IntV) and v.cond is not None and v.cond[0] == "cmp" and ctx.body["path"] == INTERNAL:
                    _, op, x, y = v.cond
                    if y == L.aff:
                        s.ghost["cmp_A"] = x
                    elif x == L.aff:
                        s.ghost["cmp_A"] = y
                    if (y == L.aff or x == L.aff) and getattr(ctx, "cur_site", None):
                        s.ghost["cmp_site"] = (ctx.cur_site.get("id"), ctx.cur_site.get("bb"), ctx.cur_site.get("si"))
            I.value_hooks.append(value_hook)
            I, res = run(prog, body, args=[a0, lim], st=st, I=I)
            obs = report_obligations(rep, "C04.4", I, include_cast=True)
            if cfg == "default" and mode == "some":
                n_unsafe = sum(1 for o in obs if o["kind"].startswith("unsafe:"))
                # coverage, not a fixed number: every raw copy / pointer offset / set_len call site present in the
                # serialiser's MIR must have been visited (removing unsafe code is not a violation)
                present = 0
                for bb_ in body["blocks"]:
                    t_ = bb_["term"]
                    if t_["k"] == "call" and not bb_.get("cleanup"):
                        pth = (t_.get("resolved") or t_.get("callee") or {}).get("path", "")
                        if pth in ("core::ptr::copy", "core::ptr::copy_nonoverlapping") or pth.endswith("::set_len") \
                                or pth.startswith("core::ptr::mut_ptr::<impl *mut T>::add") or pth.startswith("core::ptr::const_ptr::<impl *const T>::add"):
                            present += 1
                rep.floor("C04.4", "unsafe call sites covered (ptr::copy, ptr::add, set_len)", n_unsafe, present)
            n_ok = 0
            # the comparison that lets messages through (its left side is the accounted length, C04.1/C04.2)
            ok_cmp_sites = set(s_.ghost.get("cmp_site") for s_, rv_ in res if isinstance(rv_, EnumV) and 0 in rv_.variants and s_.ghost.get("cmp_site"))
            for s, rv in res:
                if not isinstance(rv, EnumV):
                    rep.ob("C04.1", "ret|shape", False, "cannot establish: return value of %s not tracked" % INTERNAL)
                    continue
                for vi, p in rv.variants.items():
                    if vi == 0:
                        n_ok += 1
                        out = p.fields[0] if isinstance(p, StructV) and p.fields else None
                        A = s.ghost.get("cap_arg")
                        ok = isinstance(out, VecV) and A is not None and s.entails_eq(out.len, A)
                        rep.ob("C04.1", "%s|len=accounted|%s" % (INTERNAL, mode), ok,
                               "on a success path the output length (%r) is not shown equal to the length that was accounted and compared with the limit (%r): "
                               "the limit check does not decide on the real wire length" % (out.len if isinstance(out, VecV) else out, A),
                               {"file": body["span"]["f"], "line": body["span"]["l"], "fn": INTERNAL},
                               sample={"rule": "C04.1", "mode": mode, "len": repr(out.len) if isinstance(out, VecV) else None, "accounted": repr(A)})
                        if mode == "some":
                            cA = s.ghost.get("cmp_A")
                            ok2 = A is not None and cA is not None and s.entails_eq(cA, A) and s.entails(L.aff - A)
                            rep.ob("C04.2", "%s|ok=>within" % INTERNAL, ok2,
                                   "a success path is not shown to have accounted length <= limit (compared %r, accounted %r)" % (cA, A),
                                   {"file": body["span"]["f"], "line": body["span"]["l"], "fn": INTERNAL})
                    else:
                        err = p.fields[0] if isinstance(p, StructV) and p.fields else None
                        kinds = set(mc[k] for k in err.variants) if isinstance(err, EnumV) else {"?"}
                        for k in kinds:
                            if k == "InvalidPacketLength":
                                cA = s.ghost.get("cmp_A")
                                ok = mode == "some" and cA is not None and s.entails(cA - L.aff - 1)
                                # ... decided by that same comparison, not by an earlier estimate (payload alone, ...)
                                same = mode != "some" or s.ghost.get("cmp_site") in ok_cmp_sites
                                rep.ob("C04.2", "%s|err-by-the-accounting-comparison|%s" % (INTERNAL, mode), same,
                                       "Err(InvalidPacketLength) is returned after comparing something other than the accounted wire length with the limit "
                                       "(an early estimate can exceed the limit for a message whose real image fits, e.g. the unsent payload of an Empty message)",
                                       {"file": body["span"]["f"], "line": body["span"]["l"], "fn": INTERNAL})
                                rep.ob("C04.2", "%s|err=>exceeds|%s" % (INTERNAL, mode), ok,
                                       "Err(InvalidPacketLength) is returned on a path where the accounted length is not shown to exceed the limit"
                                       + (" (no limit was given)" if mode == "none" else ""),
                                       {"file": body["span"]["f"], "line": body["span"]["l"], "fn": INTERNAL})
                            elif k == "InvalidHeader":
                                rep.ob("C04.6", "%s|InvalidHeader" % INTERNAL, False,
                                       "Err(InvalidHeader) is reachable from the serialiser (header serialisation can fail: capacity < 4?)",
                                       {"file": body["span"]["f"], "line": body["span"]["l"], "fn": INTERNAL})
                            elif k == "InvalidOptionLength":
                                rep.ob("C04.5", "%s|refuse-long-option" % INTERNAL, True, "")
                            else:
                                rep.ob("C04.2", "%s|err|%s" % (INTERNAL, k), False,
                                       "unexpected error %s returned by the serialiser" % k)
            rep.ob("C04.1", "%s|some-ok-path|%s" % (INTERNAL, mode), n_ok > 0, "no success path found in %s" % INTERNAL)
        # ---- C04.3 limit plumbing
        want_max = 64000 if cfg == "udp" else 1280
        for entry, kind in (("packet::Packet::to_bytes", "max"), ("packet::Packet::to_bytes_with_limit", "arg"),
                            ("packet::Packet::to_bytes_unlimited", "none")):
            b = find_body(prog, entry)
            if b is None:
                rep.missing("C04.3", entry)
                continue
            I = new_interp(prog)
            I.max_depth = 0  # do not descend: only the call is inspected
            seen = []

            def hook(I_, s, call, cbody, seen=seen):
                if call.path == INTERNAL:
                    seen.append(call.args[1] if len(call.args) > 1 else None)
            I.call_hooks.append(hook)
            st = State()
            args = [I.mat(st, prog.ty(b["locals"][i + 1]["ty"]), "a%d" % i) for i in range(b["arg_count"])]
            I, res = run(prog, b, args=args, st=st, I=I)
            ok = len(seen) == 1 and isinstance(seen[0], EnumV) and len(seen[0].variants) == 1
            if len(seen) == 1 and isinstance(seen[0], IntV):
                # the serialiser takes a plain usize: usize::MAX is "no limit" (no length can exceed it)
                if kind == "none":
                    ok = seen[0].aff == Aff.const((1 << 64) - 1)
                elif kind == "max":
                    ok = seen[0].aff == Aff.const(want_max)
                else:
                    ok = len(args) > 1 and seen[0] == args[1]
            elif ok:
                vi = next(iter(seen[0].variants))
                p = seen[0].variants[vi]
                if kind == "none":
                    ok = vi == 0
                elif kind == "max":
                    ok = vi == 1 and isinstance(p.fields[0], IntV) and p.fields[0].aff == Aff.const(want_max)
                else:
                    ok = vi == 1 and len(args) > 1 and p.fields[0] == args[1]
            rep.ob("C04.3", "%s|limit" % entry, ok,
                   "%s does not pass the expected limit (%s) to the serialiser: passes %r" % (
                       entry, {"max": "Some(%d)" % want_max, "arg": "Some(its argument)", "none": "None"}[kind], seen),
                   {"file": b["span"]["f"], "line": b["span"]["l"], "fn": entry},
                   sample={"rule": "C04.3", "entry": entry, "config": cfg, "passes": repr(seen)})
