"""C05 - number <-> name tables equal the registries and are mutually inverse
over the whole number space; wildcard -> unknown/reserved/invalid; is_error."""
import json
import os
from harness import *
import tab

LEVEL = "other"
EXPLANATION = ("finite-map extraction: each conversion function is analysed once with an unconstrained argument and "
               "without joining paths; the argument classes induced by its branches partition the whole number / "
               "variant space, and the resulting table is compared with registry/coap.json (transcribed from the RFCs "
               "independently of the source) and with the reverse table")
ASSUMPTIONS = ["registry/coap.json is a faithful transcription of the IANA/RFC assignments"]
TRUSTED = []

REG = json.load(open(os.path.join(os.path.dirname(os.path.dirname(os.path.dirname(os.path.abspath(__file__)))), "registry", "coap.json")))


def leaf(d):
    """variant path of a description: ('Response','Content')"""
    path = []
    while isinstance(d, dict) and "variant" in d:
        path.append(d["variant"])
        if len(d["fields"]) == 1 and isinstance(d["fields"][0], dict) and "variant" in d["fields"][0]:
            d = d["fields"][0]
        else:
            return tuple(path), (d["fields"][0] if d["fields"] else None)
    return tuple(path), None


def num_to_name(prog, rep, rule, trait, self_s, arg_s, name, expected, wildcard, ok_wrap=None, space=None):
    """check a number -> name table.  expected: {variant name: number};
    wildcard: predicate on the default row's ret description"""
    b = find_impl_fn(prog, trait, self_s, arg_s, name)
    if b is None:
        rep.missing(rule, "%s<%s> for %s" % (trait, arg_s, self_s))
        return None
    rows, I = tab.extract_table(prog, b)
    rep.analysed.add(b["path"])
    exact, default = tab.int_table(rows)
    got = {}
    for v, rets in exact.items():
        for r in rets:
            d = r
            if ok_wrap:
                if d.get("variant") != ok_wrap:
                    rep.ob(rule, "%s|%d|notok" % (self_s, v), False, "%s(%d) does not yield %s: %r" % (b["path"], v, ok_wrap, d))
                    continue
                d = d["fields"][0]
            p, payload = leaf(d)
            got.setdefault(v, []).append(p)
    for nm, num in expected.items():
        names = got.get(num, [])
        ok = len(names) == 1 and len(names[0]) > 0 and names[0][-1] == nm
        rep.ob(rule, "%s|%s" % (self_s, nm), ok,
               "%s: number %d should map to %s (registry) but maps to %s" % (b["path"], num, nm, names or "the wildcard arm"),
               {"file": b["span"]["f"], "line": b["span"]["l"], "fn": b["path"]},
               sample={"rule": rule, "number": num, "name": nm, "got": [list(x) for x in names]})
    for v, names in got.items():
        if v not in expected.values():
            rep.ob(rule, "%s|extra|%d" % (self_s, v), False,
                   "%s: number %d is not assigned in the registry but maps to the named value %s" % (b["path"], v, names))
    # wildcard
    if not default:
        # the named numbers must then cover the whole space
        if space is not None and len(exact) < space:
            rep.ob(rule, "%s|wildcard" % self_s, False, "%s: no wildcard arm and the table is partial" % b["path"])
    for r in default:
        ok, why = wildcard(r)
        rep.ob(rule, "%s|wildcard" % self_s, ok, "%s: unassigned numbers: %s" % (b["path"], why),
               sample={"rule": rule, "wildcard": r["ret"] if len(str(r["ret"])) < 300 else str(r["ret"])[:300]})
    return got


def name_to_num(prog, rep, rule, trait, self_s, arg_s, name, expected, extra=None):
    b = find_impl_fn(prog, trait, self_s, arg_s, name)
    if b is None:
        rep.missing(rule, "%s<%s> for %s" % (trait, arg_s, self_s))
        return None
    rows, I = tab.extract_table(prog, b)
    rep.analysed.add(b["path"])
    got = {}
    for r in rows:
        p, payload = leaf(r["arg"])
        got.setdefault(p, []).append((r["ret"], payload))
    for nm, num in expected.items():
        hits = [(p, x) for p, xs in got.items() if p and p[-1] == nm for x in xs]
        ok = len(hits) == 1 and hits[0][1][0].get("int") == num
        rep.ob(rule, "%s|rev|%s" % (arg_s, nm), ok,
               "%s: %s should encode as %d (registry) but gives %s" % (b["path"], nm, num, [h[1][0] for h in hits]),
               {"file": b["span"]["f"], "line": b["span"]["l"], "fn": b["path"]},
               sample={"rule": rule, "name": nm, "number": num})
    return got


def check(env, rep, tier):
    include(rep, env, tier, "c19", ("C19.3", "C19.8"), "C05.8",
            "'every named content format corresponds to the number assigned to it': the convenience setter puts exactly that number on the "
            "message (through the typed unsigned encoder) and the getter reads it back with the same type")
    include(rep, env, tier, "c01", ("C01.1", "C01.2"), "C05.5", "'message type <-> 2-bit field': the header accessors write and read exactly their bit fields of the first byte")
    configs = ["default"] if tier == "quick" else ["default", "nodefault", "udp"]
    rep.configs = configs
    for cfg in configs:
        prog = env.prog(cfg)
        # ---- C05.1 options
        def wc_unknown(r):
            p, payload = leaf(r["ret"])
            if p != ("Unknown",):
                return False, "map to %r instead of Unknown(n)" % (p,)
            if not (isinstance(payload, dict) and payload.get("input") == "arg"):
                return False, "Unknown(..) does not carry the input number"
            return True, ""
        # options IANA has registered that the crate has no variant for (yet): a variant added under such a name is
        # expected to carry that option's number (adding Hop-Limit = 16 is not a violation; adding it as 17 is)
        opt_expected = dict(REG["options"])
        norm_ = lambda x: "".join(ch for ch in x.lower() if ch.isalnum())
        beyond = {norm_(nm_): int(n_) for n_, nm_ in REG.get("options_registered_beyond_the_crate", {}).items()}
        for v_ in (prog.adts.get("packet::CoapOption") or {"variants": []})["variants"]:
            if v_["name"] not in opt_expected and norm_(v_["name"]) in beyond:
                opt_expected[v_["name"]] = beyond[norm_(v_["name"])]
        num_to_name(prog, rep, "C05.1", "core::convert::From", "packet::CoapOption", "u16", "from", opt_expected, wc_unknown)
        rev = name_to_num(prog, rep, "C05.1", "core::convert::From", "u16", "packet::CoapOption", "from", opt_expected)
        if rev is not None:
            hits = rev.get(("Unknown",), [])
            ok = len(hits) == 1 and isinstance(hits[0][0], dict) and hits[0][0].get("input") == "arg.Unknown.0"
            rep.ob("C05.1", "u16|rev|Unknown", ok, "u16::from(CoapOption::Unknown(n)) is not n: %r" % (hits,))
        a = prog.adts.get("packet::CoapOption")
        if a is None:
            rep.missing("C05.1", "enum CoapOption")
        else:
            names = [v["name"] for v in a["variants"] if v["name"] != "Unknown"]
            rep.floor("C05.1", "named options", len(names), 21)
            for nm in names:
                rep.ob("C05.1", "registry|%s" % nm, nm in opt_expected, "option variant %s has no registry entry" % nm)
        # ---- C05.2 content formats
        def wc_err(r):
            p, payload = leaf(r["ret"])
            if not p or p[0] != "Err":
                return False, "map to %r instead of Err(InvalidContentFormat)" % (p,)
            return True, ""
        num_to_name(prog, rep, "C05.2", "core::convert::TryFrom", "packet::ContentFormat", "usize", "try_from",
                    REG["content_formats"], wc_err, ok_wrap="Ok")
        name_to_num(prog, rep, "C05.2", "core::convert::From", "usize", "packet::ContentFormat", "from", REG["content_formats"])
        a = prog.adts.get("packet::ContentFormat")
        if a is None:
            rep.missing("C05.2", "enum ContentFormat")
        else:
            names = [v["name"] for v in a["variants"]]
            rep.floor("C05.2", "named content formats", len(names), 60)
            for nm in names:
                rep.ob("C05.2", "registry|%s" % nm, nm in REG["content_formats"], "content format variant %s has no registry entry" % nm)
            for nm, num in REG["content_formats"].items():
                rep.ob("C05.2", "u16|%s" % nm, num <= 65535, "content format id %d does not fit 16 bits" % num)
        # ---- C05.3 observe
        num_to_name(prog, rep, "C05.3", "core::convert::TryFrom", "packet::ObserveOption", "usize", "try_from",
                    REG["observe"], wc_err, ok_wrap="Ok")
        name_to_num(prog, rep, "C05.3", "core::convert::From", "usize", "packet::ObserveOption", "from", REG["observe"])
        # ---- C05.4 codes
        codes = {"Empty": REG["empty_code"]}
        codes.update(REG["methods"])
        codes.update(REG["responses"])

        def wc_reserved(r):
            p, payload = leaf(r["ret"])
            if p != ("Reserved",):
                return False, "map to %r instead of Reserved(n)" % (p,)
            if not (isinstance(payload, dict) and payload.get("input") == "arg"):
                return False, "Reserved(..) does not carry the input byte"
            return True, ""
        fw = num_to_name(prog, rep, "C05.4", "core::convert::From", "header::MessageClass", "u8", "from", codes, wc_reserved)
        # class of each named code: methods under Request, statuses under Response
        if fw is not None:
            for nm, num in REG["methods"].items():
                ps = fw.get(num, [])
                rep.ob("C05.4", "class|%s" % nm, ps == [("Request", nm)], "code %d should be Request(%s), is %r" % (num, nm, ps))
            for nm, num in REG["responses"].items():
                ps = fw.get(num, [])
                rep.ob("C05.4", "class|%s" % nm, ps == [("Response", nm)], "code %d should be Response(%s), is %r" % (num, nm, ps))
        rev = name_to_num(prog, rep, "C05.4", "core::convert::From", "u8", "header::MessageClass", "from", codes)
        if rev is not None:
            hits = rev.get(("Reserved",), [])
            ok = len(hits) == 1 and isinstance(hits[0][0], dict) and hits[0][0].get("input") == "arg.Reserved.0"
            rep.ob("C05.4", "u8|rev|Reserved", ok, "u8::from(MessageClass::Reserved(n)) is not n: %r" % (hits,))
            for cls in ("Request", "Response"):
                hits = rev.get((cls, "UnKnown"), [])
                ok = len(hits) == 1 and hits[0][0].get("int") == REG["unknown_code_byte"]
                rep.ob("C05.4", "u8|rev|%s::UnKnown" % cls, ok, "%s(UnKnown) should encode as 0xFF: %r" % (cls, hits))
        for en, reg, floor in (("header::RequestType", REG["methods"], 7), ("header::ResponseType", REG["responses"], 27)):
            a = prog.adts.get(en)
            if a is None:
                rep.missing("C05.4", en)
                continue
            names = [v["name"] for v in a["variants"] if v["name"] != "UnKnown"]
            rep.floor("C05.4", "named values of " + en, len(names), floor)
            for nm in names:
                rep.ob("C05.4", "registry|%s" % nm, nm in reg, "%s::%s has no registry entry" % (en, nm))
        check_code_text_split(prog, rep)
        # ---- C05.6 is_error
        b = find_body(prog, "header::ResponseType::is_error")
        if b is None:
            rep.missing("C05.6", "ResponseType::is_error")
        else:
            rows, I = tab.extract_table(prog, b)
            rep.analysed.add(b["path"])
            got = {}
            for r in rows:
                p, _ = leaf(r["arg"])
                got.setdefault(p, set()).add(r["ret"].get("int") if isinstance(r["ret"], dict) else None)
            allnames = dict(REG["responses"])
            allnames["UnKnown"] = REG["unknown_code_byte"]
            for nm, num in allnames.items():
                want = 1 if num >= REG["error_threshold"] else 0
                vals = got.get((nm,), set())
                rep.ob("C05.6", "is_error|%s" % nm, vals == {want},
                       "ResponseType::%s (code byte 0x%02X): is_error() should be %s, analysis gives %s" % (nm, num, bool(want), sorted(str(x) for x in vals)),
                       {"file": b["span"]["f"], "line": b["span"]["l"], "fn": b["path"]},
                       sample={"rule": "C05.6", "status": nm, "byte": num, "is_error": sorted(str(x) for x in vals)})


def check_code_text_split(prog, rep):
    """C05.7: Display splits the code byte as class = bits 7:5, detail = bits 4:0;
    set_code composes class << 5 | detail; the two are inverse"""
    import bitprov
    from absdom import State, IntV, RefV, StructV
    d = None
    for b in prog.bodies.values():
        if b.get("impl_trait") == "core::fmt::Display" and b.get("name") == "fmt" and prog.types[b["impl_self"]]["s"] == "header::MessageClass":
            d = b
    if d is None:
        rep.missing("C05.7", "Display for MessageClass")
    else:
        I = new_interp(prog)
        seen = []

        def hook(I_, s, call, cbody):
            if call.path == "core::fmt::rt::Argument::<'_>::new_display" and call.ctx.depth == 0:
                a = call.args[0]
                v = I_.read(s, a.place) if isinstance(a, RefV) else a
                seen.append((s.copy(), v))
        I.call_hooks.append(hook)
        I.K_ret = 1
        I, res = run(prog, d, I=I)
        pats = []
        for s, v in seen:
            bits = bitprov.resolve_bits(I, s, v, 8) if isinstance(v, IntV) else None
            if bits:
                syms = set(b[1] for b in bits if isinstance(b, tuple))
                pats.append((tuple((b[2] if isinstance(b, tuple) else b) for b in bits), len(syms)))
        # every path prints through that one formatted write: no other text reaches the formatter
        other = []
        for bb_ in d["blocks"]:
            t_ = bb_["term"]
            if t_["k"] == "call" and not bb_.get("cleanup"):
                pth = (t_.get("resolved") or t_.get("callee") or {}).get("path", "")
                if pth.startswith("core::fmt::Formatter") and not pth.endswith("::write_fmt") or pth.startswith("core::fmt::Write::"):
                    other.append(pth)
        nfmt = sum(1 for bb_ in d["blocks"] if bb_["term"]["k"] == "call" and not bb_.get("cleanup")
                   and (bb_["term"].get("resolved") or bb_["term"].get("callee") or {}).get("path", "").endswith("Formatter::<'a>::write_fmt"))
        rep.ob("C05.7", "display-only-c.dd", not other and nfmt == 1,
               "Display for MessageClass writes text other than the one formatted 'class.detail' (calls: %s, formatted writes: %d): some code "
               "byte does not print as c.dd" % (other, nfmt), {"file": d["span"]["f"], "line": d["span"]["l"], "fn": d["path"]})
        want = {((5, 6, 7, 0, 0, 0, 0, 0), 1), ((0, 1, 2, 3, 4, 0, 0, 0), 1)}
        rep.ob("C05.7", "display-split", set(pats) == want,
               "Display for MessageClass does not print class = code bits 7:5 and detail = code bits 4:0 (found bit patterns %s)" % pats,
               {"file": d["span"]["f"], "line": d["span"]["l"], "fn": d["path"]}, sample={"rule": "C05.7", "patterns": [list(p[0]) for p in pats]})
    sc = find_body(prog, "header::Header::set_code")
    if sc is None:
        rep.missing("C05.7", "Header::set_code")
    else:
        I = new_interp(prog)
        I.no_join_bodies.add(sc["id"])
        conv = find_impl_fn(prog, "core::convert::From", "header::MessageClass", "u8", "from")
        seen = []

        def hook2(I_, s, call, cbody):
            if cbody is not None and conv is not None and cbody["id"] == conv["id"] and call.ctx.depth == 0:
                seen.append((s.copy(), call.args[0]))
        I.call_hooks.append(hook2)
        # every parse result is remembered per path: a path on which both numbers were parsed and are in range
        # (class <= 7, detail <= 31) has to store the composed code - no such string may be ignored
        import summaries2
        base_parse = summaries2.m_parse

        def m_parse_log(I_, s_, call):
            r = base_parse(I_, s_, call)
            for s2, v in r or ():
                if isinstance(v, EnumV) and list(v.variants) == [0] and isinstance(v.variants[0], StructV) and v.variants[0].fields \
                        and isinstance(v.variants[0].fields[0], IntV):
                    k = len([g for g in s2.cells if isinstance(g, tuple) and g[:2] == ("gh", "parsed")])
                    s2.cells[("gh", "parsed", k)] = v.variants[0].fields[0]
            return r
        I.extra_models["core::str::<impl str>::parse"] = m_parse_log

        def hook3(I_, s, call, cbody):
            if cbody is not None and conv is not None and cbody["id"] == conv["id"] and call.ctx.depth == 0:
                s.ghost[("inj", "code-composed")] = True
        I.call_hooks.append(hook3)
        I, res = run(prog, sc, I=I)
        ignored, n_inrange = 0, 0
        for s_, rv in res:
            ps = [s_.cells[g] for g in sorted((g for g in s_.cells if isinstance(g, tuple) and g[:2] == ("gh", "parsed")), key=lambda g: g[2])]
            if len(ps) != 2:
                continue
            # the composed store tells which is which; without one, try both assignments
            feas = False
            for c_, d_ in ((ps[0], ps[1]), (ps[1], ps[0])):
                t_ = s_.copy()
                t_.add_fact(Aff.const(7) - c_.aff)
                t_.add_fact(Aff.const(31) - d_.aff)
                if not t_.dead and not infeasible(t_):
                    feas = True
            if feas:
                n_inrange += 1
                if not s_.ghost.get(("inj", "code-composed")):
                    ignored += 1
        rep.ob("C05.7", "set_code-accepts-every-code", n_inrange >= 1 and ignored == 0,
               "Header::set_code returns without storing a code on %d path(s) that a string 'c.dd' with c <= 7 and dd <= 31 can take: "
               "such a code is silently ignored (paths with both numbers in range: %d)" % (ignored, n_inrange),
               {"file": sc["span"]["f"], "line": sc["span"]["l"], "fn": sc["path"]}, sample={"rule": "C05.7", "in_range_paths": n_inrange})
        ok = bool(seen)
        for s, v in seen:
            bits = bitprov.resolve_bits(I, s, v, 8) if isinstance(v, IntV) else None
            if not bits:
                ok = False
                continue
            lo_syms = set(b[1] for b in bits[:5] if isinstance(b, tuple))
            hi_syms = set(b[1] for b in bits[5:] if isinstance(b, tuple))
            if len(lo_syms) != 1 or len(hi_syms) != 1 or lo_syms == hi_syms:
                ok = False
                continue
            if [b[2] for b in bits[:5]] != [0, 1, 2, 3, 4] or [b[2] for b in bits[5:]] != [0, 1, 2]:
                ok = False
        rep.ob("C05.7", "set_code-compose", ok, "Header::set_code does not store class << 5 | detail with class < 8 and detail < 32",
               {"file": sc["span"]["f"], "line": sc["span"]["l"], "fn": sc["path"]})
