"""C15 - observe accounting: sequence +1 per round, counter only for
confirmable rounds, retain predicate count <= limit, acknowledge resets,
panic-free counting, notification builder copies its arguments."""
import os
from harness import *
from absdom import Aff, holds
import bitprov
from rules.c05 import REG

LEVEL = "other"
EXPLANATION = ("abstract interpretation of Subject::{register, deregister, resource_changed, acknowledge, "
               "set_unacknowledged_limit, get_resource*} and create_notification with their closures analysed in "
               "context: panic-capable sites are obligations; at the return of the notification-round closure the "
               "sequence field must be its entry value + 1 on every path; in the per-observer closure the pending "
               "message id is stored unconditionally and the unacknowledged counter is incremented exactly on the "
               "paths where is_confirmable is true; the retain closure returns count <= limit (limit = a copy of the "
               "configured field); the acknowledge path resets both fields of the found observer and writes nothing "
               "else; create_notification's result is checked field by field (version bits 01, type from the flag, "
               "code 2.05, message id / token / payload = arguments, Observe set from the sequence argument); no path through the code that advances the sequence returns without the store (every round advances it)")
NOT_DECIDED = "Not decided: history semantics as a whole (which observers exist after a sequence of operations)."
ASSUMPTIONS = ["requests handed to Subject come from an endpoint (request.source is Some), as CoapRequest::from_packet guarantees",
               "lemma 6: fewer than 2^32 notification rounds per resource (sequence += 1 in u32)",
               "the Endpoint type's PartialEq/Clone/Display impls do not panic"]

SUBJ = "observe::Subject::<Endpoint>::"


def obs_field(prog, name):
    a = prog.adts.get("observe::Observer")
    for i, f in enumerate(a["variants"][0]["fields"]):
        if f["name"] == name:
            return i
    return None


def res_field(prog, name):
    a = prog.adts.get("observe::Resource")
    for i, f in enumerate(a["variants"][0]["fields"]):
        if f["name"] == name:
            return i
    return None


def subject_args(I, prog, body, st, gargs):
    """arguments for a Subject method: request.source is Some"""
    subst = prog.body_subst(body, gargs)
    args = []
    for i in range(body["arg_count"]):
        t = prog.ty(body["locals"][i + 1]["ty"], subst)
        v = I.mat(st, t, "a%d" % i)
        if t[0] == "ref" and t[2][0] == "adt" and t[2][1] == "request::CoapRequest" and isinstance(v, RefV):
            rv = I.ensure(st, v.place, t[2], "request")
            a = prog.adts["request::CoapRequest"]
            for fi, f in enumerate(a["variants"][0]["fields"]):
                if f["name"] == "source":
                    fts = I.field_types(t[2])
                    ev = I.ensure(st, v.place.extend(("f", fi)), fts[fi], "request.source")
                    if isinstance(ev, EnumV):
                        I.write(st, v.place.extend(("f", fi)), EnumV(ev.path, {1: ev.variants.get(1)}, ev.ty))
        args.append(v)
    return args


def closure_body(prog, parent_path, idx_path):
    want = parent_path + "".join("::{closure#%d}" % i for i in idx_path)
    for b in prog.bodies.values():
        if b["path"] == want and not b.get("promoted"):
            return b
    return None


def check(env, rep, tier):
    include(rep, env, tier, "c14", ("C14.2",), "C15.7", "'since its last acknowledgement or registration': registering again stores a fresh observer (count 0) on every path")
    include(rep, env, tier, "c06", ("C06.7", "C06.8"), "C15.8",
            "'a notification built from it carries that sequence': the sequence travels in the Observe option, so the option setter has to store "
            "the number it is given whole (not masked or cut) in the shortest big-endian form")
    configs = ["default"] if tier == "quick" else ["default", "nodefault"]
    rep.configs = configs
    for cfg in configs:
        prog = env.prog(cfg)
        gargs = (("param", "Endpoint"),)
        i_unack, i_mid = obs_field(prog, "unacknowledged_messages"), obs_field(prog, "message_id")
        i_seq = res_field(prog, "sequence")
        if None in (i_unack, i_mid, i_seq):
            rep.missing("C15.1", "fields of Observer / Resource")
            continue
        # ---------------------------------------------- C15.5 obligations
        for name in ("register", "deregister", "resource_changed", "acknowledge", "get_resource",
                     "get_resource_observers", "set_unacknowledged_limit"):
            body = find_body(prog, SUBJ + name)
            if body is None:
                rep.missing("C15.5", SUBJ + name)
                continue
            I = new_interp(prog)
            st = State()
            args = subject_args(I, prog, body, st, gargs)
            I, res = run(prog, body, args=args, st=st, I=I, gargs=gargs)
            obs = collect_obligations(I)
            seen = {}
            for s in sorted(obs, key=lambda x: (x["fn"], x["line"], x["kind"])):
                ok = s["ok"]
                lem = None
                if not ok and s["kind"] == "assert:Overflow(Add)" and name == "resource_changed" and s["fn"].startswith("observe::") \
                        and any("4294967295" in d for d in s["details"]):
                    ok, lem = True, "lemma6-sequence-rounds"
                    rep.lemmas[lem] = rep.lemmas.get(lem, 0) + 1
                base = "%s|%s|%s" % (s["fn"], s["kind"], s["details"][0] if s["details"] else "")
                n = seen.get(base, 0)
                seen[base] = n + 1
                rep.ob("C15.5", base if n == 0 else "%s|%d" % (base, n), ok,
                       "%s at %s:%s in %s not discharged: %s" % (s["kind"], s["file"], s["line"], s["fn"], "; ".join(s["details"][:2])),
                       {"file": s["file"], "line": s["line"], "fn": s["fn"]},
                       sample={"rule": "C15.5", "site": "%s:%s" % (s["file"], s["line"]), "kind": s["kind"], "discharged": ok, "lemma": lem})
            for msg in I.imprecise:
                rep.ob("C15.5", "imprecise|" + norm(msg), False, "cannot establish: " + msg)
            rep.analysed.update(prog.bodies[b]["path"] for b in I.visited_bodies if b in prog.bodies)
        # ---------------------------------------------- C15.1-3 closures of resource_changed
        rc = find_body(prog, SUBJ + "resource_changed")
        if rc is None:
            rep.missing("C15.1", SUBJ + "resource_changed")
        else:
            I = new_interp(prog)
            st = State()
            args = subject_args(I, prog, rc, st, gargs)
            # name the governing inputs
            conf = args[3] if len(args) > 3 else None
            mid = args[2] if len(args) > 2 else None
            selfv = I.ensure(st, args[0].place, prog.ty(rc["locals"][1]["ty"], prog.body_subst(rc, gargs))[2], "self")
            lim_i = None
            for fi, f in enumerate(prog.adts["observe::Subject"]["variants"][0]["fields"]):
                if f["name"] == "unacknowledged_limit":
                    lim_i = fi
            limit = I.ensure(st, args[0].place.extend(("f", lim_i)), ("int", 8, False), "limit") if lim_i is not None else None
            # structure-agnostic: the effects of a round are observed through the stores it makes (sequence, pending id,
            # counter), wherever they sit - a for_each closure, a for loop, a helper function; the only closure looked up
            # is the retain predicate, found by its signature (&Observer -> bool)
            c_ret = None
            for ob in sorted(reachable(prog, rc), key=lambda x_: x_["path"]):
                # (a closure of resource_changed itself, or of a helper the round was moved into)
                if ob.get("promoted") or "::{closure" not in ob["path"] or not ob["path"].startswith("observe::") or ob["arg_count"] < 2:
                    continue
                pt = prog.types[ob["locals"][2]["ty"]]["s"]
                # (&Observer -> bool for retain, &mut Observer -> bool when the update is fused into retain_mut)
                if pt.startswith(("&observe::Observer<", "&mut observe::Observer<")) and prog.types[ob["locals"][0]["ty"]]["s"] == "bool":
                    c_ret = ob if c_ret is None else c_ret
            if c_ret is None or not isinstance(conf, IntV) or not isinstance(mid, IntV) or not isinstance(limit, IntV):
                rep.missing("C15.1", "retain predicate closure or inputs of resource_changed")
            else:
                results = {"ret": []}
                seq_stores = []
                seq_bodies = set()          # the function / closure that advances the sequence (found in the first run)
                seq_paths = [0, 0]          # paths through it in the second run, and those that leave the sequence alone
                site = {"file": rc["span"]["f"], "line": rc["span"]["l"], "fn": rc["path"]}
                visit_bodies = [ob for ob in prog.bodies.values() if not ob.get("promoted") and ob["path"].startswith("observe::")
                                and ob["id"] != rc["id"]
                                and any(prog.types[ob["locals"][i + 1]["ty"]]["s"].startswith("&mut observe::Observer<") for i in range(ob["arg_count"]))]
                per_mode = {}
                for mode in (1, 0):
                    I = new_interp(prog)
                    st = State()
                    args = subject_args(I, prog, rc, st, gargs)
                    conf, mid = args[3], args[2]
                    st.add_eq(conf.aff, Aff.const(mode))
                    limit = I.ensure(st, args[0].place.extend(("f", lim_i)), ("int", 8, False), "limit")
                    visits = []     # (mid stored ok, unack stored, unack ok)
                    n_unack = [0]

                    def fld_store(I_, ctx, s, place, v, site_, visits=visits, mid=mid, n_unack=n_unack):
                        if not place.proj:
                            return
                        last = place.proj[-1]
                        if last == ("f", i_seq):
                            s.ghost["seq-stored"] = True
                            seq_bodies.add(ctx.body["id"])
                        if last == ("f", i_seq) and mode == 1:
                            old_v = I_.read(s, place)
                            if isinstance(old_v, TopV):
                                old_v = I_.ensure(s, place, ("int", 32, False), "sequence")
                            seq_stores.append((s.copy(), old_v, v))
                        elif last == ("f", i_mid) and isinstance(v, EnumV) and v.path == "core::option::Option":
                            good = list(v.variants) == [1] and isinstance(v.variants[1], StructV) and isinstance(v.variants[1].fields[0], IntV) \
                                and v.variants[1].fields[0].aff == mid.aff
                            s.ghost["mid-stored"] = bool(good)
                        elif last == ("f", i_unack) and isinstance(v, IntV):
                            old_v = I_.read(s, place)
                            if isinstance(old_v, TopV):
                                old_v = I_.ensure(s, place, None, "count")
                            from absdom import int_range
                            if os.environ.get("VERIF_DEBUG_C15"):
                                print("UNACK store mode", mode, "old", old_v, "new", v)
                            inc = isinstance(old_v, IntV) and (v.aff == old_v.aff + 1 or s.entails_eq(v.aff, old_v.aff + 1)
                                                               or (v.aff.is_const() and v.ty is not None and v.aff.c == int_range(v.ty)[1]))
                            if not inc and isinstance(old_v, IntV) and (v.aff == old_v.aff or s.entails_eq(v.aff, old_v.aff)):
                                return      # the value it already had (`count + u16::from(false)`): not a change
                            s.ghost["unack-stored"] = bool(inc)
                            n_unack[0] += 1
                    I.store_hooks.append(fld_store)

                    def checkpoint(s, visits=visits):
                        if "mid-stored" in s.ghost or "unack-stored" in s.ghost:
                            visits.append((s.ghost.get("mid-stored"), s.ghost.get("unack-stored")))
                            s.ghost.pop("mid-stored", None)
                            s.ghost.pop("unack-stored", None)

                    def visit_ret(I_, ctx, outs):
                        for s_, _ in outs:
                            checkpoint(s_)
                    for vb in visit_bodies:
                        I.return_hooks[vb["id"]] = visit_ret
                        I.no_join_bodies.add(vb["id"])

                    def lhook(I_, ctx, h, head, backs, exits):
                        for b_ in backs:
                            checkpoint(b_)
                    I.loop_hooks.append(lhook)
                    if mode == 0:
                        def ret_hook0(I_, ctx, outs):
                            results.setdefault("ret0", []).extend(1 for _ in outs)
                            for s_, rv_ in outs:
                                checkpoint(s_)
                        I.return_hooks[c_ret["id"]] = ret_hook0
                        I.no_join_bodies.add(c_ret["id"])
                    if mode == 1:
                        def ret_hook(I_, ctx, outs):
                            for s_, rv_ in outs:
                                results["ret"].append((s_.copy(), s_.cells.get((ctx.fid, 2)), rv_))
                                checkpoint(s_)      # (the predicate may also be the visit: retain_mut)
                        I.return_hooks[c_ret["id"]] = ret_hook
                        I.no_join_bodies.add(c_ret["id"])
                    if mode == 0:
                        # every round advances the sequence: no path through the code that does it returns without the store
                        # (e.g. skipped "when nobody is listening any more" - the next notification would repeat a number)
                        for sb in sorted(seq_bodies):
                            if sb == rc["id"] or sb not in prog.bodies:
                                continue
                            prev_hook = I.return_hooks.get(sb)

                            def seq_ret(I_, ctx, outs, prev_hook=prev_hook):
                                for s_, _ in outs:
                                    seq_paths[0] += 1
                                    if not s_.ghost.pop("seq-stored", None):
                                        seq_paths[1] += 1
                                if prev_hook is not None:
                                    prev_hook(I_, ctx, outs)
                            I.return_hooks[sb] = seq_ret
                            I.no_join_bodies.add(sb)
                    I.unroll_max_blocks = 0
                    I, res = run(prog, rc, args=args, st=st, I=I, gargs=gargs)
                    for s_, _ in res:
                        checkpoint(s_)
                    per_mode[mode] = (visits, n_unack[0], I, limit)
                ok = bool(seq_stores)
                for s, old_v, new_v in seq_stores:
                    if not (isinstance(old_v, IntV) and isinstance(new_v, IntV) and new_v.aff == old_v.aff + 1):
                        ok = False
                rep.ob("C15.1", "sequence+1", ok, "a notification round does not store sequence = previous sequence + 1 (stores seen: %d)" % len(seq_stores), site,
                       sample={"rule": "C15.1", "stores": len(seq_stores)})
                if seq_bodies and not (seq_bodies <= {rc["id"]}):
                    rep.ob("C15.1", "sequence-every-round", seq_paths[0] >= 1 and seq_paths[1] == 0,
                           "a notification round can leave the sequence as it was on %d of %d paths through the code that advances it: "
                           "two successive notifications then carry the same number" % (seq_paths[1], seq_paths[0]), site,
                           sample={"rule": "C15.1", "paths": seq_paths[0]})
                v1, u1, I1, limit1 = per_mode[1]
                v0, u0, _, _ = per_mode[0]
                ok_mid = bool(v1) and bool(v0) and all(m is True for m, _ in v1 + v0)
                ok_cnt = bool(v1) and all(u is True for _, u in v1) and u0 == 0
                rep.ob("C15.2", "pending-id", ok_mid, "the pending message id is not set to the round's message id for every observer visited", site)
                rep.ob("C15.2", "counter-iff-confirmable", ok_cnt,
                       "the unacknowledged counter is not incremented (by one, saturating) for every observer visited in a confirmable round, "
                       "and left alone in a non-confirmable one (visits: %d / %d, counter stores in a non-confirmable round: %d)" % (len(v1), len(v0), u0), site,
                       sample={"rule": "C15.2", "visits_confirmable": len(v1), "visits_non_confirmable": len(v0)})
                I, limit = I1, limit1
                # retain predicate
                ok = bool(results["ret"])
                for s, ref, rv in results["ret"]:
                    c = I.read(s, ref.place.extend(("f", i_unack))) if isinstance(ref, RefV) else None
                    good = False
                    if isinstance(rv, IntV) and isinstance(c, IntV):
                        cond = rv.cond
                        neg = False
                        while cond is not None and cond[0] == "not":
                            cond, neg = cond[1], not neg
                        if cond is not None and cond[0] == "const":
                            # decided on this path (e.g. a saturated count against an 8-bit limit): it must be the truth of count <= limit
                            truth = bool(cond[1]) != neg
                            good = s.entails(limit.aff - c.aff) if truth else s.entails(c.aff - limit.aff - 1)
                        if cond is not None and cond[0] == "cmp":
                            op, x, y = cond[1], cond[2], cond[3]
                            if neg:
                                from absdom import negate_cmp
                                op = negate_cmp(op)
                            # normalise to count <= limit
                            if (op == "Le" and x == c.aff and y == limit.aff) or (op == "Ge" and x == limit.aff and y == c.aff) \
                                    or (op == "Lt" and x == c.aff and y == limit.aff + 1) or (op == "Gt" and x == limit.aff + 1 and y == c.aff):
                                good = True
                    if os.environ.get("VERIF_DEBUG_C15"):
                        print("RET", rv, getattr(rv, "cond", None), "count", c, "limit", limit)
                    if not good:
                        ok = False
                site = {"file": c_ret["span"]["f"], "line": c_ret["span"]["l"], "fn": c_ret["path"]}
                rep.ob("C15.3", "sweep-every-round", len(results.get("ret0", ())) >= 1,
                       "the over-limit sweep does not run in a non-confirmable round: an observer whose count already exceeds a limit that was "
                       "lowered in the meantime stays listed until the next confirmable round", site)
                rep.ob("C15.3", "retain<=limit", ok, "observers are not retained exactly when count <= configured limit", site,
                       sample={"rule": "C15.3", "paths": len(results["ret"])})
        # ---------------------------------------------- C15.3b the counter can pass every limit
        oa = prog.adts["observe::Observer"]["variants"][0]["fields"]
        ct = prog.types[oa[i_unack]["ty"]]
        lt = None
        for f in prog.adts["observe::Subject"]["variants"][0]["fields"]:
            if f["name"] == "unacknowledged_limit":
                lt = prog.types[f["ty"]]
        okw = lt is not None and ct.get("k") == "int" and lt.get("k") == "int" and not ct.get("signed") and ct.get("bits", 0) > lt.get("bits", 0)
        rep.ob("C15.3", "counter-wider-than-limit", okw,
               "the unacknowledged counter (%s) cannot exceed the largest configurable limit (%s): with that limit the count saturates at "
               "the limit and the observer is never dropped" % (ct.get("s"), lt.get("s") if lt else None))
        # ---------------------------------------------- C15.4b an acknowledgement is applied to every resource: the walk over the
        #                                                  registry ends only when the map iterator is exhausted
        ab_ = find_body(prog, SUBJ + "acknowledge")
        if ab_ is not None:
            import interp as _ip
            info = _ip.BodyInfo(ab_)
            walk = []
            for h, blocks in info.loops.items():
                nexts = [bi for bi in blocks if ab_["blocks"][bi]["term"]["k"] == "call" and not ab_["blocks"][bi].get("cleanup")
                         and "collections::btree::map::Iter" in ((ab_["blocks"][bi]["term"].get("resolved") or ab_["blocks"][bi]["term"].get("callee") or {}).get("path", ""))
                         and (ab_["blocks"][bi]["term"].get("resolved") or ab_["blocks"][bi]["term"].get("callee") or {}).get("name") == "next"]
                if nexts:
                    walk.append((h, blocks, nexts))
            okx = bool(walk)
            early = []
            for h, blocks, nexts in walk:
                if info.parent_loop.get(h) is not None and any(h in b2 for h2, b2, _ in walk if h2 != h):
                    continue
                # blocks that decide on the result of next(): successors of the call, up to the switch on its discriminant
                deciders = set()
                for nb in nexts:
                    tgt = ab_["blocks"][nb]["term"].get("t")
                    cur = tgt
                    for _ in range(4):
                        if cur is None:
                            break
                        deciders.add(cur)
                        t2 = ab_["blocks"][cur]["term"]
                        if t2["k"] == "switch":
                            break
                        cur = t2.get("t") if t2["k"] in ("goto", "call") else None
                for bi in blocks:
                    bb = ab_["blocks"][bi]
                    if bb.get("cleanup"):
                        continue
                    for su in info.succ[bi]:
                        if su not in blocks and not ab_["blocks"][su].get("cleanup") and bi not in deciders:
                            if ab_["blocks"][su]["term"]["k"] in ("unreachable",):
                                continue
                            early.append(bb["tspan"]["l"])
            rep.ob("C15.4", "acknowledge|walks-all-resources", okx and not early,
                   "acknowledge can leave its walk over the resources before the map is exhausted (exit at line %s): an endpoint observing "
                   "several resources has only the first matching one reset" % sorted(set(early)),
                   {"file": ab_["span"]["f"], "line": ab_["span"]["l"], "fn": ab_["path"]},
                   sample={"rule": "C15.4", "registry_walk_loops": len(walk)})
        # ---------------------------------------------- C15.4 acknowledge
        from rules import c14
        have_pred = c14.pred_closure(prog, SUBJ + "acknowledge", (0,)) is not None
        if have_pred:
            c14.predicate_rule(prog, rep, "C15.4", "acknowledge", (0,), {"endpoint", "message_id"}, 1, extra=c14.make_ack_extra(prog, i_mid))
        resets = []
        guard = {"n": 0, "bad": 0}
        hdr = {}
        try:
            hdr["mi"] = [i for i, f in enumerate(prog.adts["request::CoapRequest"]["variants"][0]["fields"]) if f["name"] == "message"][0]
            hdr["hi"] = [i for i, f in enumerate(prog.adts["packet::Packet"]["variants"][0]["fields"]) if f["name"] == "header"][0]
            hdr["di"] = [i for i, f in enumerate(prog.adts["header::Header"]["variants"][0]["fields"]) if f["name"] == "message_id"][0]
        except Exception:
            hdr = None

        def ack_store(I_, ctx, s, place, v, site):
            if isinstance(place.key, tuple) and place.key[0] == "h" and place.proj and place.proj[-1][0] == "f":
                if ctx.depth == 0:
                    resets.append((place.proj[-1][1], v))
                # wherever the match is decided (a find closure, an inline test in a loop): a reset happens only on a path
                # on which an endpoint equality test came out true and the observer's pending id equals the request's id
                if place.proj[-1][1] in (i_unack, i_mid) and not s.ghost.get("ack-guard-checked"):
                    s.ghost["ack-guard-checked"] = True
                    guard["n"] += 1
                    eqs = s.ghost.get("eqs", ())
                    ep_ok = any(s.entails(Aff.sym(e[0]) - 1) for e in eqs)
                    obs_place = Place(place.key, place.proj[:-1])
                    pend = I_.read(s, obs_place.extend(("f", i_mid)))
                    req = ack_args[1] if len(ack_args) > 1 else None
                    midv = None
                    if hdr and isinstance(req, RefV):
                        rq = I_.read(s, req.place)
                        try:
                            midv = rq.fields[hdr["mi"]].fields[hdr["hi"]].fields[hdr["di"]]
                        except Exception:
                            midv = None
                    # (a fact 'payload == acknowledged id' can only come from a comparison made with the value in hand, i.e. on
                    # a path on which the pending id was Some - also when the test was made on a copy: `x.message_id.is_some_and(..)`)
                    id_ok = isinstance(pend, EnumV) and 1 in pend.variants and isinstance(pend.variants[1], StructV) \
                        and isinstance(pend.variants[1].fields[0], IntV) and isinstance(midv, IntV) \
                        and s.entails_eq(pend.variants[1].fields[0].aff, midv.aff)
                    if not (ep_ok and id_ok):
                        guard["bad"] += 1
        ack_args = []
        out = c14.run_method(prog, "acknowledge")
        ab = find_body(prog, SUBJ + "acknowledge")
        if ab is not None:
            I = new_interp(prog)
            import obsutil
            obsutil.track_equalities(I)
            I.type_invariants["observe::Observer"] = obsutil.observer_invariant(prog)
            I.store_hooks.append(ack_store)
            st = State()
            args = subject_args(I, prog, ab, st, gargs)
            ack_args.extend(args)
            I, res = run(prog, ab, args=args, st=st, I=I, gargs=gargs)
            rep.ob("C15.4", "acknowledge|reset-only-on-match", guard["n"] >= 1 and guard["bad"] == 0,
                   "acknowledge resets an observer on %d of %d paths on which an endpoint match and 'pending id == acknowledged id' are not both "
                   "established" % (guard["bad"], guard["n"]), {"file": ab["span"]["f"], "line": ab["span"]["l"], "fn": ab["path"]},
                   sample={"rule": "C15.4", "reset_paths": guard["n"], "predicate_closure": have_pred})
            fields = {}
            for fi, v in resets:
                fields.setdefault(fi, []).append(v)
            okc = i_unack in fields and all(isinstance(v, IntV) and v.aff == Aff.const(0) for v in fields[i_unack])
            okm = i_mid in fields and all(isinstance(v, EnumV) and list(v.variants) == [0] for v in fields[i_mid])
            rep.ob("C15.4", "acknowledge|resets", okc and okm and set(fields) == {i_unack, i_mid},
                   "acknowledge does not reset exactly the unacknowledged counter (to 0) and the pending message id (to None) of the matching observer (fields written: %s)" % sorted(fields),
                   {"file": ab["span"]["f"], "line": ab["span"]["l"], "fn": ab["path"]})
        # ---------------------------------------------- C15.6 create_notification
        cn = find_body(prog, "observe::create_notification")
        if cn is None:
            rep.missing("C15.6", "create_notification")
        else:
            I = new_interp(prog)
            I.no_join_bodies.add(cn["id"])
            st = State()
            args = [I.mat(st, prog.ty(cn["locals"][i + 1]["ty"]), "a%d" % i) for i in range(cn["arg_count"])]
            st.add_fact(Aff.const(REG["header"]["max_token_length"]) - args[1].len)   # stated domain: token of 0-8 bytes
            seen_obs = []

            def hook(I_, s, call, cbody):
                if call.path == "packet::Packet::set_observe_value" and call.ctx.depth == 0:
                    seen_obs.append(call.args[1])
            I.call_hooks.append(hook)
            I, res = run(prog, cn, args=args, st=st, I=I)
            report_obligations(rep, "C15.6", I)
            site = {"file": cn["span"]["f"], "line": cn["span"]["l"], "fn": cn["path"]}
            pk = prog.adts["packet::Packet"]["variants"][0]["fields"]
            fidx = {f["name"]: i for i, f in enumerate(pk)}
            hd = {f["name"]: i for i, f in enumerate(prog.adts["header::Header"]["variants"][0]["fields"])}
            mcv = [v["name"] for v in prog.adts["header::MessageClass"]["variants"]]
            rtv = [v["name"] for v in prog.adts["header::ResponseType"]["variants"]]
            ok = {"version": bool(res), "type": bool(res), "code": bool(res), "mid": bool(res), "token": bool(res), "token-length": bool(res), "payload": bool(res)}
            for s, rv in res:
                if not isinstance(rv, StructV):
                    ok = {k: False for k in ok}
                    continue
                h = rv.fields[fidx["header"]]
                b0 = h.fields[hd["ver_type_tkl"]]
                bits = bitprov.resolve_bits(I, s, b0, 8) if isinstance(b0, IntV) else None
                if not (bits and bits[6] == 1 and bits[7] == 0):
                    ok["version"] = False
                tbits = (bits[4], bits[5]) if bits else None
                conf_true = s.entails(args[4].aff - 1)
                conf_false = s.entails(-args[4].aff)
                want = (0, 0) if conf_true else ((1, 0) if conf_false else None)
                if tbits != want:
                    ok["type"] = False
                code = h.fields[hd["code"]]
                if not (isinstance(code, EnumV) and list(code.variants) == [mcv.index("Response")] and isinstance(code.variants[mcv.index("Response")].fields[0], EnumV)
                        and list(code.variants[mcv.index("Response")].fields[0].variants) == [rtv.index("Content")]):
                    ok["code"] = False
                if not (isinstance(h.fields[hd["message_id"]], IntV) and h.fields[hd["message_id"]].aff == args[0].aff):
                    ok["mid"] = False
                tk = rv.fields[fidx["token"]]
                if not (isinstance(tk, VecV) and tk.len == args[1].len and tk.tag == args[1].tag):
                    ok["token"] = False
                # ... and the header announces it: the token-length nibble is the token's length (a header assigned after
                # set_token carries 0 there, and the peer reads the token bytes as options)
                tklbits = bits[:4] if bits else None
                okl = False
                if tklbits and isinstance(tk, VecV):
                    if tk.len.is_const():
                        okl = all(b == ((tk.len.c >> i) & 1) for i, b in enumerate(tklbits))
                    else:
                        sg_ = tk.len.single()
                        okl = sg_ is not None and sg_[1] == 1 and sg_[2] == 0 and bitprov.field_of(tuple(tklbits), sg_[0]) == {0: 0, 1: 1, 2: 2, 3: 3}
                if not okl:
                    ok["token-length"] = False
                pl = rv.fields[fidx["payload"]]
                if not (isinstance(pl, VecV) and pl.len == args[3].len and pl.tag == args[3].tag):
                    ok["payload"] = False
            for k, v in ok.items():
                rep.ob("C15.6", "notification|" + k, v, "create_notification: field '%s' of the result is not what the property states" % k, site)
            rep.ob("C15.6", "notification|observe", len(seen_obs) >= 1 and all(isinstance(x, IntV) and x.aff == args[2].aff for x in seen_obs),
                   "create_notification does not set the Observe option from its sequence argument", site)
