"""C13 - block option value: encode/decode inverse at bit level, size(),
type invariant szx <= 7 established by both constructors."""
from harness import *
from absdom import Aff
import bitprov
from rules.c05 import REG

LEVEL = "other"
EXPLANATION = ("bit provenance: the scalar handed to the uint option encoder must consist of szx[2:0] at bits 2:0, the "
               "more flag at bit 3 and ALL bits of num from bit 4 upwards; the decoder must read the same positions "
               "and recover every bit of num the type can hold; size() must be 1 << (szx + 4) and be panic-free under "
               "the type invariant szx <= 7, which both constructors must establish on their Ok paths; constructor "
               "failure classes by interval evaluation (thorough)")
NOT_DECIDED = "Not decided: minimal-length byte form beyond delegation to C06's integer types."
ASSUMPTIONS = ["BlockValue.size_exponent <= 7 where a BlockValue is taken as given (the property's stated domain is szx 0..7; the field is pub)"]

BV = "block_handler::block_value::BlockValue"


def bv_invariant(I, st, ty, fts, hint):
    vals = [TopV(t) for t in fts]
    a = I.prog.adts.get(BV)
    for i, f in enumerate(a["variants"][0]["fields"]):
        if f["name"] == "size_exponent":
            vals[i] = I.fresh_int(st, hint + ".szx", (8, False), 0, 7)
    return StructV(vals)


def field_index(prog, name):
    a = prog.adts.get(BV)
    for i, f in enumerate(a["variants"][0]["fields"]):
        if f["name"] == name:
            return i
    return None


def check(env, rep, tier):
    include(rep, env, tier, "c06", ("C06.3", "C06.4", "C06.8", "C06.9"), "C13.6",
            "'minimal-length unsigned integer, round trip of every triple': the Block value goes through the uint option codec - shortest "
            "big-endian form out, every admissible length decoded exactly")
    configs = ["default"] if tier == "quick" else ["default", "udp"]
    rep.configs = configs
    for cfg in configs:
        prog = env.prog(cfg)
        if BV not in prog.adts:
            rep.missing("C13.1", BV)
            continue
        i_num, i_more, i_szx = field_index(prog, "num"), field_index(prog, "more"), field_index(prog, "size_exponent")
        if None in (i_num, i_more, i_szx):
            rep.missing("C13.1", "fields num/more/size_exponent of BlockValue")
            continue
        num_bits = prog.types[prog.adts[BV]["variants"][0]["fields"][i_num]["ty"]].get("bits", 16)
        # ---------------------------------------------------------- encode
        enc = find_impl_fn(prog, "core::convert::From", "alloc::vec::Vec<u8>", BV, "from")
        dec = find_impl_fn(prog, "core::convert::TryFrom", BV, "alloc::vec::Vec<u8>", "try_from")
        if enc is None or dec is None:
            rep.missing("C13.1", "conversion pair of BlockValue")
            continue
        I = new_interp(prog)
        I.type_invariants[BV] = bv_invariant
        st = State()
        arg = I.mat(st, prog.ty(enc["locals"][1]["ty"]), "bv")
        for i in (i_num, i_more):
            if isinstance(arg.fields[i], TopV):
                fs = list(arg.fields)
                fs[i] = I.mat(st, fs[i].ty, "bv.%d" % i)
                arg = StructV(fs)
        s_num, s_more, s_szx = (bitprov.sym_of(arg.fields[i]) for i in (i_num, i_more, i_szx))
        captured = []

        def hook(I_, s, call, cbody):
            if cbody is not None and call.ctx.depth == 0 and call.args and isinstance(call.args[0], StructV) \
                    and call.args[0].fields and isinstance(call.args[0].fields[0], IntV):
                captured.append((s.copy(), call.args[0].fields[0], call.path))
        I.call_hooks.append(hook)
        I, res = run(prog, enc, args=[arg], st=st, I=I)
        report_obligations(rep, "C13.1", I)
        if len(captured) < 1:
            rep.ob("C13.1", "encode|scalar", False, "cannot establish: the scalar handed to the uint option encoder was not recognised in %s" % enc["path"])
        else:
            # one capture per path (the more flag may be branched on instead of shifted in)
            site = {"file": enc["span"]["f"], "line": enc["span"]["l"], "fn": enc["path"]}
            okz = okm = okn = okc = True
            fn_seen, via = {}, None
            want = {4 + i: i for i in range(num_bits)}
            for s, scalar, via in captured:
                bits = bitprov.resolve_bits(I, s, scalar)
                fn, fm, fz = bitprov.field_of(bits, s_num), bitprov.field_of(bits, s_more), bitprov.field_of(bits, s_szx)
                fn_seen = fn
                if fz != {0: 0, 1: 1, 2: 2}:
                    okz = False
                mv = arg.fields[i_more]
                mlo, mhi = s.range(mv.aff) if isinstance(mv, IntV) else (0, 1)
                if mv.cond is not None and isinstance(mv, IntV):
                    from absdom import holds
                    mlo, mhi = (1, 1) if holds(s, mv.cond, True) else (0, 0) if holds(s, mv.cond, False) else (mlo, mhi)
                more_bit_ok = fm == {3: 0} or (not fm and len(bits) > 3 and bits[3] in (0, 1) and mlo == mhi == bits[3])
                if not more_bit_ok:
                    okm = False
                if fn != want:
                    okn = False
                other = [i for i, b in enumerate(bits) if b not in (0,) and i not in fn and i not in fm and i not in fz and not (i == 3 and more_bit_ok)]
                if other:
                    okc = False
            rep.ob("C13.1", "encode|szx", okz, "encoder: SZX is not placed at bits 2:0 of the scalar", site)
            rep.ob("C13.1", "encode|more", okm, "encoder: the more flag is not placed at bit 3 of the scalar", site)
            rep.ob("C13.1", "encode|num", okn,
                   "encoder: NUM is not placed completely at bits 4 and up: %d of its %d bits reach the scalar (%s): block numbers >= %d lose their top bits" % (
                       len(fn_seen), num_bits, "positions ok" if all(want.get(k) == v for k, v in fn_seen.items()) else "wrong positions", 1 << max(len(fn_seen), 1)),
                   site, sample={"rule": "C13.1", "paths": len(captured), "num_bits_encoded": len(fn_seen), "via": via})
            rep.ob("C13.1", "encode|clean", okc, "encoder: some scalar bits come from neither NUM, M nor SZX", site)
        # ---------------------------------------------------------- decode
        I = new_interp(prog)
        I.no_join_bodies.add(dec["id"])
        st = State()
        arg = I.mat(st, prog.ty(dec["locals"][1]["ty"]), "value")
        scalars = []

        # the scalar is whatever the unsigned option-value decoder returns (its content is C06's business): it is
        # replaced by one fresh symbol of the decoder's width, so the bit fields are read off a single source
        uints0 = [find_impl_fn(prog, "core::convert::TryFrom", "option_value::OptionValueU%d" % w, "alloc::vec::Vec<u8>", "try_from") for w in (8, 16, 32, 64)]
        upaths0 = {b["path"]: w for b, w in zip(uints0, (8, 16, 32, 64)) if b is not None}
        inj0 = []

        def m_scalar(I_, s, call):
            from summaries import mk_ok, mk_err
            w = upaths0[call.path]
            s2 = s.copy()
            x = I_.fresh_int(s, "scalar", (w, False), 0, (1 << w) - 1)
            inj0.append(w)
            et = call.dest_ty[2][1] if call.dest_ty and call.dest_ty[0] == "adt" and len(call.dest_ty[2]) > 1 else None
            return [(s, mk_ok(StructV([x]), call.dest_ty)), (s2, mk_err(I_.mat(s2, et, "uint-err"), call.dest_ty))]
        for pth in upaths0:
            I.extra_models[pth] = m_scalar
        I, res = run(prog, dec, args=[arg], st=st, I=I)
        if not inj0:
            # the decoder does not go through the uint option decoder: analyse it as it stands
            I = new_interp(prog)
            I.no_join_bodies.add(dec["id"])
            st = State()
            arg = I.mat(st, prog.ty(dec["locals"][1]["ty"]), "value")
            I, res = run(prog, dec, args=[arg], st=st, I=I)
        report_obligations(rep, "C13.1", I, include_cast=True)
        oks = [(s, rv.variants[0].fields[0]) for s, rv in res if isinstance(rv, EnumV) and 0 in rv.variants and isinstance(rv.variants[0], StructV)]
        rep.ob("C13.1", "decode|ok-path", bool(oks), "decoder has no success path")
        site = {"file": dec["span"]["f"], "line": dec["span"]["l"], "fn": dec["path"]}
        for s, bv in oks[:1] if False else oks:
            if not isinstance(bv, StructV):
                rep.ob("C13.1", "decode|shape", False, "cannot establish: decoded value not tracked", site)
                continue
            num, more, szx = bv.fields[i_num], bv.fields[i_more], bv.fields[i_szx]
            bn = bitprov.resolve_bits(I, s, num)
            bz = bitprov.resolve_bits(I, s, szx)
            # the common source symbol (the decoded scalar)
            src = None
            for b in (bz or ()):
                if isinstance(b, tuple):
                    src = b[1]
            okz = src is not None and bitprov.field_of(bz, src) == {0: 0, 1: 1, 2: 2} and all(b == 0 for b in bz[3:])
            rep.ob("C13.1", "decode|szx", okz, "decoder: SZX is not read from bits 2:0 of the scalar", site)
            fn = bitprov.field_of(bn, src) if src else {}
            okn = fn == {i: 4 + i for i in range(num_bits)}
            rep.ob("C13.1", "decode|num", okn,
                   "decoder: NUM is not recovered completely from bits 4 and up of the scalar: %d of %d bits (scalar too narrow, or wrong shift)" % (len(fn), num_bits),
                   site, sample={"rule": "C13.1", "num_bits_decoded": len(fn)})
            # more: a comparison of bit 3 with 1
            okm = False
            if isinstance(more, IntV) and more.cond is not None:
                c = more.cond
                neg = False
                while c[0] == "not":
                    c, neg = c[1], not neg
                if c[0] == "cmp" and c[1] in ("Eq", "Ne"):
                    x, y = c[2], c[3]
                    if y.is_const():
                        sx = x.single()
                        if sx is not None:
                            bm = bitprov.resolve_bits(I, s, IntV(x, (32, False)), 32)
                            pos = [i for i, b in enumerate(bm) if b != 0]
                            if len(pos) == 1 and src and bm[pos[0]] == ("b", src, 3):
                                j = pos[0]
                                # the value is either 0 or 2^j
                                if y.c == 0:
                                    truth_on_set = c[1] == "Ne"
                                elif y.c == (1 << j):
                                    truth_on_set = c[1] == "Eq"
                                else:
                                    truth_on_set = None
                                if truth_on_set is not None and neg:
                                    truth_on_set = not truth_on_set
                                okm = truth_on_set is True
            elif isinstance(more, IntV):
                bm = bitprov.resolve_bits(I, s, more, 1)
                okm = src is not None and bm is not None and bm[0] == ("b", src, 3)
            rep.ob("C13.1", "decode|more", okm, "decoder: the more flag is not read as bit 3 of the scalar", site)
            # invariant established
            lo, hi = s.range(szx.aff) if isinstance(szx, IntV) else (0, 255)
            rep.ob("C13.3", "try_from|szx<=7", hi <= 7, "TryFrom<Vec<u8>> can produce size_exponent up to %s" % hi, site)
        # ---- C13.5 accept exactly the encodable values: with the scalar injected as an arbitrary value whose
        #      NUM part fits (scalar <= 0xFFFFF when NUM has 16 bits) no rejecting path may be feasible
        uints = [find_impl_fn(prog, "core::convert::TryFrom", "option_value::OptionValueU%d" % w, "alloc::vec::Vec<u8>", "try_from") for w in (8, 16, 32, 64)]
        upaths = {b["path"]: w for b, w in zip(uints, (8, 16, 32, 64)) if b is not None}
        I = new_interp(prog)
        I.no_join_bodies.add(dec["id"])
        st = State()
        arg = I.mat(st, prog.ty(dec["locals"][1]["ty"]), "value")
        injected = []
        top = (1 << (num_bits + 4)) - 1

        def m_inject(I_, s, call):
            w = upaths[call.path]
            x = I_.fresh_int(s, "scalar", (w, False), 0, min(top, (1 << w) - 1))
            injected.append(w)
            from summaries import mk_ok
            return [(s, mk_ok(StructV([x]), call.dest_ty))]
        for pth in upaths:
            I.extra_models[pth] = m_inject
        I, res = run(prog, dec, args=[arg], st=st, I=I)
        errs = [s for s, rv in res if isinstance(rv, EnumV) and 1 in rv.variants]
        if not injected:
            rep.missing("C13.5", "the unsigned option-value decoder the Block decoder reads its scalar with")
        else:
            rep.ob("C13.5", "decode|accepts-encodable", not errs and any(w * 1 >= num_bits + 4 for w in injected),
                   "decoder: a Block option value whose NUM fits %d bits (scalar up to %#x) can be rejected (paths: %d), "
                   "or the scalar is read with fewer than %d bits" % (num_bits, top, len(errs), num_bits + 4), site,
                   sample={"rule": "C13.5", "scalar_bits": injected, "max_scalar": top, "reject_paths": len(errs)})
        # ---------------------------------------------------------- size()
        b = find_body(prog, BV + "::size")
        if b is None:
            rep.missing("C13.3", "BlockValue::size")
        else:
            I = new_interp(prog)
            I.type_invariants[BV] = bv_invariant
            st = State()
            a0 = I.mat(st, prog.ty(b["locals"][1]["ty"]), "self")
            bvv = I.ensure(st, a0.place, prog.ty(b["locals"][1]["ty"])[2], "self")
            s_szx = bitprov.sym_of(bvv.fields[i_szx])
            I, res = run(prog, b, args=[a0], st=st, I=I)
            report_obligations(rep, "C13.3", I)
            ok = bool(res)
            for s, rv in res:
                org = rv.origin if isinstance(rv, IntV) else None
                if isinstance(rv, IntV) and rv.aff.is_const():
                    ok = False
                elif org is None or org[0] != "shl" or org[1] != 1 or org[2] != Aff.sym(s_szx) + REG["block"]["size_base_exponent"]:
                    ok = False
            rep.ob("C13.3", "size|formula", ok, "BlockValue::size() is not 1 << (size_exponent + 4)",
                   {"file": b["span"]["f"], "line": b["span"]["l"], "fn": b["path"]})
        # ---------------------------------------------------------- new()
        b = find_body(prog, BV + "::new")
        if b is None:
            rep.missing("C13.3", "BlockValue::new")
        else:
            I = new_interp(prog)
            I.no_join_bodies.add(b["id"])
            I, res = run(prog, b, I=I)
            report_obligations(rep, "C13.4", I)
            n_ok = 0
            for s, rv in res:
                if isinstance(rv, EnumV) and 0 in rv.variants and isinstance(rv.variants[0], StructV):
                    n_ok += 1
                    bv = rv.variants[0].fields[0]
                    szx = bv.fields[i_szx] if isinstance(bv, StructV) else None
                    lo, hi = s.range(szx.aff) if isinstance(szx, IntV) else (0, 255)
                    rep.ob("C13.3", "new|szx<=7", hi <= 7, "BlockValue::new can produce size_exponent up to %s" % hi,
                           {"file": b["span"]["f"], "line": b["span"]["l"], "fn": b["path"]})
            rep.ob("C13.3", "new|ok-path", n_ok > 0, "BlockValue::new has no success path")
            check_constructor_classes(prog, rep, i_num, i_szx)


def check_constructor_classes(prog, rep, i_num, i_szx):
    """C13.4: BlockValue::new per size class (interval evaluation, the search over 0..64 evaluated exactly)"""
    b = find_body(prog, BV + "::new")
    if b is None:
        return
    site = {"file": b["span"]["f"], "line": b["span"]["l"], "fn": b["path"]}
    classes = [("size=0", 0, 0, None), ("size 1..15", 1, 15, 0)]
    for k in range(8):
        classes.append(("size %d..%d" % (16 << k, (32 << k) - 1), 16 << k, (32 << k) - 1, k))
    classes.append(("size 4096..8191", 4096, 8191, None))
    classes.append(("size >= 8192", 8192, (1 << 63) - 1, None))
    for name, lo, hi, want in classes:
        I = new_interp(prog)
        I.precise_find = True
        I.no_join_bodies.add(b["id"])
        I.K_ret = 200
        I.K = 400
        st = State()
        args = [I.mat(st, prog.ty(b["locals"][i + 1]["ty"]), "a%d" % i) for i in range(b["arg_count"])]
        st.add_fact(args[2].aff - lo)
        st.add_fact(Aff.const(hi) - args[2].aff)
        st.add_fact(Aff.const(65535) - args[0].aff)      # representable block number
        I, res = run(prog, b, args=args, st=st, I=I)
        got = set()
        for s, rv in res:
            if isinstance(rv, EnumV):
                for vi, p in rv.variants.items():
                    if vi == 1:
                        got.add("Err")
                    else:
                        bv = p.fields[0]
                        z = bv.fields[i_szx]
                        l, h = s.range(z.aff) if isinstance(z, IntV) else (None, None)
                        got.add(l if l == h else "szx in [%s,%s]" % (l, h))
                        n = bv.fields[i_num]
                        if not (isinstance(n, IntV) and n.aff == args[0].aff):
                            got.add("num changed")
        exp = {"Err"} if want is None else {want}
        rep.ob("C13.4", "new|" + name, got == exp,
               "BlockValue::new with %s yields %s, expected %s" % (name, sorted(map(str, got)), sorted(map(str, exp))), site,
               sample={"rule": "C13.4", "class": name, "result": sorted(map(str, got))})
    # unrepresentable block number
    I = new_interp(prog)
    I.precise_find = True
    st = State()
    args = [I.mat(st, prog.ty(b["locals"][i + 1]["ty"]), "a%d" % i) for i in range(b["arg_count"])]
    st.add_fact(args[0].aff - 65536)
    st.add_fact(args[2].aff - 16)
    st.add_fact(Aff.const(31) - args[2].aff)
    I, res = run(prog, b, args=args, st=st, I=I)
    ok = bool(res) and all(isinstance(rv, EnumV) and list(rv.variants) == [1] for s, rv in res)
    rep.ob("C13.4", "new|num>65535", ok, "BlockValue::new accepts a block number above 65535 (silently truncated?)", site)
