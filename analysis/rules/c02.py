"""C02 - decoding is lossless: code byte bijection, copy provenance of every
decoded field, canonical extension ranges."""
import os
from harness import *
from absdom import Aff
import bitprov
import tab
from rules.c05 import REG, leaf
from rules.c03 import nibble, elem_info

LEVEL = "other"
EXPLANATION = ("u8 -> MessageClass -> u8 is composed from the two extracted tables and must be the identity on all 256 "
               "bytes; Packet::from_bytes is re-analysed once per class of option header (delta nibble class x length "
               "nibble class, injected at the nibble definitions): the option number inserted must be the running "
               "number + (nibble | next byte + 13 | big-endian next two bytes + 269), the value must be a copy of "
               "buf[cursor + 1 + extension bytes .. + length] with the length formed the same way from the bytes that "
               "follow the delta extension; the token is a copy of buf[4..4+tkl], the payload a copy of everything "
               "after the 0xFF marker; header byte / code / message id are covered by C01.2")
NOT_DECIDED = "Not decided: byte equality of the re-encoding for all accepted inputs."
ASSUMPTIONS = ["little-endian target for the u16::from_be model"]

ENTRY = "packet::Packet::from_bytes"
FR = REG["option_framing"]


class ClassInjector:
    def __init__(self, dcls, lcls):
        self.dcls, self.lcls = dcls, lcls
        self.count = 0

    def __call__(self, I, ctx, st, v):
        nb = nibble(v)
        if nb is None or st.dead:
            return
        sym, lo = nb
        inf = elem_info(I, sym)
        if inf is None or (inf[2].is_const() and inf[2].c == 0):
            return
        cls = self.dcls if lo == 4 else self.lcls if lo == 0 else None
        if cls is None:
            return
        if cls == "inline":
            st.add_fact(Aff.const(FR["inline_max"]) - v.aff)
        elif cls == "ext8":
            st.add_eq(v.aff, Aff.const(FR["ext8"]))
        else:
            st.add_eq(v.aff, Aff.const(FR["ext16"]))
        st.add_ne(Aff.sym(sym), Aff.const(255))
        st.ghost[("nib", lo)] = (v.aff, sym, inf[2])
        self.count += 1


def elem_at(I, st, base, off):
    """symbols of input bytes read at offset off"""
    out = []
    for s in st.bounds:
        inf = I.syminfo.get(s)
        if inf and inf[0] == "elem" and inf[1] == base and st.entails_eq(inf[2], off):
            out.append(s)
    return out


def ext_value_ok(I, st, base, expr, cls, nib_aff, at):
    """expr (delta or length) must be the class's function of the bytes at `at`"""
    if cls == "inline":
        return st.entails_eq(expr, nib_aff), 0
    if cls == "ext8":
        for e in elem_at(I, st, base, at):
            if st.entails_eq(expr, Aff.sym(e) + FR["ext8_bias"]):
                return True, 1
        return False, 1
    # ext16: expr = r + 269 with r's high byte = byte at `at`, low byte = byte at `at`+1
    r = expr - FR["ext16_bias"]
    # affine spelling: r = 256 * byte(at) + byte(at + 1)
    if r.c == 0 and len(r.t) == 2:
        byco = {co: sy for sy, co in r.t}
        if set(byco) == {256, 1}:
            ih, il = I.syminfo.get(byco[256]), I.syminfo.get(byco[1])
            if ih and il and ih[0] == "elem" and il[0] == "elem" and ih[1] == base and il[1] == base \
                    and st.entails_eq(ih[2], at) and st.entails_eq(il[2], at + 1) \
                    and 0 <= st.range(Aff.sym(byco[256]))[0] and st.range(Aff.sym(byco[256]))[1] <= 255 \
                    and 0 <= st.range(Aff.sym(byco[1]))[0] and st.range(Aff.sym(byco[1]))[1] <= 255:
                return True, 2
    sg = r.single()
    if sg is None or sg[1] != 1 or sg[2] != 0:
        return False, 2
    bits = bitprov.resolve_bits(I, st, IntV(r, (16, False)), 16)
    if not bits:
        return False, 2
    hi_syms = set(b[1] for b in bits[8:] if isinstance(b, tuple))
    lo_syms = set(b[1] for b in bits[:8] if isinstance(b, tuple))
    if len(hi_syms) != 1 or len(lo_syms) != 1:
        return False, 2
    hs, ls = next(iter(hi_syms)), next(iter(lo_syms))
    ok = all(b == ("b", hs, i) for i, b in enumerate(bits[8:])) and all(b == ("b", ls, i) for i, b in enumerate(bits[:8]))
    ih, il = I.syminfo.get(hs), I.syminfo.get(ls)
    ok = ok and ih and il and ih[0] == "elem" and il[0] == "elem" and ih[1] == base and il[1] == base \
        and st.entails_eq(ih[2], at) and st.entails_eq(il[2], at + 1)
    return bool(ok), 2


def value_by_bits(I, st, aff):
    """numeric value of `symbol + constant` when every known bit of the symbol comes from bytes that are pinned on this
    path (the byte-swapped two-byte extension, whose relation to its bytes is kept as bit provenance)"""
    sg = aff.single()
    if sg is None or sg[1] != 1:
        return None
    bits = bitprov.resolve_bits(I, st, IntV(Aff.sym(sg[0]), (16, False)), 16)
    if not bits:
        return None
    v = 0
    for i, b in enumerate(bits):
        if b in (0, 1):
            v |= b << i
        elif isinstance(b, tuple):
            lo, hi = st.lo_hi(b[1])
            if lo != hi:
                return None
            v |= ((lo >> b[2]) & 1) << i
        else:
            return None
    return v + sg[2]


def check(env, rep, tier):
    include(rep, env, tier, "c04", ("C04.2",), "C02.6",
            "'re-serialising without a size limit reproduces the input': the serialiser refuses a message for its size only when a limit was "
            "given and the accounted length exceeds it (no built-in cap on the unlimited path)")
    include(rep, env, tier, "c01", ("C01.2", "C01.4", "C01.6"), "C02.3", "'re-serialising reproduces the input': the encoder emits the RFC option headers and the payload behind its marker")
    configs = ["default"] if tier == "quick" else ["default", "nodefault", "udp"]
    rep.configs = configs
    for cfg in configs:
        prog = env.prog(cfg)
        # ---------------------------------------------------------- C02.1
        fw = find_impl_fn(prog, "core::convert::From", "header::MessageClass", "u8", "from")
        bw = find_impl_fn(prog, "core::convert::From", "u8", "header::MessageClass", "from")
        if fw is None or bw is None:
            rep.missing("C02.1", "code byte conversion pair")
        else:
            frows, _ = tab.extract_table(prog, fw)
            brows, _ = tab.extract_table(prog, bw)
            back = {}
            res_identity = False
            for r in brows:
                p, payload = leaf(r["arg"])
                if p == ("Reserved",):
                    res_identity = isinstance(r["ret"], dict) and r["ret"].get("input") == "arg.Reserved.0"
                else:
                    back[p] = r["ret"].get("int") if isinstance(r["ret"], dict) else None
            covered = set()
            for r in frows:
                a = r["arg"]
                p, payload = leaf(r["ret"])
                if "int" in a:
                    v = a["int"]
                    covered.add(v)
                    rep.ob("C02.1", "byte|%d" % v, back.get(p) == v,
                           "code byte 0x%02X decodes to %s which re-encodes as %s" % (v, "::".join(p), back.get(p)),
                           sample={"rule": "C02.1", "byte": v, "class": "::".join(p), "back": back.get(p)})
                else:
                    lo, hi = a["range"]
                    vals = set(range(lo, hi + 1)) - set(a.get("excl", []))
                    ok = p == ("Reserved",) and isinstance(payload, dict) and payload.get("input") == "arg" and res_identity
                    rep.ob("C02.1", "bytes|wildcard", ok,
                           "the %d unassigned code bytes do not round-trip through Reserved(n)" % len(vals),
                           sample={"rule": "C02.1", "wildcard_bytes": len(vals)})
                    covered |= vals
            rep.ob("C02.1", "all-256", covered == set(range(256)), "the code byte table does not cover all 256 values (%d covered)" % len(covered))
        # ---------------------------------------------------------- C02.5 "no two different accepted datagrams parse to
        #      equal messages": equality of messages is the derived field-by-field one (not e.g. equality of a limited
        #      or lossy re-serialisation)
        for tys in ("packet::Packet", "header::Header", "header::MessageClass"):
            ims = [im for im in prog.impls if im.get("trait") == "core::cmp::PartialEq" and prog.types[im["self_ty"]]["s"] == tys]
            if ims:
                rep.ob("C02.5", "eq-derived|" + tys, all(im.get("derived") for im in ims),
                       "PartialEq for %s is hand-written: two parsed messages can compare equal without having the same fields" % tys)
        # ---------------------------------------------------------- C02.2
        body = find_body(prog, ENTRY)
        if body is None:
            rep.missing("C02.2", ENTRY)
            continue
        site = {"file": body["span"]["f"], "line": body["span"]["l"], "fn": ENTRY}
        for dcls in ("inline", "ext8", "ext16"):
            for lcls in ("inline", "ext8", "ext16"):
                I = new_interp(prog)
                I.no_join_bodies.add(body["id"])
                I.no_join_prefixes = ("packet::",)
                inj = ClassInjector(dcls, lcls)
                I.value_hooks.append(inj)
                st = State()
                buf = I.mat(st, prog.ty(body["locals"][1]["ty"]), "buf")
                recs = []

                def hook(I_, s, call, cbody, recs=recs):
                    # (the option walk may sit in a private helper of the decoder: every crate body reached from ENTRY counts)
                    if call.path.endswith("BTreeMap::<K, V, A>::entry") and isinstance(call.args[1], IntV):
                        s.ghost["key"] = call.args[1].aff
                    elif call.path.endswith("LinkedList::<T, A>::push_back"):
                        snap = [v for k, v in s.cells.items() if isinstance(k, tuple) and k and k[0] == "snap"]
                        recs.append((s.copy(), call.args[1], s.ghost.get("key"), snap, call.site))
                I.call_hooks.append(hook)
                I, res = run(prog, body, args=[buf], st=st, I=I)
                good = bool(recs) and inj.count > 0
                if os.environ.get("VERIF_DEBUG_C02"):
                    print("C02.2", dcls, lcls, "recs", len(recs), "inj", inj.count)
                for s, val, key, snap, csite in recs:
                    nd, nl = s.ghost.get(("nib", 4)), s.ghost.get(("nib", 0))
                    if nd is None or nl is None or key is None or not isinstance(val, VecV):
                        if os.environ.get("VERIF_DEBUG_C02"):
                            print("C02.2", dcls, lcls, "nd", nd, "nl", nl, "key", key, "val", val)
                        good = False
                        continue
                    o = nd[2]                      # offset of the option header byte
                    heads = [f.aff for sv in snap if isinstance(sv, StructV) for f in sv.fields if isinstance(f, IntV)]
                    # delta
                    okd = False
                    dext = {"inline": 0, "ext8": 1, "ext16": 2}[dcls]
                    for h in heads + [Aff.const(0)]:
                        d = key - h
                        ok1, _ = ext_value_ok(I, s, buf.base, d, dcls, nd[0], o + 1)
                        if ok1:
                            okd = True
                            break
                    okl, lext = ext_value_ok(I, s, buf.base, val.len, lcls, nl[0], o + 1 + dext)
                    tag = val.tag
                    okv = isinstance(tag, tuple) and tag[0] == "copy" and tag[1] == buf.base and s.entails_eq(tag[2], o + 1 + dext + lext) \
                        and s.entails_eq(tag[3], val.len)
                    if os.environ.get("VERIF_DEBUG_C02"):
                        print("C02.2", dcls, lcls, "okd", okd, "okl", okl, "okv", okv, "key", key, "heads", heads, "len", val.len, "tag", tag, "o", o)
                    if not (okd and okl and okv):
                        good = False
                rep.ob("C02.2", "option|%s-delta|%s-length" % (dcls, lcls), good,
                       "decoder: for a %s delta and a %s length the option number / value are not formed from the bytes RFC 7252 section 3.1 prescribes "
                       "(number = running number + delta; value = copy of the bytes after the extension bytes)" % (dcls, lcls), site,
                       sample={"rule": "C02.2", "delta_class": dcls, "length_class": lcls, "insertions_checked": len(recs), "ok": good})
        # ---- the largest option number is accepted: a first option with the two-byte delta extension FE F2
        #      (65266 + 269 = 65535) and an inline length reaches the insertion with exactly that delta
        I = new_interp(prog)
        I.no_join_bodies.add(body["id"])
        I.no_join_prefixes = ("packet::",)
        inj = ClassInjector("ext16", "inline")
        I.value_hooks.append(inj)

        def pin_ext(I_, ctx, st_, v):
            nd = st_.ghost.get(("nib", 4))
            if nd is None or not isinstance(v, IntV) or st_.dead:
                return
            sg = v.aff.single()
            inf = I_.syminfo.get(sg[0]) if sg and sg[1] == 1 and sg[2] == 0 else None
            if inf and inf[0] == "elem" and inf[1] == buf_max.base:
                if st_.entails_eq(inf[2], nd[2] + 1):
                    st_.add_eq(v.aff, Aff.const((65535 - FR["ext16_bias"]) >> 8))
                elif st_.entails_eq(inf[2], nd[2] + 2):
                    st_.add_eq(v.aff, Aff.const((65535 - FR["ext16_bias"]) & 0xFF))
            elif inf and sg and v.ty is not None and v.ty[0] >= 16 and st_.lo_hi(sg[0])[0] != st_.lo_hi(sg[0])[1]:
                # a value assembled from the pinned bytes by shifts / byte swaps: pin it, too (so that the range
                # check that follows is decided on this path)
                val = value_by_bits(I_, st_, v.aff)
                if val is not None and val == 65535 - FR["ext16_bias"]:
                    st_.add_eq(v.aff, Aff.const(val))
        I.value_hooks.append(pin_ext)
        st = State()
        buf_max = I.mat(st, prog.ty(body["locals"][1]["ty"]), "buf")
        recs_max = []

        def hook_max(I_, s, call, cbody):
            if call.path.endswith("BTreeMap::<K, V, A>::entry") and isinstance(call.args[1], IntV):
                s.ghost["key"] = call.args[1].aff
            elif call.path.endswith("LinkedList::<T, A>::push_back"):
                snap = [v for k, v in s.cells.items() if isinstance(k, tuple) and k and k[0] == "snap"]
                recs_max.append((s.copy(), s.ghost.get("key"), snap))
        I.call_hooks.append(hook_max)
        I, res = run(prog, body, args=[buf_max], st=st, I=I)
        ok_max = False
        for s, key, snap in recs_max:
            if key is None or infeasible(s):
                continue
            heads = [f.aff for sv in snap if isinstance(sv, StructV) for f in sv.fields if isinstance(f, IntV)]
            for h in heads + [Aff.const(0)]:
                d = key - h
                if s.entails_eq(d, Aff.const(65535)) or value_by_bits(I, s, d) == 65535:
                    ok_max = True
        rep.ob("C02.2", "option|max-number-accepted", ok_max and inj.count > 0,
               "decoder: an option whose delta is the two-byte extension FE F2 (+269 = 65535, the largest option number) never reaches the "
               "insertion: a legal option number is rejected (an off-by-one in the 16-bit range check)", site,
               sample={"rule": "C02.2", "insertions_seen": len(recs_max)})
        # ---- token and payload provenance (no injection)
        I = new_interp(prog)
        I.no_join_bodies.add(body["id"])
        I.no_join_prefixes = ("packet::",)
        st = State()
        buf = I.mat(st, prog.ty(body["locals"][1]["ty"]), "buf")
        scan = {"loops": 0}

        def lhook(I_, ctx, h, head, backs, exits, scan=scan):
            # the option scan: the loop of the decoder; it is left either with the cursor at the end of the input
            # or at a payload marker
            if not ctx.body["path"].startswith("packet::"):
                return
            scan["loops"] += 1
            for tg_, e_ in exits:
                # (whether the exit leads to a rejection is seen at the return: only accepted paths are judged)
                fin = any(str(x).startswith(("phi", "prev")) and e_.entails(Aff.sym(x) - buf.len) for x in list(e_.bounds))
                marker = any((I_.syminfo.get(x) or ("",))[0] == "elem" and e_.bounds.get(x) == (255, 255) for x in list(e_.bounds))
                e_.ghost["option-scan"] = "finished" if fin else "marker" if marker else "left-early"
        I.loop_hooks.append(lhook)
        I, res = run(prog, body, args=[buf], st=st, I=I)
        n_acc, blind = 0, 0
        for s, rv in res:
            if isinstance(rv, EnumV) and list(rv.variants) == [0]:
                n_acc += 1
                if s.ghost.get("option-scan") is None:
                    blind += 1
                elif s.ghost.get("option-scan") == "left-early":
                    scan["early"] = scan.get("early", 0) + 1
        rep.ob("C02.4", "option-scan-ends-at-end-or-marker", scan.get("early", 0) == 0 and scan["loops"] >= 1,
               "the option scan can be left on %d path(s) with input remaining that is not a payload marker: trailing bytes are neither "
               "parsed as an option nor rejected (they are swallowed like a marker or dropped)" % scan.get("early", 0), site)
        rep.ob("C02.4", "accept-after-option-scan", blind == 0 and n_acc > 0 and scan["loops"] >= 1,
               "a datagram is accepted on %d of %d paths that never went through the option scan: whatever follows the token "
               "(options, payload) is dropped from the parsed message, so re-encoding cannot reproduce the input" % (blind, n_acc), site,
               sample={"rule": "C02.4", "accepting_paths": n_acc, "without_scan": blind})
        P = {f["name"]: i for i, f in enumerate(prog.adts["packet::Packet"]["variants"][0]["fields"])}
        okt = okp = False
        n_ok = 0
        for s, rv in res:
            if not (isinstance(rv, EnumV) and list(rv.variants) == [0]):
                continue
            n_ok += 1
            okt = okp = True if n_ok == 1 else (okt, okp)[0]
        okt = okp = n_ok > 0
        for s, rv in res:
            if not (isinstance(rv, EnumV) and list(rv.variants) == [0]) or infeasible(s):
                continue
            pk = rv.variants[0].fields[0]
            tk, pl = pk.fields[P["token"]], pk.fields[P["payload"]]
            tg = tk.tag if isinstance(tk, VecV) else None
            if not (isinstance(tg, tuple) and tg[0] == "copy" and tg[1] == buf.base and tg[2] == Aff.const(4) and s.entails(Aff.const(REG["header"]["max_token_length"]) - tk.len)):
                okt = False
            if isinstance(pl, VecV) and pl.len == Aff.const(0):
                continue
            pg = pl.tag if isinstance(pl, VecV) else None
            if not (isinstance(pg, tuple) and pg[0] == "copy" and pg[1] == buf.base and s.entails_eq(pg[2] + pg[3], buf.len)):
                okp = False
            else:
                marks = [e for e in elem_at(I, s, buf.base, pg[2] - 1) if s.lo_hi(e) == (255, 255)]
                if not marks:
                    okp = False
        rep.ob("C02.2", "token", okt, "the decoded token is not a copy of buf[4..4+token length] (token length <= 8)", site)
        rep.ob("C02.2", "payload", okp, "the decoded payload is not a copy of everything after the first 0xFF marker", site)
