"""C14 - observe registry structure: matching predicates, replace vs append,
no creation on notify."""
from harness import *
from absdom import Aff
import obsutil
from rules.c15 import subject_args, closure_body, obs_field, SUBJ

LEVEL = "other"
EXPLANATION = ("the closures that decide replacement (register), removal (deregister) and acknowledgement are analysed "
               "in context: the set of Observer fields each one projects must be exactly {endpoint} / {endpoint, token} "
               "/ {endpoint, message_id}, and a path may return true only when every equality test made on it holds "
               "(conjunction); register performs an indexed store on the found path and a push otherwise, of an "
               "observer built with counter 0 and no pending id; deregister mutates only through Vec::remove on the "
               "found path; a notification round reaches no inserting map API; of the subject's operations only deregister and resource_changed reach a call that takes elements out of an observer list or entries out of the resource map (C14.8, call graph)")
NOT_DECIDED = "Not decided: statements about sequences of operations as such (history semantics)."
ASSUMPTIONS = ["requests handed to Subject come from an endpoint (request.source is Some)"]


def pred_closure(prog, parent, idx):
    """the matching predicate of a Subject method: the closure (wherever it is nested, whatever its index) that takes
    a shared reference to an Observer and returns bool; falls back to the closure at the given index path"""
    cands = []
    for b in prog.bodies.values():
        if b.get("promoted") or not b["path"].startswith(parent + "::{closure") or b["arg_count"] < 2:
            continue
        pt = prog.types[b["locals"][2]["ty"]]["s"]
        core_t = pt.replace("&mut ", "").replace("&", "")
        if pt.startswith("&") and core_t.startswith("observe::Observer<") and prog.types[b["locals"][0]["ty"]]["s"] == "bool":
            cands.append(b)
    if len(cands) == 1:
        return cands[0]
    return closure_body(prog, parent, list(idx))


def run_method(prog, name, hooks=None, ret_closures=(), store_hooks=None):
    gargs = (("param", "Endpoint"),)
    body = find_body(prog, SUBJ + name)
    if body is None:
        return None
    I = new_interp(prog)
    obsutil.track_equalities(I)
    I.type_invariants["observe::Observer"] = obsutil.observer_invariant(prog)
    st = State()
    args = subject_args(I, prog, body, st, gargs)
    results = {}
    for idx in ret_closures:
        cb = pred_closure(prog, SUBJ + name, idx)
        if cb is None:
            results[idx] = None
            continue
        results[idx] = []
        I.no_join_bodies.add(cb["id"])

        def hook(I_, ctx, outs, key=idx):
            for s, rv in outs:
                results[key].append((s.copy(), rv, ctx))
        I.return_hooks[cb["id"]] = hook
    if hooks:
        for h in hooks:
            I.call_hooks.append(h)
    if store_hooks:
        for h in store_hooks:
            I.store_hooks.append(h)
    I.no_join_bodies.add(body["id"])
    I, res = run(prog, body, args=args, st=st, I=I, gargs=gargs)
    return I, res, results, body, args


def predicate_rule(prog, rep, rule, method, idx, want_fields, n_eq, extra=None):
    out = run_method(prog, method, ret_closures=[idx])
    if out is None:
        rep.missing(rule, SUBJ + method)
        return
    I, res, results, body, args = out
    cb = pred_closure(prog, SUBJ + method, idx)
    if cb is None or results[idx] is None:
        rep.missing(rule, "matching closure of %s" % method)
        return
    site = {"file": cb["span"]["f"], "line": cb["span"]["l"], "fn": cb["path"]}
    got = obsutil.fields_projected(prog, cb, "observe::Observer")
    rep.ob(rule, "%s|fields" % method, got == set(want_fields),
           "the %s predicate looks at observer fields %s, expected exactly %s" % (method, sorted(got), sorted(want_fields)), site,
           sample={"rule": rule, "method": method, "fields": sorted(got)})
    n_true = 0
    ok = True
    for s, rv, ctx in results[idx]:
        rv = I.as_int(s, rv, (1, False), "ret")
        can_be_true = not s.entails(-rv.aff)
        if rv.cond is not None:
            from absdom import holds
            can_be_true = not holds(s, rv.cond, False)
        if not can_be_true:
            continue
        n_true += 1
        # refine to the true outcome
        s2 = s.copy()
        from absdom import assume
        sts = assume(s2, rv.cond if rv.cond is not None else ("cmp", "Ne", rv.aff, Aff.const(0)), True)
        for s3 in sts:
            n, all_true = obsutil.eqs_all_true(s3, ctx)
            if n != n_eq or not all_true:
                ok = False
            if extra is not None and not extra(I, s3, ctx, args):
                ok = False
    rep.ob(rule, "%s|conjunction" % method, ok and n_true > 0,
           "the %s predicate can return true on a path where not all of its %d equality tests hold (or makes a different number of tests)" % (method, n_eq),
           site, sample={"rule": rule, "method": method, "true_paths": n_true})


def check(env, rep, tier):
    include(rep, env, tier, "c19", ("C19.5",), "C14.7",
            "'operations on one resource never change another resource's observers': the registry is keyed by the request's path text, "
            "which has to tell apart every two different segment lists the setter can produce (leading empty segments kept)")
    include(rep, env, tier, "c15", ("C15.2", "C15.3", "C15.4"), "C14.6", "'for every history of ... notification rounds and acknowledgements': which observers a later round drops depends on the pending id and the counter every round and acknowledgement leave behind")
    configs = ["default"] if tier == "quick" else ["default", "nodefault"]
    rep.configs = configs
    for cfg in configs:
        prog = env.prog(cfg)
        if "observe::Observer" not in prog.adts:
            rep.missing("C14.1", "struct Observer")
            continue
        i_unack, i_mid = obs_field(prog, "unacknowledged_messages"), obs_field(prog, "message_id")
        # ---- C14.1 predicates
        predicate_rule(prog, rep, "C14.1", "register", (0,), {"endpoint"}, 1)
        predicate_rule(prog, rep, "C14.1", "deregister", (0,), {"endpoint", "token"}, 2)

        # ---- C14.8 who may shrink a registry list: observers leave through deregister (matching request) or through the
        #      notification round of their resource - no other public operation of the subject reaches a call that takes
        #      elements out of an observer list, or entries out of the resource map
        SHRINK_VEC = ("remove", "swap_remove", "retain", "retain_mut", "clear", "pop", "truncate", "drain", "split_off", "dedup_by", "dedup_by_key", "extract_if", "resize", "set_len")
        SHRINK_MAP = ("remove", "remove_entry", "clear", "retain", "pop_first", "pop_last", "split_off", "extract_if")
        n_pub = 0
        for mb in prog.bodies.values():
            if mb.get("promoted") or mb.get("kind") == "Closure" or not mb["path"].startswith(SUBJ) or "::tests::" in mb["id"] or "::test::" in mb["id"] \
                    or "{closure" in mb["path"]:
                continue
            meth = mb["path"][len(SUBJ):]
            if "::" in meth:
                continue
            n_pub += 1
            shr = []
            for x in reachable(prog, mb):
                if not x["path"].startswith("observe::"):
                    continue
                for bb in x["blocks"]:
                    t = bb["term"]
                    if t["k"] != "call" or bb.get("cleanup"):
                        continue
                    pth = (t.get("resolved") or t.get("callee") or {}).get("path", "") or ""
                    nm_ = pth.rsplit("::", 1)[-1]
                    a0t = ""
                    if t["args"] and t["args"][0]["k"] in ("copy", "move") and not t["args"][0]["place"]["p"]:
                        a0t = prog.types[x["locals"][t["args"][0]["place"]["l"]]["ty"]]["s"]
                    if pth.startswith("alloc::vec::Vec::<T, A>::") and nm_ in SHRINK_VEC and "observe::Observer" in a0t:
                        shr.append("Vec::%s in %s" % (nm_, x["path"]))
                    if pth.startswith("alloc::collections::btree::map::BTreeMap::<K, V, A>::") and nm_ in SHRINK_MAP and "observe::Resource" in a0t:
                        shr.append("BTreeMap::%s in %s" % (nm_, x["path"]))
                    if pth in ("core::mem::take", "core::mem::replace", "core::mem::swap") and ("observe::Observer" in a0t or "observe::Resource" in a0t):
                        shr.append("%s in %s" % (pth, x["path"]))
            rep.ob("C14.8", "only-deregister-and-notify-remove|" + meth, not shr or meth in ("deregister", "resource_changed"),
                   "Subject::%s can take observers out of the registry (%s): observers may only leave through a matching deregistration or "
                   "through the notification round of their own resource" % (meth, "; ".join(sorted(set(shr))[:3])),
                   {"file": mb["span"]["f"], "line": mb["span"]["l"], "fn": mb["path"]})
        rep.floor("C14.8", "subject operations examined", n_pub, 7)
        # the index a search returns is used on the vector itself: the search has to count from the front
        for meth in ("register", "deregister"):
            mb = find_body(prog, SUBJ + meth)
            if mb is None:
                continue
            revs = []
            for x in reachable(prog, mb):
                if not x["path"].startswith("observe::"):
                    continue
                for bb in x["blocks"]:
                    t = bb["term"]
                    if t["k"] == "call" and not bb.get("cleanup"):
                        pth = (t.get("resolved") or t.get("callee") or {}).get("path", "") or ""
                        if pth.endswith("Iterator::rev") or pth.endswith("::reverse"):
                            revs.append((x["path"], bb["tspan"]["l"]))
            rep.ob("C14.2", "%s|forward-search" % meth, not revs,
                   "%s searches the observer list back to front (%s): a position counted from the end is then used as an index from the front "
                   "(another observer is replaced / removed)" % (meth, revs[:2]), {"file": mb["span"]["f"], "line": mb["span"]["l"], "fn": mb["path"]})
        rest_of_check(prog, rep, i_unack, i_mid)
        keyed_access(prog, rep)


def make_ack_extra(prog, i_mid):
    if True:
        def ack_extra(I, s, ctx, args):
            # the observer's pending id equals the request's message id on the true path
            ref = s.cells.get((ctx.fid, 2))
            if isinstance(ref, RefV):
                inner = I.read(s, ref.place)
                if isinstance(inner, RefV):
                    ref = inner
            if not isinstance(ref, RefV):
                return False
            m = I.read(s, ref.place.extend(("f", i_mid)))
            # (the Some payload entailed equal to the acknowledged id: such a fact only arises from a comparison made on a path
            # on which the pending id was Some - also when the predicate tested a copy, as in `x.message_id.is_some_and(..)`)
            if not (isinstance(m, EnumV) and 1 in m.variants and isinstance(m.variants[1], StructV)):
                return False
            pend = m.variants[1].fields[0]
            # request.message.header.message_id
            req = args[1]
            rq = I.read(s, req.place)
            mid = None
            try:
                a = prog.adts["request::CoapRequest"]["variants"][0]["fields"]
                mi = [i for i, f in enumerate(a) if f["name"] == "message"][0]
                pk = prog.adts["packet::Packet"]["variants"][0]["fields"]
                hi = [i for i, f in enumerate(pk) if f["name"] == "header"][0]
                hd = prog.adts["header::Header"]["variants"][0]["fields"]
                di = [i for i, f in enumerate(hd) if f["name"] == "message_id"][0]
                mid = rq.fields[mi].fields[hi].fields[di]
            except Exception:
                return False
            return isinstance(pend, IntV) and isinstance(mid, IntV) and s.entails_eq(pend.aff, mid.aff)
        return ack_extra


def rest_of_check(prog, rep, i_unack, i_mid):
    if True:
        # ---- C14.2 register: replace in place vs append
        marks = []

        def reg_hook(I_, s, call, cbody):
            if call.ctx.depth != 0:
                return
            if call.path == "alloc::vec::Vec::<T, A>::push":
                s.ghost[("inj", "push")] = True
                marks.append(call.args[1])
            elif call.path in ("alloc::vec::Vec::<T, A>::insert", "alloc::vec::Vec::<T, A>::remove", "alloc::vec::Vec::<T, A>::clear",
                               "alloc::vec::Vec::<T, A>::retain", "alloc::vec::Vec::<T, A>::truncate", "alloc::vec::Vec::<T, A>::swap_remove"):
                s.ghost[("inj", "other:" + call.name)] = True
        n_obs_fields = len(prog.adts["observe::Observer"]["variants"][0]["fields"])

        def reg_store(I_, ctx, s, place, v, site_):
            # replacing in place: a whole observer is stored into an element of the list (through an index, or
            # through the reference a search over the list handed out)
            if ctx.depth == 0 and isinstance(v, StructV) and len(v.fields) == n_obs_fields and isinstance(place.key, tuple) \
                    and place.key[0] == "h" and not place.proj:
                s.ghost[("inj", "index_mut")] = True
                marks.append(v)
        out = run_method(prog, "register", hooks=[reg_hook], store_hooks=[reg_store])
        if out is None:
            rep.missing("C14.2", SUBJ + "register")
        else:
            I, res, _, body, args = out
            site = {"file": body["span"]["f"], "line": body["span"]["l"], "fn": body["path"]}
            kinds = set()
            ok = bool(res)
            for s, rv in res:
                a, b = bool(s.ghost.get(("inj", "index_mut"))), bool(s.ghost.get(("inj", "push")))
                others = [k for k in s.ghost if isinstance(k, tuple) and k[0] == "inj" and str(k[1]).startswith("other:")]
                if a == b or others:
                    ok = False
                kinds.add("replace" if a else "append")
            rep.ob("C14.2", "register|replace-xor-append", ok and kinds == {"replace", "append"},
                   "register does not either store at the found position or push a new observer on every path (found kinds: %s)" % sorted(kinds), site,
                   sample={"rule": "C14.2", "paths": len(res), "kinds": sorted(kinds)})
            okn = bool(marks)
            for v in marks:
                if not (isinstance(v, StructV) and isinstance(v.fields[i_unack], IntV) and v.fields[i_unack].aff == Aff.const(0)
                        and isinstance(v.fields[i_mid], EnumV) and list(v.fields[i_mid].variants) == [0]):
                    okn = False
            rep.ob("C14.2", "register|fresh-observer", okn,
                   "the observer stored by register does not start with counter 0 and no pending message id", site)
        # ---- deregister: only Vec::remove on the found path
        muts = []

        def dereg_hook(I_, s, call, cbody):
            if call.ctx.depth != 0:
                return
            if call.path.startswith("alloc::vec::Vec::<T, A>::") and call.name in ("push", "insert", "clear", "retain", "truncate", "swap_remove", "remove", "pop", "drain"):
                muts.append(call.name)
            if call.path.startswith("alloc::collections::btree::map::BTreeMap::<K, V, A>::") and call.name in ("insert", "remove", "clear", "entry", "retain"):
                muts.append("map." + call.name)
        out = run_method(prog, "deregister", hooks=[dereg_hook])
        if out is None:
            rep.missing("C14.2", SUBJ + "deregister")
        else:
            I, res, _, body, args = out
            rep.ob("C14.2", "deregister|only-remove", set(muts) == {"remove"},
                   "deregister mutates the registry through %s, expected exactly Vec::remove on the matching position" % sorted(set(muts)),
                   {"file": body["span"]["f"], "line": body["span"]["l"], "fn": body["path"]})
        # ---- C14.3 no creation on notify
        creating = []
        used = []

        def rc_hook(I_, s, call, cbody):
            p = call.path
            if "::entry::Entry::" in p or p.startswith("alloc::collections::btree::map::"):
                used.append(call.name)
            if call.name in ("insert", "or_insert", "or_insert_with", "or_default", "or_insert_with_key", "insert_entry") and "btree" in p:
                creating.append(p)
        out = run_method(prog, "resource_changed", hooks=[rc_hook])
        if out is None:
            rep.missing("C14.3", SUBJ + "resource_changed")
        else:
            I, res, _, body, args = out
            site = {"file": body["span"]["f"], "line": body["span"]["l"], "fn": body["path"]}
            rep.ob("C14.3", "no-insert", not creating,
                   "a notification round can create a registry entry through %s" % sorted(set(creating)), site)
            rep.ob("C14.3", "modifies-existing", "and_modify" in used or "get_mut" in used,
                   "resource_changed no longer reaches the registry through a modify-only API (uses %s)" % sorted(set(used)), site)


WHOLE_MAP_MUT = ("iter_mut", "values_mut", "retain", "clear", "drain", "extract_if", "pop_first", "pop_last", "first_entry",
                 "last_entry", "append", "split_off", "into_iter", "into_values", "into_keys")
CREATING = ("or_insert", "or_insert_with", "or_insert_with_key", "or_default", "insert", "insert_entry", "try_insert")


def reachable(prog, body):
    """bodies reachable from `body` through resolved crate-local calls and the closures defined inside them"""
    seen, work = {}, [body]
    while work:
        b = work.pop()
        if b["id"] in seen:
            continue
        seen[b["id"]] = b
        for o in prog.bodies.values():
            if not o.get("promoted") and o["path"].startswith(b["path"] + "::{closure") and o["id"] not in seen:
                work.append(o)
        for bb in b["blocks"]:
            t = bb["term"]
            if t["k"] == "call" and not bb["cleanup"]:
                r = t.get("resolved") or {}
                if r.get("local") and r.get("id") in prog.bodies and r["id"] not in seen:
                    work.append(prog.bodies[r["id"]])
    return list(seen.values())


def keyed_access(prog, rep):
    """C14.4: the per-path operations (register, deregister, resource_changed) reach the resource map only through
    keyed accessors - nothing in their call graph walks or empties the whole map mutably, so no other resource's
    observers can change.  C14.5: a notification round never inserts into the map."""
    n_calls = 0
    for name in ("register", "deregister", "resource_changed"):
        b = find_body(prog, "observe::Subject::<Endpoint>::" + name)
        if b is None:
            rep.missing("C14.4", "Subject::" + name)
            continue
        whole, creating = [], []
        for rb in reachable(prog, b):
            for bb in rb["blocks"]:
                t = bb["term"]
                if t["k"] != "call" or bb["cleanup"]:
                    continue
                c = t.get("resolved") or t.get("callee") or {}
                p = c.get("path", "")
                if "collections::btree::map" not in p and "collections::hash::map" not in p and "hashbrown" not in p:
                    continue
                gs = [prog.types[g]["s"] for g in c.get("gargs", [])]
                if not any("observe::Resource" in g for g in gs):
                    continue
                n_calls += 1
                nm = c.get("name") or p.rsplit("::", 1)[-1]
                if nm in WHOLE_MAP_MUT or "IterMut" in p or "ValuesMut" in p:
                    whole.append("%s in %s" % (p, rb["path"]))
                if nm in CREATING:
                    creating.append("%s in %s" % (p, rb["path"]))
        site = {"file": b["span"]["f"], "line": b["span"]["l"], "fn": b["path"]}
        rep.ob("C14.4", "%s|keyed-only" % name, not whole,
               "Subject::%s reaches the resource map through a whole-map mutable operation (%s): observers of resources other than "
               "the one addressed can change" % (name, "; ".join(whole[:2])), site)
        if name == "resource_changed":
            rep.ob("C14.5", "resource_changed|creates-nothing", not creating,
                   "a notification round can insert into the resource map (%s): an unobserved path gets an entry" % "; ".join(creating[:2]), site)
    rep.floor("C14.4", "calls on the resource map reachable from the per-path operations", n_calls, 3)
