"""C18 - the link-format writer reports every sink failure and writes nothing
after it: typestate over the writer's Option<fmt::Error> slot."""
from harness import *
import tab

LEVEL = "other"
EXPLANATION = ("typestate over the writer's error slot (located by type: the Option<core::fmt::Error> field) on every "
               "path of every public method of LinkFormatWrite / LinkAttributeWrite: each call of a core::fmt::Write "
               "method on the sink must happen in a state where the slot's variant set is {None}; every store to the "
               "slot must happen while it is {None} (a recorded error is never overwritten); finish() returns Err iff "
               "the slot is Some; nothing else mutates the slot")
NOT_DECIDED = "Decided in full, trusting core::fmt::write to stop at the first failing write_str inside one write_fmt."
ASSUMPTIONS = ["core::fmt::write returns at the first failing write_str of one write_fmt call"]

WRITER = "link_format::LinkFormatWrite"


def slot_index(prog):
    a = prog.adts.get(WRITER)
    if a is None:
        return None, None
    slot = sink = None
    for i, f in enumerate(a["variants"][0]["fields"]):
        ts = prog.types[f["ty"]]["s"]
        if ts == "core::option::Option<core::fmt::Error>":
            slot = i if slot is None else -1
        if ts.startswith("&mut ") or ts.startswith("&'a mut "):
            sink = i
    return slot, sink


def check(env, rep, tier):
    include(rep, env, tier, "c16", ("C16.3",), "C18.5",
            "'when the sink never fails the result is success and the output is complete': with a sink that never fails the writer emits "
            "every link with its separator, whatever the number of links (no counter that wraps or panics)")
    configs = ["default"] if tier == "quick" else ["default", "nodefault", "udp"]
    rep.configs = configs
    for cfg in configs:
        prog = env.prog(cfg)
        slot_i, sink_i = slot_index(prog)
        if slot_i is None or slot_i < 0 or sink_i is None:
            rep.missing("C18.1", "error slot / sink field of %s (located by type)" % WRITER)
            continue
        entries = [b for b in prog.bodies.values() if not b.get("promoted") and b.get("kind") == "AssocFn"
                   and b.get("impl_self") is not None and b.get("impl_trait") is None
                   and prog.types[b["impl_self"]]["s"].startswith(("link_format::LinkFormatWrite<", "link_format::LinkAttributeWrite<"))
                   and b.get("pub")]
        if len(entries) < 7:
            rep.floor("C18.1", "public writer methods", len(entries), 7)
        write_sites = {}
        store_sites = {}
        for body in sorted(entries, key=lambda b: b["path"]):
            rep.analysed.add(body["path"])
            gen = body.get("generics", [])
            gargs = tuple(("param", g) for g in gen)
            I = new_interp(prog)
            st = State()
            args = top_args(prog, body, prog.body_subst(body, gargs))
            subst = prog.body_subst(body, gargs)
            t0 = prog.ty(body["locals"][1]["ty"], subst)
            base_t = t0
            while base_t[0] == "ref":
                base_t = base_t[2]
            if base_t[0] != "adt" or base_t[1] not in (WRITER, "link_format::LinkAttributeWrite"):
                continue  # constructor: no receiver
            a0 = I.mat(st, t0, "self")
            args[0] = a0
            fid = ((body["id"], "entry"),)
            if isinstance(a0, RefV):
                holder = a0.place
                I.ensure(st, holder, t0[2], "w")
            else:
                holder = Place((fid, 1))
            if base_t[1] == WRITER:
                wplace = holder
            else:
                inner_ty = I.field_types(base_t)
                if isinstance(a0, RefV):
                    r = I.ensure(st, holder.extend(("f", 0)), inner_ty[0], "w")
                else:
                    r = a0.fields[0]
                    if isinstance(r, TopV):
                        r = I.mat(st, inner_ty[0], "w")
                        a0 = StructV([r] + list(a0.fields[1:]))
                        args[0] = a0
                if not isinstance(r, RefV):
                    rep.missing("C18.1", "inner writer reference of %s" % body["path"])
                    continue
                wplace = r.place
                I.ensure(st, wplace, inner_ty[0][2], "w")
            by_value_writer = base_t[1] == WRITER and not isinstance(a0, RefV)
            slot = wplace.extend(("f", slot_i))
            sinkp = wplace.extend(("f", sink_i))
            if by_value_writer:
                st.cells[(fid, 1)] = a0
            # materialise slot and sink
            fts = None
            for cand in (prog.ty(body["locals"][1]["ty"], prog.body_subst(body, gargs)),):
                t = cand
                while t is not None and t[0] == "ref":
                    t = t[2]
                if t is not None and t[0] == "adt" and t[1] != WRITER:
                    ft = I.field_types(t)
                    t = ft[0] if ft else None
                    while t is not None and t[0] == "ref":
                        t = t[2]
                if t is not None and t[0] == "adt" and t[1] == WRITER:
                    fts = I.field_types(t)
            if fts is None:
                rep.missing("C18.1", "writer type in %s" % body["path"])
                continue
            I.ensure(st, slot, fts[slot_i], "slot")
            sink_ref = I.ensure(st, sinkp, fts[sink_i], "sink")

            def slot_state(s):
                v = I.read(s, slot)
                if isinstance(v, EnumV):
                    return set(v.variants)
                return {0, 1}

            def derives_from_sink(s, v, depth=0):
                if isinstance(v, RefV):
                    if v.place == sinkp:
                        return True
                    if isinstance(sink_ref, RefV) and v.place.key == sink_ref.place.key:
                        return True
                    if depth < 3:
                        return derives_from_sink(s, I.read(s, v.place), depth + 1)
                return False

            def call_hook(I_, s, call, cbody):
                tr = (call.term.get("callee") or {}).get("trait")
                if tr == "core::fmt::Write" and call.args and derives_from_sink(s, call.args[0]):
                    key = (call.site["id"], call.site["bb"])
                    e = write_sites.setdefault(key, {"site": call.site, "ok": True, "name": call.name, "after_unrecorded": False})
                    if slot_state(s) != {0}:
                        e["ok"] = False
                    if s.ghost.get(("inj", "unrecorded")):
                        # the previous write failed on this path and that has not been recorded yet
                        e["after_unrecorded"] = True
                    # (the sink model below marks the failing outcome of this write as not yet recorded)
                elif call.path.endswith("core::ops::try_trait::Try>::branch"):
                    # `write(..)?` hands the failure to the caller as it is; `write(..).ok()?` has already thrown it away
                    at0 = call.arg_tys[0] if call.arg_tys else None
                    if at0 is not None and at0[0] == "adt" and at0[1] == "core::result::Result":
                        s.ghost.pop(("inj", "unrecorded"), None)
                else:
                    # nothing else may get mutable access to the slot or use the sink
                    for a in call.args:
                        if isinstance(a, RefV) and a.mut and a.place == slot and call.path not in ("core::option::Option::<T>::as_mut",):
                            rep.ob("C18.4", "%s|%s" % (body["path"], call.path), False,
                                   "%s passes the error slot mutably to %s" % (call.site["fn"], call.path), call.site)
                        if derives_from_sink(s, a) and cbody is None and tr != "core::fmt::Write":
                            rep.ob("C18.4", "%s|sink|%s" % (body["path"], call.path), False,
                                   "%s hands the sink to %s (not a core::fmt::Write method)" % (call.site["fn"], call.path), call.site)
            I.call_hooks.append(call_hook)

            # a sink write either succeeds or fails: two outcomes, the failing one pending until it is stored in the slot
            # (examining the result and carrying on after Ok is as good as storing it: nothing is pending on that path)
            def m_sink_write(I_, s_, call):
                from summaries import mk_ok, mk_err
                if not (call.args and derives_from_sink(s_, call.args[0])):
                    return None
                dt = call.dest_ty
                if not (dt and dt[0] == "adt" and dt[1] == "core::result::Result"):
                    return None
                s_err = s_.copy()
                if I_.recording:        # (hooks that clear the mark run on recording passes only)
                    s_err.ghost[("inj", "unrecorded")] = True
                et = dt[2][1] if len(dt[2]) > 1 else None
                return [(s_, mk_ok(UNIT, dt)), (s_err, mk_err(I_.mat(s_err, et, "fmt-error"), dt))]
            for nm_ in ("write_str", "write_char", "write_fmt"):
                I.extra_models["core::fmt::Write::" + nm_] = m_sink_write

            invented = []

            def store_hook(I_, ctx, s, place, v, site):
                if place == slot:
                    # an error goes into the slot only on a path on which a sink write failed: the writer reports sink
                    # failures, it does not invent errors of its own (a fault-free run ends in success)
                    if isinstance(v, EnumV) and list(v.variants) == [1] and not s.ghost.get(("inj", "unrecorded")) and slot_state(s) == {0}:
                        invented.append(site)
                    # the pending failure is recorded when an error goes into the slot (a store of None records nothing)
                    if not (isinstance(v, EnumV) and list(v.variants) == [0]):
                        s.ghost.pop(("inj", "unrecorded"), None)
                    key = (site["id"], site["bb"], site.get("si"))
                    e = store_sites.setdefault(key, {"site": site, "ok": True})
                    if slot_state(s) != {0}:
                        e["ok"] = False
            I.store_hooks.append(store_hook)
            fin = []
            I.return_hooks[body["id"]] = lambda I_, ctx, outs: fin.extend((s_.copy(), rv_) for s_, rv_ in outs if ctx.depth == 0)
            I, res = run(prog, body, args=args, st=st, I=I, gargs=gargs)
            rep.ob("C18.1", "%s|only-sink-failures-recorded" % body["path"], not invented,
                   "%s puts an error into the slot on a path on which no sink write failed (at %s): a fault-free run can end in Err with an "
                   "incomplete document" % (body["path"], sorted(set("%s:%s" % (x["file"], x["line"]) for x in invented))[:3]),
                   {"file": body["span"]["f"], "line": body["span"]["l"], "fn": body["path"]})
            lost = sum(1 for s_, rv_ in fin if s_.ghost.get(("inj", "unrecorded")))
            rep.ob("C18.1", "%s|failure-recorded" % body["path"], lost == 0,
                   "%s can return on %d path(s) on which a sink write failed and the failure was never put into the error slot "
                   "(finish() then reports success for a truncated document)" % (body["path"], lost),
                   {"file": body["span"]["f"], "line": body["span"]["l"], "fn": body["path"]})
            # ---- C18.3 finish
            if body["name"] == "finish":
                ok = bool(fin)
                for s, rv in fin:
                    sv = slot_state(s)
                    rvs = set(rv.variants) if isinstance(rv, EnumV) else {0, 1}
                    # slot None <-> Ok (variant 0); slot Some <-> Err (variant 1)
                    if sv == {0} and rvs != {0}:
                        ok = False
                    if sv == {1} and rvs != {1}:
                        ok = False
                    if len(sv) != 1:
                        ok = False
                rep.ob("C18.3", body["path"], ok,
                       "%s does not return Err exactly when an error was recorded" % body["path"],
                       {"file": body["span"]["f"], "line": body["span"]["l"], "fn": body["path"]},
                       sample={"rule": "C18.3", "fn": body["path"], "paths": len(res)})
            for msg in I.imprecise:
                rep.ob("C18.1", "imprecise|" + norm(msg), False, "cannot establish: " + msg)
        for key, e in sorted(write_sites.items(), key=lambda x: (x[1]["site"]["fn"], x[1]["site"]["line"])):
            s = e["site"]
            rep.ob("C18.1", "%s|%s|%d" % (s["fn"], e["name"], sum(1 for k2, e2 in write_sites.items() if e2["site"]["fn"] == s["fn"] and e2["name"] == e["name"] and (e2["site"]["line"], k2) < (s["line"], key))),
                   e["ok"], "sink write %s at %s:%s in %s can happen after an error was recorded (slot not known to be None): "
                   "text reaches the sink after a failed write and the failure may be overwritten" % (e["name"], s["file"], s["line"], s["fn"]),
                   s, sample={"rule": "C18.1", "site": "%s:%s" % (s["file"], s["line"]), "fn": s["fn"], "write": e["name"], "in_clear_state": e["ok"]})
            rep.ob("C18.1", "%s|%s|unrecorded|%d" % (s["fn"], e["name"], sum(1 for k2, e2 in write_sites.items() if e2["site"]["fn"] == s["fn"] and e2["name"] == e["name"] and (e2["site"]["line"], k2) < (s["line"], key))),
                   not e["after_unrecorded"],
                   "sink write %s at %s:%s in %s is issued before the outcome of the previous write was recorded: if that write failed, text still reaches the sink after the failure" % (e["name"], s["file"], s["line"], s["fn"]), s)
        rep.floor("C18.1", "sink write call sites", len(write_sites), 5)
        for key, e in sorted(store_sites.items(), key=lambda x: (x[1]["site"]["fn"], x[1]["site"]["line"])):
            s = e["site"]
            rep.ob("C18.2", "%s|store|%d" % (s["fn"], sum(1 for k2, e2 in store_sites.items() if e2["site"]["fn"] == s["fn"] and (e2["site"]["line"], k2) < (s["line"], key))),
                   e["ok"], "store to the error slot at %s:%s in %s can overwrite a recorded error" % (s["file"], s["line"], s["fn"]), s,
                   sample={"rule": "C18.2", "site": "%s:%s" % (s["file"], s["line"]), "fn": s["fn"], "slot_clear_before_store": e["ok"]})
        rep.floor("C18.2", "stores to the error slot", len(store_sites), 1)
