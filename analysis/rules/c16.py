"""C16 - link-format writer and parser agree on quoting, escaping and
separators (structural necessary conditions of the round trip)."""
from harness import *
import interp

LEVEL = "other"
EXPLANATION = ("char-set extraction from MIR: the set of character constants a function compares its input characters "
               "with, per innermost loop.  Required: the set of characters before which attr_quoted emits the escape "
               "character = the special set of the in-quote loop of both scanners = the special set of Unquote::next = "
               "{'\"', '\\\\'}, all using the evaluated QUOTE_ESCAPE_CHAR; attr() writes a value bare only if every "
               "char is ASCII alphanumeric and no structural character of the parser is alphanumeric; the separator "
               "characters written between links / attributes / key and value are the characters the parser splits on.  "
               "C16.4-6: attr_quoted, the in-quote loops of both scanners and Unquote::next (Quoted state) are run in the abstract "
               "interpreter with logging models for the sink and for Chars::next; per path through one step the characters "
               "written / consumed / yielded are compared with the quoted-string transducer as a function of the class of the "
               "character read (quote, backslash, other)")
NOT_DECIDED = ("Not decided: the round trip itself as an equality over whole documents (key trimming, whitespace around "
               "values, link targets); decided are the per-character transducers of the writer, both scanners and Unquote.")
ASSUMPTIONS = []

QUOTE, ESC = ord('"'), ord("\\")


def char_sets(prog, body):
    """{innermost loop head or None: set(char codes compared)}"""
    info = interp.BodyInfo(body)
    out = {}

    def is_char(op):
        if op["k"] in ("copy", "move"):
            p = op["place"]
            if not p["p"]:
                return prog.types[body["locals"][p["l"]]["ty"]]["k"] == "char"
            last = p["p"][-1]
            if last["k"] == "field":
                return prog.types[last["ty"]]["k"] == "char"
            return False
        return op["k"] == "const" and prog.types[op["ty"]]["k"] == "char"

    for bi, bb in enumerate(body["blocks"]):
        if bb["cleanup"] or bi not in info.rpo_ix:
            continue
        loop = info.inner.get(bi)
        acc = out.setdefault(loop, set())
        for s in bb["stmts"]:
            if s["k"] == "assign" and s["rv"]["k"] == "bin" and s["rv"]["op"] in ("Eq", "Ne"):
                a, b = s["rv"]["a"], s["rv"]["b"]
                for x, y in ((a, b), (b, a)):
                    if x["k"] == "const" and "int" in x and prog.types[x["ty"]]["k"] == "char":
                        acc.add(int(x["int"]))
        t = bb["term"]
        if t["k"] == "switch" and prog.types[t["ty"]]["k"] == "char":
            for v, _ in t["arms"]:
                acc.add(int(v))
    return out, info


def const_char(prog, name):
    for c in prog.consts.values():
        if c["path"].endswith("::" + name) and "int" in c:
            return int(c["int"])
    return None


def written_chars(prog, body):
    """char constants passed to write_char in a body, in block order"""
    out = []
    for bb in body["blocks"]:
        t = bb["term"]
        if t["k"] == "call" and not bb["cleanup"] and (t.get("callee") or {}).get("name") == "write_char":
            a = t["args"][1] if len(t["args"]) > 1 else None
            if a and a["k"] == "const" and "int" in a:
                out.append(int(a["int"]))
    return out


def check(env, rep, tier):
    include(rep, env, tier, "c17", ("C17.1", "C17.4"), "C16.8", "'parse back to the same content': the slices the parser takes lie within the input on character boundaries")
    configs = ["default"] if tier == "quick" else ["default", "nodefault"]
    rep.configs = configs
    for cfg in configs:
        prog = env.prog(cfg)
        esc = const_char(prog, "QUOTE_ESCAPE_CHAR")
        lsep = const_char(prog, "LINK_SEPARATOR_CHAR")
        asep = const_char(prog, "ATTR_SEPARATOR_CHAR")
        rep.ob("C16.1", "escape-const", esc == ESC, "QUOTE_ESCAPE_CHAR evaluates to %r, expected a backslash" % (esc,))
        rep.ob("C16.3", "link-sep-const", lsep == ord(","), "LINK_SEPARATOR_CHAR evaluates to %r, expected ','" % (lsep,))
        rep.ob("C16.3", "attr-sep-const", asep == ord(";"), "ATTR_SEPARATOR_CHAR evaluates to %r, expected ';'" % (asep,))
        P = "<link_format::LinkFormatParser<'a> as core::iter::traits::iterator::Iterator>::next"
        A = "<link_format::LinkAttributeParser<'a> as core::iter::traits::iterator::Iterator>::next"
        U = "<link_format::Unquote<'_> as core::iter::traits::iterator::Iterator>::next"
        WQ = "link_format::LinkAttributeWrite::<'_, '_, T>::attr_quoted"
        WA = "link_format::LinkAttributeWrite::<'_, '_, T>::attr"
        WK = "link_format::LinkAttributeWrite::<'_, '_, T>::internal_attr_key_eq"
        WL = "link_format::LinkFormatWrite::<'a, T>::link"
        bodies = {}
        for nm in (P, A, U, WQ, WA, WK, WL):
            b = find_body(prog, nm)
            if b is None:
                rep.missing("C16.1", nm)
            bodies[nm] = b
        if any(b is None for b in bodies.values()):
            continue
        want = {QUOTE, esc}
        # writer escape set: chars compared in the value loop of attr_quoted
        ws, winfo = char_sets(prog, bodies[WQ])
        e_w = set()
        for loop, cs in ws.items():
            if loop is not None:
                e_w |= cs
        site = lambda b: {"file": b["span"]["f"], "line": b["span"]["l"], "fn": b["path"]}
        rep.ob("C16.1", "writer-escape-set", e_w == want,
               "attr_quoted escapes the characters %s, expected exactly quote and backslash" % sorted(map(chr, e_w)), site(bodies[WQ]),
               sample={"rule": "C16.1", "writer_escapes": sorted(map(chr, e_w))})
        wq_written = written_chars(prog, bodies[WQ])
        rep.ob("C16.1", "writer-escape-char", esc in wq_written and wq_written.count(QUOTE) >= 2,
               "attr_quoted does not write the escape character / the two enclosing quotes (writes %s)" % [chr(c) for c in wq_written], site(bodies[WQ]))
        # scanners: innermost loop nested in another loop = the in-quote loop
        for nm, tag in ((P, "link-scanner"), (A, "attr-scanner")):
            cs, info = char_sets(prog, bodies[nm])
            inner = [h for h in info.loops if info.parent_loop.get(h) is not None]
            sets = [cs.get(h, set()) for h in inner]
            rep.ob("C16.1", "%s|in-quote-set" % tag, len(sets) >= 1 and all(x == want for x in sets),
                   "%s treats %s specially inside quotes, expected exactly quote and backslash (the writer's escape set)" % (
                       nm, [sorted(map(chr, x)) for x in sets]), site(bodies[nm]),
                   sample={"rule": "C16.1", "scanner": tag, "in_quote_special": [sorted(map(chr, x)) for x in sets]})
            outer = set()
            for h, x in cs.items():
                if h not in inner:
                    outer |= x
            sep = lsep if nm == P else asep
            rep.ob("C16.3", "%s|separator" % tag, sep in outer and QUOTE in outer,
                   "%s does not split on the separator %r outside quotes (compares with %s)" % (nm, chr(sep) if sep else None, sorted(map(chr, outer))), site(bodies[nm]))
            rep.ob("C16.2", "%s|structural-not-alnum" % tag, not any(chr(c).isalnum() for c in outer | set().union(*sets) if c < 128),
                   "a structural character of %s is alphanumeric, so a bare attribute value could be mis-parsed" % nm, site(bodies[nm]))
        us, uinfo = char_sets(prog, bodies[U])
        uall = set().union(*us.values()) if us else set()
        rep.ob("C16.1", "unquote-set", uall == want, "Unquote::next treats %s specially, expected exactly quote and backslash" % sorted(map(chr, uall)), site(bodies[U]))
        # C16.2 attr(): bare only if all ASCII alphanumeric
        wa = bodies[WA]
        clos = [b for b in prog.bodies.values() if b["path"].startswith(WA + "::{closure#") and not b.get("promoted")]
        okc = False
        for cb in clos:
            calls = [(bb["term"].get("resolved") or bb["term"].get("callee") or {}).get("path") for bb in cb["blocks"] if bb["term"]["k"] == "call"]
            nots = [s for bb in cb["blocks"] for s in bb["stmts"] if s["k"] == "assign" and s["rv"]["k"] == "un" and s["rv"]["op"] == "Not" and not s["place"]["p"] and s["place"]["l"] == 0]
            if "core::char::methods::<impl char>::is_ascii_alphanumeric" in calls and nots:
                okc = True
        calls = [(bb["term"].get("resolved") or bb["term"].get("callee") or {}).get("path") for bb in wa["blocks"] if bb["term"]["k"] == "call" and not bb["cleanup"]]
        rep.ob("C16.2", "bare-only-alnum", okc and WQ in calls and "core::str::<impl str>::find" in calls,
               "attr() no longer falls back to attr_quoted whenever some character is not ASCII alphanumeric", site(wa))
        # C16.3 writer separators
        rep.ob("C16.3", "writer|attr-sep", written_chars(prog, bodies[WK])[:1] == [asep] and ord("=") in written_chars(prog, bodies[WK]),
               "internal_attr_key_eq does not write the attribute separator first and '=' after the key (writes %s)" % [chr(c) for c in written_chars(prog, bodies[WK])], site(bodies[WK]))
        wl = written_chars(prog, bodies[WL])
        rep.ob("C16.3", "writer|link-sep", lsep in wl and ord("<") in wl and ord(">") in wl,
               "link() does not write the link separator and the angle brackets (writes %s)" % [chr(c) for c in wl], site(bodies[WL]))
        # ---- C16.4-6 per-character transducers (semantic, by abstract interpretation)
        import linkfmt
        linkfmt.check_writer(prog, rep, bodies[WQ], asep if asep is not None else ord(";"), site(bodies[WQ]))
        for nm, tag in ((P, "link-scanner"), (A, "attr-scanner")):
            info = interp.BodyInfo(bodies[nm])
            inner = [h for h in info.loops if info.parent_loop.get(h) is not None]
            linkfmt.check_scanner(prog, rep, bodies[nm], inner, tag, site(bodies[nm]))
        linkfmt.check_unquote(prog, rep, bodies[U], site(bodies[U]))
        # ---- C16.7 integer attributes: the number is written by core's Display for the integer itself
        import provenance
        WU = find_body(prog, "link_format::LinkAttributeWrite::<'_, '_, T>::attr_u32")
        W16 = find_body(prog, "link_format::LinkAttributeWrite::<'_, '_, T>::attr_u16")
        if WU is None or W16 is None:
            rep.missing("C16.7", "attr_u32 / attr_u16")
        else:
            calls = [bb["term"] for bb in WU["blocks"] if bb["term"]["k"] == "call" and not bb["cleanup"]]
            byp = {}
            for t in calls:
                byp.setdefault(provenance.callee_path(t), []).append(t)
            disp = byp.get("core::fmt::rt::Argument::<'_>::new_display", [])
            news = byp.get("core::fmt::Arguments::<'a>::new", [])
            wf = byp.get("core::fmt::Write::write_fmt", [])
            ok = len(disp) == 1 and len(news) == 1 and len(wf) == 1 and len(byp.get(WK, [])) == 1
            ok = ok and not any(p_.endswith("::write_char") or p_.endswith("::write_str") for p_ in byp)
            why = "calls: %s" % sorted(byp)
            if ok:
                steps, term = provenance.trace(WU, disp[0]["args"][0])
                gty = [prog.types[g_]["s"] for g_ in disp[0]["callee"].get("gargs", [])]
                tsteps, tterm = provenance.trace(WU, wf[0]["args"][1])
                tmpl = news[0]["args"][0]
                t2s, t2t = provenance.trace(WU, tmpl)
                tmpl_ty = prog.types[t2t[1]]["s"] if t2t[0] == "const" and t2t[1] is not None else "?"
                ok = (not steps and term == ("arg", 3, "") and gty == ["u32"]
                      and [x[1] for x in tsteps if x[0] == "call"] == ["core::fmt::Arguments::<'a>::new"]
                      and "[u8; 2" in tmpl_ty)
                why = "displayed operand %s of type %s, template %s" % (term, gty, tmpl_ty)
            rep.ob("C16.7", "attr_u32|display", ok,
                   "attr_u32 does not write its number as write!(sink, \"{}\", value) - core's decimal Display of the u32 itself, nothing "
                   "around it (%s); a hand-rolled conversion is not decided and is reported (fail closed)" % why, site(WU),
                   sample={"rule": "C16.7", "display_calls": len(disp)})
            c16 = [bb["term"] for bb in W16["blocks"] if bb["term"]["k"] == "call" and not bb["cleanup"]]
            ok = len(c16) == 1 and provenance.callee_path(c16[0]) == WU["path"] and len(c16[0]["args"]) == 3
            if ok:
                steps, term = provenance.trace(W16, c16[0]["args"][2])
                ok = term == ("arg", 3, "") and steps in ([("cast", "IntToInt")], []) 
                ks, kt = provenance.trace(W16, c16[0]["args"][1])
                ok = ok and kt[:2] == ("arg", 2) and not [x for x in ks if x[0] == "call"]
            rep.ob("C16.7", "attr_u16|delegates", ok, "attr_u16 does not hand (key, value widened to u32) to attr_u32", site(W16))
        acalls = [(bb["term"].get("resolved") or bb["term"].get("callee") or {}) for bb in bodies[A]["blocks"] if bb["term"]["k"] == "call" and not bb["cleanup"]]
        eq_find = False
        for bb in bodies[A]["blocks"]:
            t = bb["term"]
            if t["k"] == "call" and not bb["cleanup"] and (t.get("resolved") or {}).get("path") == "core::str::<impl str>::find":
                a = t["args"][1]
                if a["k"] == "const" and a.get("int") == str(ord("=")):
                    eq_find = True
        rep.ob("C16.3", "attr-scanner|key-value", eq_find, "the attribute parser no longer splits key and value at the first '='", site(bodies[A]))
