"""C16 - link-format writer and parser agree on quoting, escaping and
separators (structural necessary conditions of the round trip)."""
import json
from harness import *
import interp

LEVEL = "other"
EXPLANATION = ("char-set extraction from MIR: the set of character constants a function compares its input characters "
               "with, per innermost loop.  Required: the set of characters before which attr_quoted emits the escape "
               "character = the special set of the in-quote loop of both scanners = the special set of Unquote::next = "
               "{'\"', '\\\\'}, all using the evaluated QUOTE_ESCAPE_CHAR; attr() writes a value bare only if every "
               "char is ASCII alphanumeric and no structural character of the parser is alphanumeric; the separator "
               "characters written between links / attributes / key and value are the characters the parser splits on.  "
               "C16.4-6: attr_quoted, the in-quote loops of both scanners and Unquote::next (Quoted state) are run in the abstract "
               "interpreter with logging models for the sink and for Chars::next; per path through one step the characters "
               "written / consumed / yielded are compared with the quoted-string transducer as a function of the class of the "
               "character read (quote, backslash, other)")
NOT_DECIDED = ("Not decided: the round trip itself as an equality over whole documents (key trimming, whitespace around "
               "values, link targets); decided are the per-character transducers of the writer, both scanners and Unquote.")
ASSUMPTIONS = []

QUOTE, ESC = ord('"'), ord("\\")


def char_sets(prog, body):
    """{innermost loop head or None: set(char codes compared)}"""
    info = interp.BodyInfo(body)
    out = {}

    def is_char(op):
        if op["k"] in ("copy", "move"):
            p = op["place"]
            if not p["p"]:
                return prog.types[body["locals"][p["l"]]["ty"]]["k"] == "char"
            last = p["p"][-1]
            if last["k"] == "field":
                return prog.types[last["ty"]]["k"] == "char"
            return False
        return op["k"] == "const" and prog.types[op["ty"]]["k"] == "char"

    for bi, bb in enumerate(body["blocks"]):
        if bb["cleanup"] or bi not in info.rpo_ix:
            continue
        loop = info.inner.get(bi)
        acc = out.setdefault(loop, set())
        for s in bb["stmts"]:
            if s["k"] == "assign" and s["rv"]["k"] == "bin" and s["rv"]["op"] in ("Eq", "Ne"):
                a, b = s["rv"]["a"], s["rv"]["b"]
                for x, y in ((a, b), (b, a)):
                    if x["k"] == "const" and "int" in x and prog.types[x["ty"]]["k"] == "char":
                        acc.add(int(x["int"]))
        t = bb["term"]
        if t["k"] == "switch" and prog.types[t["ty"]]["k"] == "char":
            for v, _ in t["arms"]:
                acc.add(int(v))
    return out, info


def const_char(prog, name):
    for c in prog.consts.values():
        if c["path"].endswith("::" + name) and "int" in c:
            return int(c["int"])
    return None


def written_chars(prog, body):
    """char constants passed to write_char in a body, in block order"""
    out = []
    for bb in body["blocks"]:
        t = bb["term"]
        if t["k"] == "call" and not bb["cleanup"] and (t.get("callee") or {}).get("name") == "write_char":
            a = t["args"][1] if len(t["args"]) > 1 else None
            if a and a["k"] == "const" and "int" in a:
                out.append(int(a["int"]))
    return out


def check(env, rep, tier):
    include(rep, env, tier, "c17", ("C17.1", "C17.4"), "C16.8", "'parse back to the same content': the slices the parser takes lie within the input on character boundaries")
    configs = ["default"] if tier == "quick" else ["default", "nodefault"]
    rep.configs = configs
    for cfg in configs:
        prog = env.prog(cfg)
        esc = const_char(prog, "QUOTE_ESCAPE_CHAR")
        lsep = const_char(prog, "LINK_SEPARATOR_CHAR")
        asep = const_char(prog, "ATTR_SEPARATOR_CHAR")
        rep.ob("C16.1", "escape-const", esc == ESC, "QUOTE_ESCAPE_CHAR evaluates to %r, expected a backslash" % (esc,))
        rep.ob("C16.3", "link-sep-const", lsep == ord(","), "LINK_SEPARATOR_CHAR evaluates to %r, expected ','" % (lsep,))
        rep.ob("C16.3", "attr-sep-const", asep == ord(";"), "ATTR_SEPARATOR_CHAR evaluates to %r, expected ';'" % (asep,))
        P = "<link_format::LinkFormatParser<'a> as core::iter::traits::iterator::Iterator>::next"
        A = "<link_format::LinkAttributeParser<'a> as core::iter::traits::iterator::Iterator>::next"
        U = "<link_format::Unquote<'_> as core::iter::traits::iterator::Iterator>::next"
        WQ = "link_format::LinkAttributeWrite::<'_, '_, T>::attr_quoted"
        WA = "link_format::LinkAttributeWrite::<'_, '_, T>::attr"
        WK = "link_format::LinkAttributeWrite::<'_, '_, T>::internal_attr_key_eq"
        WL = "link_format::LinkFormatWrite::<'a, T>::link"
        bodies = {}
        for nm in (P, A, U, WQ, WA, WK, WL):
            b = find_body(prog, nm)
            if b is None:
                rep.missing("C16.1", nm)
            bodies[nm] = b
        if any(b is None for b in bodies.values()):
            continue
        want = {QUOTE, esc}
        site = lambda b: {"file": b["span"]["f"], "line": b["span"]["l"], "fn": b["path"]}
        # (the writer's escape set and quotes are decided by C16.4 on the sink log, whatever helper performs the writes)
        # scanners: innermost loop nested in another loop = the in-quote loop
        for nm, tag in ((P, "link-scanner"), (A, "attr-scanner")):
            cs, info = char_sets(prog, bodies[nm])
            inner = [h for h in info.loops if info.parent_loop.get(h) is not None]
            sets = [cs.get(h, set()) for h in inner]
            outer = set()
            for h, x in cs.items():
                if h not in inner:
                    outer |= x
            sep = lsep if nm == P else asep
            rep.ob("C16.3", "%s|separator" % tag, sep in outer and QUOTE in outer,
                   "%s does not split on the separator %r outside quotes (compares with %s)" % (nm, chr(sep) if sep else None, sorted(map(chr, outer))), site(bodies[nm]))
            rep.ob("C16.2", "%s|structural-not-alnum" % tag, not any(chr(c).isalnum() for c in outer | (set().union(*sets) if sets else set()) if c < 128),
                   "a structural character of %s is alphanumeric, so a bare attribute value could be mis-parsed" % nm, site(bodies[nm]))
        # C16.2 / C16.3 (writer side) / C16.7: decided on the sink log of the public writer methods (linkfmt.check_writer_methods)
        import linkfmt
        linkfmt.check_writer_methods(prog, rep, lsep if lsep is not None else ord(","), asep if asep is not None else ord(";"), site)
        # ---- C16.4-6 per-character transducers (semantic, by abstract interpretation)
        import linkfmt
        linkfmt.check_writer(prog, rep, bodies[WQ], asep if asep is not None else ord(";"), site(bodies[WQ]))
        # the in-quote loop: any loop of the module that compares characters with the escape character - it may sit
        # in the scanner itself (nested loop) or in a helper both scanners share
        inq = set()
        for lb in prog.bodies.values():
            if lb.get("promoted") or not (lb["path"].startswith("link_format::") or "link_format::" in lb["path"]) or "Unquote" in lb["path"] \
                    or "LinkAttributeWrite" in lb["path"] or "LinkFormatWrite" in lb["path"]:
                continue
            lcs, linfo = char_sets(prog, lb)
            for h_, cs_ in lcs.items():
                if h_ is not None and esc in cs_:
                    inq.add((lb["id"], h_))
        # "any target text without '>'": the target handed out is the scanned text between '<' and '>' as it stands - on
        # its way from the cursor into the item it only passes slicing and the removal of the closing '>' (no trimming of
        # blanks, no normalisation, no helper of the parser's own)
        import provenance
        TARGET_OK = ("core::str::<impl str>::trim_end_matches", "core::str::traits::<impl core::ops::index::Index<I> for str>::index",
                     "core::str::iter::Chars::<'a>::as_str", "core::str::<impl str>::chars", "core::str::<impl str>::split_at",
                     "core::str::<impl str>::strip_suffix", "core::str::<impl str>::strip_prefix", "core::str::<impl str>::split_once",
                     "core::str::<impl str>::get", "core::str::<impl str>::as_ptr", "core::str::<impl str>::len")
        tuples = [st_ for bb_ in bodies[P]["blocks"] if not bb_.get("cleanup") for st_ in bb_["stmts"]
                  if st_["k"] == "assign" and st_["rv"]["k"] == "aggregate" and st_["rv"]["kind"].get("k") == "tuple" and len(st_["rv"]["ops"]) == 2]
        foreign = []
        for st_ in tuples:
            steps_, term_ = provenance.trace(bodies[P], st_["rv"]["ops"][0])
            foreign += [x[1] for x in steps_ if x[0] == "call" and x[1] not in TARGET_OK]
            if term_ and term_[0] == "unknown":
                foreign.append("untraceable: %s" % (term_[1],))
        rep.ob("C16.3", "link-scanner|target-as-scanned", bool(tuples) and not foreign,
               "the link target passes through %s between the scan and the item: text of the target (e.g. blanks at its ends) can be altered" % sorted(set(foreign))[:3]
               if tuples else "cannot establish: the (target, attributes) item of the link parser was not found", site(bodies[P]))
        for nm, tag in ((P, "link-scanner"), (A, "attr-scanner")):
            linkfmt.check_scanner(prog, rep, bodies[nm], inq, tag, site(bodies[nm]))
            # outside a quoted string no character is consumed unseen: the result of every Chars::next is looked at
            # (only the character after a backslash, inside the in-quote loop, is skipped blind)
            import interp as _interp
            sb = bodies[nm]
            info_ = _interp.BodyInfo(sb)
            inq_blocks = set()
            for (bid, h_) in inq:
                if bid == sb["id"] and h_ in info_.loops:
                    inq_blocks |= set(info_.loops[h_])
            blind = []
            for bi, bb in enumerate(sb["blocks"]):
                t = bb["term"]
                if t["k"] != "call" or bb.get("cleanup") or bi in inq_blocks:
                    continue
                pth = (t.get("resolved") or t.get("callee") or {}).get("path", "") or ""
                if not (pth.startswith("<core::str::iter::Chars") and pth.endswith("::next")):
                    continue
                d = t["dest"]["l"] if t.get("dest") and not t["dest"]["p"] else None
                if d is None:
                    continue
                used = False
                for b2 in sb["blocks"]:
                    if b2.get("cleanup"):
                        continue
                    txt = json.dumps([b2["stmts"], {k: v for k, v in b2["term"].items() if k != "dest"}])
                    if ('"l": %d' % d) in txt and not (b2 is bb and txt.count('"l": %d' % d) == 0):
                        # any mention other than as this call's destination counts as a look
                        if b2 is not bb or txt.count('"l": %d' % d) >= 1:
                            used = True
                            break
                if not used:
                    blind.append(bb["tspan"]["l"])
            rep.ob("C16.5", "%s|no-blind-read" % tag, not blind,
                   "%s consumes a character outside a quoted string without looking at it (line %s): when that character is a separator, "
                   "the next item is swallowed" % (nm, blind), site(sb))
        linkfmt.check_unquote(prog, rep, bodies[U], site(bodies[U]))
        acalls = [(bb["term"].get("resolved") or bb["term"].get("callee") or {}) for bb in bodies[A]["blocks"] if bb["term"]["k"] == "call" and not bb["cleanup"]]
        eq_find = False
        for bb in bodies[A]["blocks"]:
            t = bb["term"]
            if t["k"] == "call" and not bb["cleanup"] and (t.get("resolved") or {}).get("path") in ("core::str::<impl str>::find", "core::str::<impl str>::split_once"):
                a = t["args"][1]
                if a["k"] == "const" and a.get("int") == str(ord("=")):
                    eq_find = True
        rep.ob("C16.3", "attr-scanner|key-value", eq_find, "the attribute parser no longer splits key and value at the first '='", site(bodies[A]))
