"""C12 - concurrent block transfers are isolated; replies belong to the
current request."""
from harness import *
from absdom import Aff
import bitprov
import obsutil

LEVEL = "other"
EXPLANATION = ("frame argument: BlockHandler has exactly the config and one map; the crate has no static mut and no "
               "interior-mutability type in the handler's types; BlockState values are only created as the or_insert "
               "default, so all cross-request state is reached through states[key(request)]; the key is built from "
               "the method code, the Uri-Path segments converted per element (no joining call on that flow) and the "
               "source endpoint, with derived Ord/PartialOrd/Eq/PartialEq over all three fields; the function copying "
               "the cached reply into the live one leaves message id and token untouched and copies only version/type "
               "bits, code and options; the key's path vector is not edited (&mut) between get_path_as_vec and the key")
NOT_DECIDED = "Not decided: transcript equality between interleaved and solo runs (relies on the map contract and C20.1)."
ASSUMPTIONS = ["LruCache / BTreeMap keep entries of different keys apart (map contract)"]

INTERIOR = ("Cell<", "RefCell<", "Mutex<", "RwLock<", "Atomic", "UnsafeCell<", "OnceCell<", "OnceLock<", "LazyLock<")


def check(env, rep, tier):
    include(rep, env, tier, "c20", ("C20.2",), "C12.5",
            "'each transfer observes exactly the responses it would observe if it ran alone': the handler reaches the per-key states only through "
            "the keyed lookup - it never walks, removes or replaces entries of other keys")
    configs = ["default"] if tier == "quick" else ["default", "udp"]
    rep.configs = configs
    for cfg in configs:
        prog = env.prog(cfg)
        bh = prog.adts.get("block_handler::BlockHandler")
        if bh is None:
            rep.missing("C12.1", "struct BlockHandler")
            continue
        # ---- C12.1 frame
        fields = bh["variants"][0]["fields"]
        ftys = [prog.types[f["ty"]]["s"] for f in fields]
        maps = [t for t in ftys if t.startswith("lru_time_cache::LruCache<")]
        rep.ob("C12.1", "fields", len(fields) == 2 and len(maps) == 1 and any(t == "block_handler::BlockHandlerConfig" for t in ftys),
               "BlockHandler no longer consists of exactly the configuration and one state map (fields: %s): state outside the per-key map breaks isolation" % ftys,
               sample={"rule": "C12.1", "fields": ftys})
        rep.ob("C12.1", "map-key", bool(maps) and maps[0].startswith("lru_time_cache::LruCache<block_handler::RequestCacheKey<Endpoint>, block_handler::BlockState>"),
               "the state map is not keyed by RequestCacheKey<Endpoint> with BlockState values: %s" % maps)
        muts = [s for s in prog.facts.get("statics", []) if s.get("mut") or s.get("freeze") is False]
        rep.ob("C12.1", "no-static-mut", not muts,
               "the crate has statics that can change at run time (static mut, or a static with interior mutability): %s - state shared "
               "by all transfers outside the keyed map" % [(m.get("id"), m.get("ty_s")) for m in muts])
        for path in ("block_handler::BlockHandler", "block_handler::BlockState", "block_handler::RequestCacheKey", "block_handler::BlockHandlerConfig"):
            a = prog.adts.get(path)
            if a is None:
                rep.missing("C12.1", path)
                continue
            for f in a["variants"][0]["fields"]:
                ts = prog.types[f["ty"]]["s"]
                rep.ob("C12.1", "interior|%s.%s" % (path, f["name"]), not any(x in ts for x in INTERIOR),
                       "%s.%s has an interior-mutability type (%s): state shared outside the keyed map" % (path, f["name"], ts))
        # BlockState values are created only as the or_insert default
        creators = []
        for b in prog.bodies.values():
            if b.get("promoted") or "::tests" in b["id"]:
                continue
            for bi, bb in enumerate(b["blocks"]):
                t = bb["term"]
                if bb["cleanup"] or t["k"] != "call":
                    continue
                r = t.get("resolved") or t.get("callee") or {}
                dt = prog.types[t["dest_ty"]]["s"]
                if dt == "block_handler::BlockState" and not b["path"].startswith("<block_handler::BlockState as"):
                    # the value must flow straight into Entry::or_insert
                    nxt = b["blocks"][t["t"]]["term"] if t["t"] is not None else {}
                    nr = (nxt.get("resolved") or nxt.get("callee") or {}).get("path", "")
                    # (or into the vacant side of that very lookup: `match entry(k) { Vacant(v) => v.insert(default), .. }`)
                    creators.append((b["path"], bb["tspan"]["l"], nr.endswith("::or_insert") or nr.startswith("lru_time_cache::VacantEntry::") and nr.endswith("::insert")))
        # ... or lazily, by handing the constructor itself to Entry::or_insert_with
        for b in prog.bodies.values():
            if b.get("promoted") or "::tests" in b["id"]:
                continue
            for bb in b["blocks"]:
                t = bb["term"]
                if bb["cleanup"] or t["k"] != "call":
                    continue
                r = t.get("resolved") or t.get("callee") or {}
                if r.get("path", "").endswith("Entry::<'a, Key, Value>::or_insert_with"):
                    gs = [prog.types[g]["s"] for g in r.get("gargs", [])]
                    lazy_default = any("BlockState as core::default::Default>::default" in g or g.startswith("fn() -> block_handler::BlockState") for g in gs)
                    creators.append((b["path"], bb["tspan"]["l"], lazy_default))
        rep.ob("C12.1", "state-creation", bool(creators) and all(c[2] for c in creators),
               "a BlockState is created other than as the default of the keyed map lookup: %s" % [c for c in creators if not c[2]],
               sample={"rule": "C12.1", "creation_sites": len(creators)})
        rep.floor("C12.1", "keyed state lookups", len(creators), 1)
        # ---- C12.2 key composition
        kb = find_impl_fn(prog, "core::convert::From", "block_handler::RequestCacheKey<Endpoint>", "&request::CoapRequest<Endpoint>", "from")
        if kb is None:
            rep.missing("C12.2", "From<&CoapRequest> for RequestCacheKey")
        else:
            site = {"file": kb["span"]["f"], "line": kb["span"]["l"], "fn": kb["path"]}
            I = new_interp(prog)
            gargs = (("param", "Endpoint"),)
            calls = []

            def hook(I_, s, call, cbody):
                if call.ctx.depth == 0:
                    calls.append(call.path)
            I.call_hooks.append(hook)
            st = State()
            subst = prog.body_subst(kb, gargs)
            args = [I.mat(st, prog.ty(kb["locals"][1]["ty"], subst), "request")]
            I.max_depth = 0
            I, res = run(prog, kb, args=args, st=st, I=I, gargs=gargs)
            rep.ob("C12.2", "method", "request::CoapRequest::<Endpoint>::get_method" in calls,
                   "the cache key no longer includes the request method (calls: %s)" % calls, site)
            rep.ob("C12.2", "path-segments", "request::CoapRequest::<Endpoint>::get_path_as_vec" in calls
                   and "request::CoapRequest::<Endpoint>::get_path" not in calls,
                   "the cache key path is not taken segment by segment from get_path_as_vec (joined paths make [\"a\",\"b\"] and [\"a/b\"] collide); calls: %s" % calls, site)
            src_i = [i for i, f in enumerate(prog.adts["request::CoapRequest"]["variants"][0]["fields"]) if f["name"] == "source"]
            ok = False
            for s, rv in res:
                rq = I.read(s, args[0].place)
                if isinstance(rq, StructV) and src_i and not isinstance(rq.fields[src_i[0]], TopV):
                    ok = True
            rep.ob("C12.2", "endpoint", ok, "the cache key does not read request.source (transfers of different endpoints would share state)", site)
            # every key field is its request datum carried unchanged: the value may pass only through the
            # information-preserving steps enumerated here (anything else - a filter, a join, a truncation -
            # can make two different resources / endpoints / methods share one state)
            import provenance
            PRESERVING = ("core::result::Result::<T, E>::unwrap_or_default", "core::result::Result::<T, E>::unwrap_or",
                          "core::result::Result::<T, E>::unwrap_or_else", "core::result::Result::<T, E>::unwrap",
                          "core::result::Result::<T, E>::expect", "core::result::Result::<T, E>::ok",
                          "core::option::Option::<T>::unwrap_or_default", "core::option::Option::<T>::unwrap_or",
                          "core::option::Option::<T>::unwrap_or_else", "core::option::Option::<T>::unwrap",
                          "core::option::Option::<T>::expect", "core::option::Option::<T>::as_ref",
                          "core::option::Option::<&T>::cloned", "core::option::Option::<&T>::copied",
                          "<core::option::Option<T> as core::clone::Clone>::clone", "core::clone::Clone::clone",
                          "<alloc::vec::Vec<T, A> as core::clone::Clone>::clone", "alloc::borrow::ToOwned::to_owned",
                          "<T as core::convert::Into<U>>::into", "<T as core::convert::From<T>>::from",
                          "header::<impl core::convert::From<header::MessageClass> for u8>::from",
                          "header::<impl core::convert::From<header::RequestType> for u8>::from")
            SOURCES = {"method": "request::CoapRequest::<Endpoint>::get_method",
                       "path": "request::CoapRequest::<Endpoint>::get_path_as_vec"}
            aggs = []
            for bb in kb["blocks"]:
                if bb.get("cleanup"):
                    continue
                for stt in bb["stmts"]:
                    if stt["k"] == "assign" and stt["rv"]["k"] == "aggregate" and stt["rv"]["kind"].get("path") == "block_handler::RequestCacheKey":
                        aggs.append(stt["rv"])
            if len(aggs) != 1 or len(aggs[0]["ops"]) != 3:
                rep.missing("C12.2", "the single RequestCacheKey { .. } construction in From<&CoapRequest>")
            else:
                ka = prog.adts["block_handler::RequestCacheKey"]["variants"][0]["fields"]
                for fi, op in enumerate(aggs[0]["ops"]):
                    fname = ka[fi]["name"]
                    fty = prog.types[ka[fi]["ty"]]["s"]
                    steps, term = provenance.trace(kb, op)
                    bad = []
                    src = None
                    for stp in steps:
                        if stp[0] == "call":
                            if stp[1] in SOURCES.values():
                                src = stp[1]
                                break
                            if stp[1] not in PRESERVING:
                                bad.append(stp[1])
                        elif stp[0] == "cast":
                            bad.append("cast " + str(stp[1]))
                    if src is None and term[0] == "arg":
                        src = "request" + term[2]
                    elif src is None:
                        bad.append("origin %s" % (term,))
                    if "Vec<alloc::string::String>" in fty:
                        want = SOURCES["path"]
                    elif fty == "u8":
                        want = SOURCES["method"]
                    else:
                        want = "request*.%d" % src_i[0] if src_i else "?"
                    rep.ob("C12.2", "field-carried-unchanged|" + fname, not bad and src == want,
                           "cache key field `%s` is not its request datum carried unchanged (origin %s, expected %s; passes through %s): "
                           "distinct transfers can collide on one state" % (fname, src, want, bad or "-"), site,
                           sample={"rule": "C12.2", "field": fname, "origin": src, "steps": [st_[1] for st_ in steps if st_[0] == "call"]})
            # ... and the segment vector is not edited on the way (more elements appended - e.g. the query arguments, with nothing
            # telling them from path segments -, elements removed, reordered): no call in the key construction takes it by &mut
            edits = []
            for bb in kb["blocks"]:
                t = bb["term"]
                if t["k"] != "call" or bb.get("cleanup"):
                    continue
                for a_ in t["args"][:1]:
                    if a_["k"] in ("copy", "move") and not a_["place"]["p"]:
                        ts_ = prog.types[kb["locals"][a_["place"]["l"]]["ty"]]["s"]
                        if ts_.startswith("&mut alloc::vec::Vec<alloc::string::String"):
                            edits.append((t.get("resolved") or t.get("callee") or {}).get("path", "?"))
            rep.ob("C12.2", "path-segments-not-edited", not edits,
                   "the path segments of the cache key are modified after they were taken from the request (%s): /a?b and /a/b (or other pairs of "
                   "different resources) can share one transfer state" % sorted(set(edits))[:3], site)
            a = prog.adts.get("block_handler::RequestCacheKey")
            rep.ob("C12.2", "three-fields", a is not None and len(a["variants"][0]["fields"]) == 3,
                   "RequestCacheKey no longer has the three fields (method, path segments, requester)")
            pt = [prog.types[f["ty"]]["s"] for f in a["variants"][0]["fields"]] if a else []
            rep.ob("C12.2", "path-type", "alloc::vec::Vec<alloc::string::String>" in pt,
                   "RequestCacheKey does not hold the path as a vector of segments: %s" % pt)
            for tr in ("core::cmp::Ord", "core::cmp::PartialOrd", "core::cmp::Eq", "core::cmp::PartialEq"):
                ims = [im for im in prog.impls if im.get("trait") == tr and prog.types[im["self_ty"]]["s"].startswith("block_handler::RequestCacheKey<")]
                rep.ob("C12.2", "derived|" + tr, len(ims) == 1 and ims[0]["derived"],
                       "%s for RequestCacheKey is not the derived (all-fields) implementation" % tr)
        want = getattr(env, "include_rules", None)
        if want and not any(r in want for r in ("C12.3", "C12.4", "C12.5")):
            continue        # taken over for the frame / key rules only: the handler traces are not needed
        check_reply_correlation(prog, rep)
        # ---- C12.3 no stale correlation
        import blockutil
        pcl = None
        serve = blockutil.find_serve(prog)
        for sv in serve:
            for bb in sv["blocks"]:
                t = bb["term"]
                if t["k"] == "call" and not bb["cleanup"]:
                    r = t.get("resolved") or {}
                    if r.get("local") and r.get("id") in prog.bodies:
                        cb = prog.bodies[r["id"]]
                        tys = [prog.types[cb["locals"][i + 1]["ty"]]["s"] for i in range(cb["arg_count"])]
                        if tys == ["&mut packet::Packet", "&packet::Packet"]:
                            pcl = cb
        if pcl is None:
            # anchored by behaviour instead of name: the function called from the serve path with (&mut Packet, &Packet)
            rep.missing("C12.3", "the function copying the cached reply into the live reply (packet_clone_limited)")
        else:
            site = {"file": pcl["span"]["f"], "line": pcl["span"]["l"], "fn": pcl["path"]}
            I = new_interp(prog)
            gargs = (("param", "Endpoint"),)
            st = State()
            subst = prog.body_subst(pcl, gargs)
            dst = I.mat(st, prog.ty(pcl["locals"][1]["ty"], subst), "dst")
            src = I.mat(st, prog.ty(pcl["locals"][2]["ty"], subst), "src")
            pty = prog.ty(pcl["locals"][1]["ty"], subst)[2]
            P = {f["name"]: i for i, f in enumerate(prog.adts["packet::Packet"]["variants"][0]["fields"])}
            H = {f["name"]: i for i, f in enumerate(prog.adts["header::Header"]["variants"][0]["fields"])}
            for r in (dst, src):
                I.ensure(st, r.place, pty, "p")
                I.ensure(st, r.place.extend(("f", P["header"])), I.field_types(pty)[P["header"]], "p.header")
            d_mid = I.ensure(st, dst.place.extend(("f", P["header"]), ("f", H["message_id"])), ("int", 16, False), "dst.mid")
            d_tok = I.ensure(st, dst.place.extend(("f", P["token"])), I.field_types(pty)[P["token"]], "dst.token")
            d_b0 = I.ensure(st, dst.place.extend(("f", P["header"]), ("f", H["ver_type_tkl"])), ("int", 8, False), "dst.b0")
            s_b0 = I.ensure(st, src.place.extend(("f", P["header"]), ("f", H["ver_type_tkl"])), ("int", 8, False), "src.b0")
            I, res = run(prog, pcl, args=[dst, src], st=st, I=I, gargs=gargs)
            ok_mid = ok_tok = ok_bits = ok_read = bool(res)
            for s, rv in res:
                d = I.read(s, dst.place)
                h = d.fields[P["header"]]
                if h.fields[H["message_id"]] != d_mid:
                    ok_mid = False
                if d.fields[P["token"]] != d_tok:
                    ok_tok = False
                bits = bitprov.resolve_bits(I, s, h.fields[H["ver_type_tkl"]], 8)
                sd, ss = bitprov.sym_of(d_b0), bitprov.sym_of(s_b0)
                fs = bitprov.field_of(bits, ss) if bits else {}
                # the type bits travel through the MessageType enum, so they arrive as per-path constants
                type_ok = bits is not None and all(bits[i] in (0, 1, None) or bits[i] == ("b", ss, i) for i in (4, 5))
                if not bits or bitprov.field_of(bits, sd) != {0: 0, 1: 1, 2: 2, 3: 3} or fs.get(6) != 6 or fs.get(7) != 7 or not type_ok:
                    ok_bits = False
                sv = I.read(s, src.place)
                if not isinstance(sv.fields[P["token"]], TopV) or not isinstance(sv.fields[P["payload"]], TopV) \
                        or not isinstance(sv.fields[P["header"]].fields[H["message_id"]], TopV):
                    ok_read = False
            rep.ob("C12.3", "message_id", ok_mid, "the cached reply's message id can reach the live reply", site)
            rep.ob("C12.3", "token", ok_tok, "the live reply's token is modified while copying the cached reply", site)
            rep.ob("C12.3", "header-bits", ok_bits,
                   "copying the cached reply does not leave the live reply's token-length bits alone while taking exactly the version/type bits from the cache", site)
            rep.ob("C12.3", "read-set", ok_read, "the cached reply's message id / token / payload are read while serving a block (stale correlation can leak)", site)


def check_reply_correlation(prog, rep):
    """C12.4: neither handler entry point touches the prepared reply's correlation fields - message id, token, token
    length nibble - on any path (they were set from the request being answered, C07); only the version / type bits
    may be rewritten, by the copy function C12.3 constrains"""
    import blockutil
    import bitprov
    from blockutil import Trace
    P = {f["name"]: i for i, f in enumerate(prog.adts["packet::Packet"]["variants"][0]["fields"])}
    H = {f["name"]: i for i, f in enumerate(prog.adts["header::Header"]["variants"][0]["fields"])}
    for entry in ("intercept_response", "intercept_request"):
        init = {}

        def setup(tr, I, st, init=init):
            m = tr.resp_msg
            init["mid"] = I.ensure(st, m.extend(("f", P["header"]), ("f", H["message_id"])), ("int", 16, False), "reply.mid")
            init["b0"] = I.ensure(st, m.extend(("f", P["header"]), ("f", H["ver_type_tkl"])), ("int", 8, False), "reply.b0")
            n = I.fresh(st, "len(reply.token)", 0, 8, ("len", "reply.token"))
            tok = VecV(Aff.sym(n), None, ("reply-token",), I.newgen())
            I.write(st, m.extend(("f", P["token"])), tok)
            init["tok"] = tok
        tr = Trace(prog, entry, setup=setup)
        if not tr.ok or "mid" not in init:
            rep.missing("C12.4", "BlockHandler::" + entry)
            continue
        I = tr.I
        site = {"file": tr.body["span"]["f"], "line": tr.body["span"]["l"], "fn": tr.body["path"]}
        n, bad = 0, []
        b0sym = bitprov.sym_of(init["b0"]) if isinstance(init["b0"], IntV) else None
        for s, rv in tr.res:
            n += 1
            resp = I.read(s, tr.resp_msg)
            if not isinstance(resp, StructV):
                bad.append("the reply is replaced by an untracked value")
                continue
            h = resp.fields[P["header"]]
            if not isinstance(h, StructV):
                bad.append("the reply header is replaced by an untracked value")
                continue
            mid = h.fields[H["message_id"]] if isinstance(h, StructV) else None
            if not (isinstance(mid, IntV) and isinstance(init["mid"], IntV) and mid.aff == init["mid"].aff):
                bad.append("the message id of the reply is changed")
            tok = resp.fields[P["token"]]
            if not (isinstance(tok, VecV) and tok.gen == init["tok"].gen and tok.len == init["tok"].len):
                bad.append("the token of the reply is replaced (a default / emptied packet loses it)")
            b0 = h.fields[H["ver_type_tkl"]] if isinstance(h, StructV) else None
            bits = bitprov.resolve_bits(I, s, b0, 8) if isinstance(b0, IntV) else None
            if not (bits and b0sym and all(bits[i] == ("b", b0sym, i) for i in range(4))):
                bad.append("the token length field of the reply header is changed")
        rep.ob("C12.4", "reply-correlation|" + entry, not bad and n >= 2,
               "%s: %s (paths: %d)" % (entry, "; ".join(sorted(set(bad))[:2]) or "too few paths", n), site,
               sample={"rule": "C12.4", "entry": entry, "paths": n})
