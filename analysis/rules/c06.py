"""C06 - typed option values: width table, reject-longer guard, lossless
narrowing, panic-free conversions, encoder shape for 0 and < 256."""
import os
from harness import *
from absdom import Aff

LEVEL = "other"
EXPLANATION = ("for every OptionValueU8/16/32/64 conversion pair: the byte width passed to the shared helpers equals "
               "the size of the wrapped integer type in both directions; decoding is analysed for an arbitrary byte "
               "vector (fold unrolled per admissible length) and must be panic-free, return Err exactly when the "
               "input is longer than the width, and make the narrowing cast lossless; encoding is analysed for an "
               "arbitrary value of the type (drain loop unrolled) and must be panic-free, give the empty vector for 0 "
               "and a one-byte vector for values below 256; string conversions must be String::into_bytes / from_utf8; "
               "typed accessors on Packet reach the raw accessors with their own option number.  C06.8: per path of the unrolled "
               "encoder the pushed bytes (vector construction history) carry value bits 8(n-1-i)..+7 (known-bits provenance), the value "
               "is entailed < 256^n and >= 256^(n-1): shortest big-endian.  C06.9: per admissible length the decoder's result is the "
               "affine form sum 256^(n-1-k) byte_k.  C06.7: set/get_observe_value hand the number over unchanged")
NOT_DECIDED = ("Not decided: UTF-8 handling beyond delegation to String::from_utf8 / into_bytes; element order of the list-valued "
               "typed accessors beyond reaching the raw accessors (C19.6 covers the iterators).")
ASSUMPTIONS = []

TYPES = [("option_value::OptionValueU8", 8), ("option_value::OptionValueU16", 16),
         ("option_value::OptionValueU32", 32), ("option_value::OptionValueU64", 64)]


def check(env, rep, tier):
    include(rep, env, tier, "c19", ("C19.3", "C19.8"), "C06.11",
            "'setters store exactly these encodings': the convenience setters replace whatever was there on every path (no 'already set' "
            "shortcut that keeps a non-minimal or longer list) and go through the typed encoder")
    configs = ["default"] if tier == "quick" else ["default", "nodefault", "udp"]
    rep.configs = configs
    for cfg in configs:
        prog = env.prog(cfg)
        n_pairs = 0
        for tname, bits in TYPES:
            a = prog.adts.get(tname)
            if a is None:
                continue
            n_pairs += 1
            fty = prog.types[a["variants"][0]["fields"][0]["ty"]]
            rep.ob("C06.1", "%s|field" % tname, fty.get("k") == "int" and fty.get("bits") == bits,
                   "%s wraps %s, expected a %d-bit unsigned integer" % (tname, fty.get("s"), bits))
            width = bits // 8
            # ---- decode
            dec = find_impl_fn(prog, "core::convert::TryFrom", tname, "alloc::vec::Vec<u8>", "try_from")
            enc = find_impl_fn(prog, "core::convert::From", "alloc::vec::Vec<u8>", tname, "from")
            if dec is None or enc is None:
                rep.missing("C06.1", "conversion pair of " + tname)
                continue
            for body, direction in ((dec, "decode"), (enc, "encode")):
                I = new_interp(prog)
                I.no_join_bodies.add(body["id"])
                widths = []

                def hook(I_, s, call, cbody, widths=widths):
                    if cbody is not None and call.ctx.depth == 0 and len(call.args) == 2 and isinstance(call.args[1], IntV):
                        widths.append((call.path, call.args[1].aff))
                I.call_hooks.append(hook)
                st = State()
                arg = I.mat(st, prog.ty(body["locals"][1]["ty"]), "value")
                I, res = run(prog, body, args=[arg], st=st, I=I)
                report_obligations(rep, "C06.3" if direction == "decode" else "C06.4", I, include_cast=True)
                ok = len(widths) == 1 and widths[0][1] == Aff.const(width)
                rep.ob("C06.1", "%s|%s|width" % (tname, direction), ok,
                       "%s %s passes width %s to its helper, expected %d (size of the wrapped type)" % (tname, direction, widths, width),
                       {"file": body["span"]["f"], "line": body["span"]["l"], "fn": body["path"]},
                       sample={"rule": "C06.1", "type": tname, "direction": direction, "width": repr(widths)})
                if direction == "decode" and isinstance(arg, VecV):
                    for s, rv in res:
                        if not isinstance(rv, EnumV):
                            rep.ob("C06.2", "%s|shape" % tname, False, "cannot establish: result of %s not tracked" % body["path"])
                            continue
                        for vi in rv.variants:
                            if vi == 0:
                                okv = s.entails(Aff.const(width) - arg.len)
                                rep.ob("C06.2", "%s|ok=>fits" % tname, okv,
                                       "%s accepts a value on a path where its length is not shown <= %d bytes" % (body["path"], width),
                                       {"file": body["span"]["f"], "line": body["span"]["l"], "fn": body["path"]})
                            else:
                                okv = s.entails(arg.len - width - 1)
                                rep.ob("C06.2", "%s|err=>longer" % tname, okv,
                                       "%s rejects a value on a path where its length is not shown > %d bytes (over-strict)" % (body["path"], width),
                                       {"file": body["span"]["f"], "line": body["span"]["l"], "fn": body["path"]})
                if direction == "encode":
                    # shape classes: 0 -> empty, 1..255 -> one byte
                    for lo, hi, want in ((0, 0, 0), (1, 255, 1)):
                        I2 = new_interp(prog)
                        st2 = State()
                        v = I2.mat(st2, prog.ty(body["locals"][1]["ty"]), "value")
                        inner = v.fields[0] if isinstance(v, StructV) else None
                        if isinstance(inner, TopV):
                            inner = I2.mat(st2, inner.ty, "value.0")
                            v = StructV([inner])
                        if not isinstance(inner, IntV):
                            rep.missing("C06.4", "integer field of " + tname)
                            continue
                        st2.add_fact(inner.aff - lo)
                        st2.add_fact(Aff.const(hi) - inner.aff)
                        I2, res2 = run(prog, body, args=[v], st=st2, I=I2)
                        okv = bool(res2)
                        for s, rv in res2:
                            if not (isinstance(rv, VecV) and s.entails_eq(rv.len, Aff.const(want))):
                                okv = False
                        rep.ob("C06.4", "%s|class[%d,%d]" % (tname, lo, hi), okv,
                               "%s: a value in [%d, %d] is not shown to encode to exactly %d byte(s)" % (body["path"], lo, hi, want),
                               {"file": body["span"]["f"], "line": body["span"]["l"], "fn": body["path"]},
                               sample={"rule": "C06.4", "type": tname, "class": [lo, hi], "bytes": want, "ok": okv})
        # ---- C06.8 content of the multi-byte encoding: per path of the (unrolled) encoder the pushed bytes are
        #      read back from the vector's construction history; byte i of n must carry value bits 8(n-1-i)..+7,
        #      nothing above 256^n may be dropped and the leading byte is non-zero (value >= 256^(n-1))
        import bitprov
        for tname, bits in TYPES:
            enc = find_impl_fn(prog, "core::convert::From", "alloc::vec::Vec<u8>", tname, "from")
            if enc is None:
                continue
            I = new_interp(prog)
            I.no_join_bodies.add(enc["id"])
            I.no_join_prefixes = ("option_value::",)
            st = State()
            v = I.mat(st, prog.ty(enc["locals"][1]["ty"]), "value")
            inner = v.fields[0] if isinstance(v, StructV) else None
            if isinstance(inner, TopV):
                inner = I.mat(st, inner.ty, "value.0")
                v = StructV([inner])
            if not isinstance(inner, IntV):
                continue
            vsym = bitprov.sym_of(inner)
            I, res = run(prog, enc, args=[v], st=st, I=I)
            lens, bad = set(), []
            for s_, rv in res:
                if not (isinstance(rv, VecV) and rv.len.is_const()):
                    bad.append("result length not tracked")
                    continue
                n = rv.len.c
                if n < 2:
                    continue
                lens.add(n)
                elems, t, rev = [], rv.tag, False
                while isinstance(t, tuple) and t and t[0] in ("reverse", "pushed"):
                    if t[0] == "reverse":
                        rev = not rev
                    else:
                        elems.append(t[2])
                    t = t[1]
                elems.reverse()          # push order
                if rev:
                    elems.reverse()
                if not elems and isinstance(t, tuple) and t and t[0] in ("slice", "copy") and len(t) >= 4:
                    # the vector is a copy of a piece of a tracked array (e.g. of value.to_be_bytes())
                    import summaries2
                    off = t[2] if isinstance(t[2], int) else (t[2].c if isinstance(t[2], Aff) and t[2].is_const() else None)
                    got = summaries2.array_elems(I, s_, t[1], off, n) if off is not None else None
                    if got is not None:
                        elems, t = got, ("new", 0)
                if len(elems) != n or not (isinstance(t, tuple) and t and t[0] == "new"):
                    bad.append("the bytes of a %d-byte encoding are not all tracked%s" % (n, (" (tag %r)" % (t,)) if os.environ.get("VERIF_DEBUG_C06") else ""))
                    continue
                for i, e in enumerate(elems):
                    eb = bitprov.resolve_bits(I, s_, e) if isinstance(e, IntV) else None
                    want = {j: 8 * (n - 1 - i) + j for j in range(8) if 8 * (n - 1 - i) + j < bits}
                    if eb is None or bitprov.field_of(eb, vsym) != want or any(b != 0 and not (isinstance(b, tuple) and b[1] == vsym) for b in eb):
                        bad.append("byte %d of a %d-byte encoding is not bits %d..%d of the value (byte order / shift)" % (i, n, 8 * (n - 1 - i), 8 * (n - 1 - i) + 7))
                        break
                if os.environ.get("VERIF_DEBUG_C06"):
                    print("C06.8 n=%d" % n, "range", s_.range(inner.aff), "facts", list(s_.facts)[:12], "elems", elems, [s_.range(e.aff) for e in elems if isinstance(e, IntV)])
                if n * 8 < bits and not s_.entails(Aff.const((1 << (8 * n)) - 1) - inner.aff):
                    bad.append("a %d-byte encoding is produced for a value not shown below 256^%d (high bytes dropped)" % (n, n))
                if not s_.entails(inner.aff - (1 << (8 * (n - 1)))):
                    bad.append("a %d-byte encoding is produced for a value not shown >= 256^%d (leading zero byte)" % (n, n - 1))
            want_lens = set(range(2, bits // 8 + 1))
            if bits > 8:
                rep.ob("C06.8", "%s|big-endian-shortest" % tname, not bad and lens == want_lens,
                       "%s: %s (multi-byte lengths reached: %s, expected %s)" % (enc["path"], "; ".join(sorted(set(bad))[:2]) or "length classes differ",
                                                                                  sorted(lens), sorted(want_lens)),
                       {"file": enc["span"]["f"], "line": enc["span"]["l"], "fn": enc["path"]},
                       sample={"rule": "C06.8", "type": tname, "lengths": sorted(lens)})
        # ---- C06.9 content of the decoding: per admissible length n the fold (unrolled by the model, items are
        #      fresh byte symbols created in iteration order) yields  sum 256^(n-1-k) * byte_k
        for tname, bits in TYPES:
            dec = find_impl_fn(prog, "core::convert::TryFrom", tname, "alloc::vec::Vec<u8>", "try_from")
            if dec is None:
                continue
            I = new_interp(prog)
            I.no_join_bodies.add(dec["id"])
            I.no_join_prefixes = ("option_value::",)
            st = State()
            arg = I.mat(st, prog.ty(dec["locals"][1]["ty"]), "value")
            I, res = run(prog, dec, args=[arg], st=st, I=I)
            lens, bad = set(), []
            for s_, rv in res:
                if not (isinstance(rv, EnumV) and list(rv.variants) == [0] and isinstance(arg, VecV)):
                    continue
                lo, hi = s_.range(arg.len)
                x = rv.variants[0].fields[0]
                if isinstance(x, StructV) and x.fields:
                    x = x.fields[0]
                if lo != hi or not isinstance(x, IntV):
                    bad.append("the decoded number is not tracked per input length")
                    continue
                n = lo
                lens.add(n)
                syms = sorted(x.aff.t, key=lambda t: int(str(t[0]).rsplit("#", 1)[-1]) if "#" in str(t[0]) else 0)
                coeffs = [k for _, k in syms]
                okb = all(s_.bounds.get(sy, (None, None)) == (0, 255) for sy, _ in syms)
                if x.aff.c != 0 or coeffs != [256 ** (n - 1 - k) for k in range(n)] or not okb:
                    bad.append("for a %d-byte input the number is %s, not the big-endian value of the bytes" % (n, norm(x.aff)))
            rep.ob("C06.9", "%s|big-endian-decode" % tname, not bad and lens == set(range(0, bits // 8 + 1)),
                   "%s: %s (lengths accepted: %s, expected 0..%d)" % (dec["path"], "; ".join(sorted(set(bad))[:2]) or "length classes differ", sorted(lens), bits // 8),
                   {"file": dec["span"]["f"], "line": dec["span"]["l"], "fn": dec["path"]},
                   sample={"rule": "C06.9", "type": tname, "lengths": sorted(lens)})
        rep.floor("C06.1", "uint option value types", n_pairs, 4)
        # ---- C06.5 strings
        for tr, self_s, arg_s, name, want in (
                ("core::convert::From", "alloc::vec::Vec<u8>", "option_value::OptionValueString", "from", "alloc::string::String::into_bytes"),
                ("core::convert::TryFrom", "option_value::OptionValueString", "alloc::vec::Vec<u8>", "try_from", "alloc::string::String::from_utf8")):
            b = find_impl_fn(prog, tr, self_s, arg_s, name)
            if b is None:
                rep.missing("C06.5", "%s for %s" % (tr, self_s))
                continue
            calls = set()
            for bb in b["blocks"]:
                t = bb["term"]
                if t["k"] == "call" and not bb["cleanup"]:
                    calls.add((t.get("resolved") or t.get("callee") or {}).get("path"))
            rep.ob("C06.5", "%s|%s" % (self_s, name), want in calls,
                   "%s no longer converts through %s (calls: %s)" % (b["path"], want, sorted(c for c in calls if c)),
                   {"file": b["span"]["f"], "line": b["span"]["l"], "fn": b["path"]})
        # ---- C06.5c text options encode to exactly the string's bytes: the vector returned is the string's own buffer
        #      (same object, same length) on every path - not a prefix, a filtered or a rebuilt text
        eb = find_impl_fn(prog, "core::convert::From", "alloc::vec::Vec<u8>", "option_value::OptionValueString", "from")
        if eb is not None:
            I = new_interp(prog)
            I.no_join_bodies.add(eb["id"])
            st = State()
            arg = I.mat(st, prog.ty(eb["locals"][1]["ty"]), "value")
            if isinstance(arg, StructV) and arg.fields and isinstance(arg.fields[0], TopV):
                arg = StructV([I.mat(st, arg.fields[0].ty, "value.0")])
            orig = arg.fields[0] if isinstance(arg, StructV) and arg.fields else None
            I, res = run(prog, eb, args=[arg], st=st, I=I)
            okx = bool(res) and isinstance(orig, VecV)
            for s_, rv in res:
                same = isinstance(rv, VecV) and isinstance(orig, VecV) and rv.tag == orig.tag
                if isinstance(rv, VecV) and isinstance(orig, VecV) and isinstance(rv.tag, tuple) and rv.tag and rv.tag[0] in ("copy", "slice") and len(rv.tag) >= 4:
                    # a copy of the whole buffer (`as_bytes().to_vec()`, `Vec::from(s.as_bytes())`)
                    bs = rv.tag[1]
                    off = rv.tag[2]
                    same = isinstance(bs, tuple) and bs and bs[0] == "vec" and len(bs) >= 4 and bs[3] == orig.tag \
                        and (off == 0 or (isinstance(off, Aff) and s_.entails_eq(off, Aff.const(0))))
                if not (same and s_.entails_eq(rv.len, orig.len)):
                    okx = False
            rep.ob("C06.5", "string-encode-exact", okx,
                   "the text option encoder does not return exactly the bytes of the string it is given on every path (shortened, filtered or rebuilt text)",
                   {"file": eb["span"]["f"], "line": eb["span"]["l"], "fn": eb["path"]}, sample={"rule": "C06.5", "paths": len(res)})
        # ---- C06.5b text options: Ok exactly when String::from_utf8 says so, carrying that very String
        sb = find_impl_fn(prog, "core::convert::TryFrom", "option_value::OptionValueString", "alloc::vec::Vec<u8>", "try_from")
        if sb is not None:
            I = new_interp(prog)
            I.no_join_bodies.add(sb["id"])
            st = State()
            arg = I.mat(st, prog.ty(sb["locals"][1]["ty"]), "value")
            made = []

            def m_from_utf8(I_, s_, call, made=made):
                from summaries import mk_ok, mk_err
                s2 = s_.copy()
                src = call.args[0]
                good = VecV(src.len if isinstance(src, VecV) else Aff.sym(I_.fresh(s_, "len", 0, (1 << 63) - 1)), None, ("utf8-checked", src.gen if isinstance(src, VecV) else None), I_.newgen())
                made.append(good.gen)
                s_.ghost["utf8"] = "ok"
                s2.ghost["utf8"] = "err"
                return [(s_, mk_ok(good, call.dest_ty)), (s2, mk_err(I_.mat(s2, call.dest_ty[2][1] if call.dest_ty and len(call.dest_ty[2]) > 1 else None, "utf8err"), call.dest_ty))]
            I.extra_models["alloc::string::String::from_utf8"] = m_from_utf8
            I, res = run(prog, sb, args=[arg], st=st, I=I)
            okx = bool(res) and bool(made)
            for s_, rv in res:
                if not isinstance(rv, EnumV) or len(rv.variants) != 1:
                    okx = False
                    continue
                vi = next(iter(rv.variants))
                u = s_.ghost.get("utf8")
                if vi == 0:
                    inner = rv.variants[0].fields[0]
                    inner = inner.fields[0] if isinstance(inner, StructV) and inner.fields else inner
                    if u != "ok" or not (isinstance(inner, VecV) and inner.gen in made and isinstance(inner.tag, tuple) and inner.tag[0] == "utf8-checked"):
                        okx = False
                elif u != "err":
                    okx = False
            rep.ob("C06.5", "string-decode-exact", okx,
                   "OptionValueString::try_from does not return Ok exactly when String::from_utf8 accepts the bytes, with that very string "
                   "(invalid UTF-8 can be accepted, repaired or truncated; or valid text rejected)",
                   {"file": sb["span"]["f"], "line": sb["span"]["l"], "fn": sb["path"]})
        # ---- C06.6 typed accessors reach the raw accessors with their own option number
        for entry, raw in (("packet::Packet::add_option_as", "packet::Packet::add_option"),
                           ("packet::Packet::set_options_as", "packet::Packet::set_option"),
                           ("packet::Packet::get_options_as", "packet::Packet::get_option"),
                           ("packet::Packet::get_first_option_as", "packet::Packet::get_first_option")):
            b = find_body(prog, entry)
            if b is None:
                rep.missing("C06.6", entry)
                continue
            I = new_interp(prog)
            I.max_depth = 0
            seen = []
            st = State()
            gargs = (("adt", "option_value::OptionValueU16", (), "struct"),)
            subst = prog.body_subst(b, gargs)
            args = [I.mat(st, prog.ty(b["locals"][i + 1]["ty"], subst), "a%d" % i) for i in range(b["arg_count"])]

            # what the raw accessor itself does to the map: a setter replaces the whole list, an adder appends, a getter looks up
            MAPOPS = {"packet::Packet::set_option": ("insert",), "packet::Packet::add_option": ("entry", "get_mut", "insert"),
                      "packet::Packet::get_option": ("get",), "packet::Packet::get_first_option": ("get",)}
            RAWS = ("packet::Packet::add_option", "packet::Packet::set_option", "packet::Packet::get_option",
                    "packet::Packet::get_first_option")
            opt_i = [i for i, f in enumerate(prog.adts["packet::Packet"]["variants"][0]["fields"]) if f["name"] == "options"]
            map_place = args[0].place.extend(("f", opt_i[0])) if isinstance(args[0], RefV) and opt_i else None
            conv_bad = []

            def hook(I_, s, call, cbody, seen=seen, raw=raw):
                if call.path in RAWS:
                    seen.append(call.args[1] if len(call.args) > 1 else None)
                    s.ghost["reached-raw"] = True
                elif call.path in ("packet::<impl core::convert::From<packet::CoapOption> for u16>::from",) \
                        or (call.path in ("<T as core::convert::Into<U>>::into",) and call.args and isinstance(call.args[0], EnumV) and call.args[0].path == "packet::CoapOption"):
                    # the raw accessors spelled out in place: the key of the map operation is this option's number
                    if call.args and call.args[0] == args[1]:
                        s.ghost["own-number"] = True
                    else:
                        conv_bad.append(call.site)
                elif "collections::btree::map::BTreeMap" in call.path and call.name in MAPOPS[raw] \
                        and call.args and isinstance(call.args[0], RefV) and map_place is not None and call.args[0].place == map_place:
                    if s.ghost.get("own-number"):
                        s.ghost["reached-raw"] = True
                        seen.append(args[1])
            I.call_hooks.append(hook)
            I, res = run(prog, b, args=args, st=st, I=I, gargs=gargs)
            ok = len(seen) >= 1 and all(x == args[1] for x in seen) and not conv_bad
            # ... on every path: a shortcut that returns without going through the raw accessor stores / reads something else
            every = bool(res) and all(s_.ghost.get("reached-raw") for s_, _ in res)
            rep.ob("C06.6", entry + "|every-path", every,
                   "%s has a path that returns without going through a raw accessor such as %s - or the option map itself under this option's number (a fast path keeps or builds the stored list by other means: "
                   "stale elements can survive, or values bypass the typed encoding)" % (entry, raw),
                   {"file": b["span"]["f"], "line": b["span"]["l"], "fn": entry})
            rep.ob("C06.6", entry, ok, "%s does not reach the raw option state (%s or the option map) with its own option number" % (entry, raw),
                   {"file": b["span"]["f"], "line": b["span"]["l"], "fn": entry})

        check_elementwise(prog, rep)
        check_first_getter(prog, rep)
        # ---- C06.7 the numeric convenience accessors hand the number over unchanged
        b = find_body(prog, "packet::Packet::set_observe_value")
        g = find_body(prog, "packet::Packet::get_observe_value")
        if b is None or g is None:
            rep.missing("C06.7", "Packet::set_observe_value / get_observe_value")
        else:
            import provenance
            wraps, typed, wrap_locals = [], 0, set()
            for bb in b["blocks"]:
                if bb.get("cleanup"):
                    continue
                for stt in bb["stmts"]:
                    if stt["k"] == "assign" and stt["rv"]["k"] == "aggregate" and str(stt["rv"]["kind"].get("path", "")).startswith("option_value::OptionValueU"):
                        wraps.append((stt["rv"]["kind"]["path"], provenance.trace(b, stt["rv"]["ops"][0])))
                        wrap_locals.add(stt["place"]["l"])
            for bb in b["blocks"]:
                if bb.get("cleanup"):
                    continue
                t = bb["term"]
                # a typed write: the wrapped value is handed to a Packet method (add_option_as, set_options_as, or a private
                # helper generic over the option value type)
                if t["k"] == "call" and provenance.callee_path(t).startswith("packet::Packet::") \
                        and (any(a_["k"] in ("move", "copy") and a_["place"]["l"] in wrap_locals for a_ in t["args"])
                             or provenance.callee_path(t) in ("packet::Packet::add_option_as", "packet::Packet::set_options_as")):
                    typed += 1
            ok = typed >= 1 and len(wraps) >= 1 and all(w[0].endswith("U32") and w[1] == ([], ("arg", 2, "")) for w in wraps)
            rep.ob("C06.7", "set_observe_value", ok,
                   "set_observe_value does not hand its argument unchanged to the typed setter (a masked, shifted or truncated "
                   "number is stored, so the stored bytes are not the encoding of the value given): wrapped values %s" % (wraps,),
                   {"file": b["span"]["f"], "line": b["span"]["l"], "fn": b["path"]}, sample={"rule": "C06.7", "typed_writes": typed})
            I = new_interp(prog)
            st = State()
            args = [I.mat(st, prog.ty(g["locals"][1]["ty"]), "self")]
            inj = []

            def m_get(I_, s_, call, inj=inj):
                from summaries import mk_ok, mk_option
                x = I_.fresh_int(s_, "stored", (32, False), 0, (1 << 32) - 1)
                inj.append(x)
                return [(s_, mk_option(I_, mk_ok(StructV([x]), None), call.dest_ty))]
            I.extra_models["packet::Packet::get_first_option_as"] = m_get
            I, res = run(prog, g, args=args, st=st, I=I)
            ok = bool(inj) and bool(res)
            for s_, rv in res:
                v = rv
                for want in (1, 0):
                    if isinstance(v, EnumV) and list(v.variants) == [want] and isinstance(v.variants[want], StructV):
                        v = v.variants[want].fields[0]
                    else:
                        v = None
                        break
                if not (isinstance(v, IntV) and inj and v.aff == inj[-1].aff):
                    ok = False
            rep.ob("C06.7", "get_observe_value", ok,
                   "get_observe_value does not return the decoded number unchanged",
                   {"file": g["span"]["f"], "line": g["span"]["l"], "fn": g["path"]})



ELEMENTWISE_OK = {"map", "collect", "cloned", "copied", "by_ref", "into_iter", "iter", "next", "for_each", "size_hint"}


def check_first_getter(prog, rep):
    """C06.12: get_first_option_as decodes the front element and nothing else - the conversion is not inside a loop
    (no 'first one that decodes' walk) and no searching adapter (find / find_map / filter / skip_while ...) picks
    another element"""
    import interp as _interp
    entry = "packet::Packet::get_first_option_as"
    b = find_body(prog, entry)
    if b is None:
        rep.missing("C06.12", entry)
        return
    site = {"file": b["span"]["f"], "line": b["span"]["l"], "fn": entry}
    fam = [x for x in prog.bodies.values() if not x.get("promoted") and (x["id"] == b["id"] or x["path"].startswith(b["path"] + "::{closure"))]
    in_loop, bad_adapters, n_conv = [], [], 0
    for x in fam:
        info = _interp.BodyInfo(x)
        loop_blocks = set()
        for h, bs in info.loops.items():
            loop_blocks |= set(bs)
        for bi, bb in enumerate(x["blocks"]):
            t = bb["term"]
            if t["k"] != "call" or bb.get("cleanup"):
                continue
            pth = (t.get("resolved") or t.get("callee") or {}).get("path", "") or ""
            nm = pth.rsplit("::", 1)[-1]
            if nm in ("try_from", "try_into") and "convert" in pth:
                n_conv += 1
                if bi in loop_blocks:
                    in_loop.append(bb["tspan"]["l"])
            if ("core::iter::traits::iterator::Iterator::" in pth or pth.startswith("core::iter::adapters::")) \
                    and nm in ("find", "find_map", "filter", "filter_map", "skip_while", "skip", "position", "rev", "last", "nth", "max", "min", "flatten", "flat_map"):
                bad_adapters.append(nm)
    rep.ob("C06.12", "first-getter|front-element-only", n_conv >= 1 and not in_loop and not bad_adapters,
           "get_first_option_as does not decode exactly the first stored value: %s" % (
               "the conversion sits in a loop (line %s)" % in_loop if in_loop else "a searching adapter is used: %s" % sorted(set(bad_adapters)) if bad_adapters
               else "no conversion call found"), site, sample={"rule": "C06.12", "conversions": n_conv})


def check_elementwise(prog, rep):
    """C06.10: the typed list accessors convert 'element by element and in order'.  (a) The iterator pipeline of
    get_options_as / set_options_as (their closures included) uses only adapters that keep every element and the
    order (map, cloned, collect ...): map_while, take_while, filter, skip, take, rev, step_by ... drop or reorder.
    (b) The per-element step - the closure (or loop body) handed one stored value - converts exactly that value on
    every path and hands the conversion's result back unchanged."""
    for entry, conv_names, what in (("packet::Packet::get_options_as", ("try_from", "try_into"), "decode"),
                                    ("packet::Packet::set_options_as", ("into", "from"), "encode")):
        b = find_body(prog, entry)
        if b is None:
            rep.missing("C06.10", entry)
            continue
        site = {"file": b["span"]["f"], "line": b["span"]["l"], "fn": entry}
        fam = [x for x in prog.bodies.values() if not x.get("promoted") and (x["id"] == b["id"] or x["path"].startswith(b["path"] + "::{closure"))]
        bad_adapters, loops = [], 0
        for x in fam:
            for bb in x["blocks"]:
                t = bb["term"]
                if t["k"] != "call" or bb.get("cleanup"):
                    continue
                pth = (t.get("resolved") or t.get("callee") or {}).get("path", "") or ""
                nm = pth.rsplit("::", 1)[-1]
                if ("core::iter::traits::iterator::Iterator::" in pth or "core::iter::traits::double_ended::DoubleEndedIterator::" in pth
                        or pth.startswith("core::iter::adapters::")) and nm not in ELEMENTWISE_OK:
                    bad_adapters.append(nm)
        rep.ob("C06.10", entry + "|element-wise-pipeline", not bad_adapters,
               "%s passes the stored values through %s: an adapter that can drop, stop at or reorder elements, so the typed list is not the "
               "element-by-element %s of the stored one" % (entry, sorted(set(bad_adapters)), what), site)
        # (b) the per-element closures: one parameter besides the closure itself, and they call the conversion
        steps = []
        for x in fam:
            if x["id"] == b["id"] or x["arg_count"] != 2:
                continue
            calls = [(bb["term"].get("resolved") or bb["term"].get("callee") or {}).get("path", "") or "" for bb in x["blocks"]
                     if bb["term"]["k"] == "call" and not bb.get("cleanup")]
            if any(c.rsplit("::", 1)[-1] in conv_names and "convert" in c for c in calls):
                steps.append(x)
        if not steps:
            # the loop spelling: `for v in list { out.push_back(convert(v)) }` - every way round the loop converts and
            # appends (both calls dominate the back edges), and the loop is left only where the iterator ran out
            import interp as _interp
            found_loop, loop_ok = False, True
            for x in fam:
                info = _interp.BodyInfo(x)
                for h, blocks in info.loops.items():
                    conv_b = [bi for bi in blocks if x["blocks"][bi]["term"]["k"] == "call" and not x["blocks"][bi].get("cleanup")
                              and ((x["blocks"][bi]["term"].get("resolved") or x["blocks"][bi]["term"].get("callee") or {}).get("path", "") or "").rsplit("::", 1)[-1] in conv_names
                              and "convert" in ((x["blocks"][bi]["term"].get("resolved") or x["blocks"][bi]["term"].get("callee") or {}).get("path", "") or "")]
                    push_b = [bi for bi in blocks if x["blocks"][bi]["term"]["k"] == "call" and not x["blocks"][bi].get("cleanup")
                              and ((x["blocks"][bi]["term"].get("resolved") or x["blocks"][bi]["term"].get("callee") or {}).get("path", "") or "").endswith(("::push_back", "::push"))]
                    if not conv_b or not push_b:
                        continue
                    found_loop = True
                    backs = [bi for bi in blocks if h in info.succ[bi]]
                    for bk in backs:
                        if not any(info.dominates(c, bk) for c in conv_b) or not any(info.dominates(pb, bk) for pb in push_b):
                            loop_ok = False
                    # exits: only from the block that looks at the iterator's next() result (dominated by the head, before the conversion)
                    for bi in blocks:
                        for sx in info.succ[bi]:
                            if sx not in blocks and any(info.dominates(c, bi) for c in conv_b):
                                loop_ok = False     # left after an element was taken (break / early return in the body)
            rep.ob("C06.10", entry + "|per-element-step", found_loop and loop_ok,
                   "%s: %s" % (entry, "no per-element conversion step found (a closure or a loop calling %s and appending the result): cannot establish" % "/".join(conv_names)
                               if not found_loop else "the loop over the stored values does not convert and append on every way round, or is left before the values ran out"), site,
                   sample={"rule": "C06.10", "entry": entry, "form": "loop"})
            continue
        ok_steps, n_paths = True, 0
        for x in steps:
            I = new_interp(prog)
            I.no_join_bodies.add(x["id"])
            st = State()
            gargs = tuple(("adt", "option_value::OptionValueU16", (), "struct") if g == "T" else ("param", g) for g in x.get("generics", []))
            subst = prog.body_subst(x, gargs)
            args = [I.mat(st, prog.ty(x["locals"][i + 1]["ty"], subst), "a%d" % i) for i in range(x["arg_count"])]
            item = args[1]
            made = []

            def hook(I_, s_, call, cbody, made=made, item=item):
                if call.name in conv_names and "convert" in call.path and call.ctx.depth == 0:
                    a = call.args[0] if call.args else None
                    src_ok = a == item
                    if isinstance(item, RefV) and isinstance(a, VecV):
                        # a clone of the stored value
                        orig = I_.read(s_, item.place)
                        src_ok = isinstance(orig, VecV) and s_.entails_eq(a.len, orig.len) and (a.tag == orig.tag or (isinstance(a.tag, tuple) and a.tag and a.tag[0] in ("copy", "clone", "slice")))
                    s_.ghost["converted"] = s_.ghost.get("converted", 0) + 1
                    if not src_ok:
                        s_.ghost[("inj", "converted-other")] = True
            I.call_hooks.append(hook)
            I.max_depth = 1
            I, res = run(prog, x, args=args, st=st, I=I, gargs=gargs)
            for s_, rv in res:
                n_paths += 1
                if s_.ghost.get("converted") != 1 or s_.ghost.get(("inj", "converted-other")):
                    ok_steps = False
        rep.ob("C06.10", entry + "|per-element-step", bool(steps) and ok_steps and n_paths >= 1,
               "%s: %s" % (entry, "no per-element conversion step found (closure calling %s): cannot establish" % "/".join(conv_names) if not steps else
                           "the per-element step does not %s exactly the value it is handed, once, on every path (paths: %d)" % (what, n_paths)), site,
               sample={"rule": "C06.10", "entry": entry, "paths": n_paths})
