"""C06 - typed option values: width table, reject-longer guard, lossless
narrowing, panic-free conversions, encoder shape for 0 and < 256."""
from harness import *
from absdom import Aff

LEVEL = "other"
EXPLANATION = ("for every OptionValueU8/16/32/64 conversion pair: the byte width passed to the shared helpers equals "
               "the size of the wrapped integer type in both directions; decoding is analysed for an arbitrary byte "
               "vector (fold unrolled per admissible length) and must be panic-free, return Err exactly when the "
               "input is longer than the width, and make the narrowing cast lossless; encoding is analysed for an "
               "arbitrary value of the type (drain loop unrolled) and must be panic-free, give the empty vector for 0 "
               "and a one-byte vector for values below 256; string conversions must be String::into_bytes / from_utf8; "
               "typed accessors on Packet reach the raw accessors with their own option number")
NOT_DECIDED = "Not decided: that multi-byte output is big-endian without a leading zero (loop-carried data)."
ASSUMPTIONS = []

TYPES = [("option_value::OptionValueU8", 8), ("option_value::OptionValueU16", 16),
         ("option_value::OptionValueU32", 32), ("option_value::OptionValueU64", 64)]


def check(env, rep, tier):
    configs = ["default"] if tier == "quick" else ["default", "nodefault", "udp"]
    rep.configs = configs
    for cfg in configs:
        prog = env.prog(cfg)
        n_pairs = 0
        for tname, bits in TYPES:
            a = prog.adts.get(tname)
            if a is None:
                continue
            n_pairs += 1
            fty = prog.types[a["variants"][0]["fields"][0]["ty"]]
            rep.ob("C06.1", "%s|field" % tname, fty.get("k") == "int" and fty.get("bits") == bits,
                   "%s wraps %s, expected a %d-bit unsigned integer" % (tname, fty.get("s"), bits))
            width = bits // 8
            # ---- decode
            dec = find_impl_fn(prog, "core::convert::TryFrom", tname, "alloc::vec::Vec<u8>", "try_from")
            enc = find_impl_fn(prog, "core::convert::From", "alloc::vec::Vec<u8>", tname, "from")
            if dec is None or enc is None:
                rep.missing("C06.1", "conversion pair of " + tname)
                continue
            for body, direction in ((dec, "decode"), (enc, "encode")):
                I = new_interp(prog)
                I.no_join_bodies.add(body["id"])
                widths = []

                def hook(I_, s, call, cbody, widths=widths):
                    if cbody is not None and call.ctx.depth == 0 and len(call.args) == 2 and isinstance(call.args[1], IntV):
                        widths.append((call.path, call.args[1].aff))
                I.call_hooks.append(hook)
                st = State()
                arg = I.mat(st, prog.ty(body["locals"][1]["ty"]), "value")
                I, res = run(prog, body, args=[arg], st=st, I=I)
                report_obligations(rep, "C06.3" if direction == "decode" else "C06.4", I, include_cast=True)
                ok = len(widths) == 1 and widths[0][1] == Aff.const(width)
                rep.ob("C06.1", "%s|%s|width" % (tname, direction), ok,
                       "%s %s passes width %s to its helper, expected %d (size of the wrapped type)" % (tname, direction, widths, width),
                       {"file": body["span"]["f"], "line": body["span"]["l"], "fn": body["path"]},
                       sample={"rule": "C06.1", "type": tname, "direction": direction, "width": repr(widths)})
                if direction == "decode" and isinstance(arg, VecV):
                    for s, rv in res:
                        if not isinstance(rv, EnumV):
                            rep.ob("C06.2", "%s|shape" % tname, False, "cannot establish: result of %s not tracked" % body["path"])
                            continue
                        for vi in rv.variants:
                            if vi == 0:
                                okv = s.entails(Aff.const(width) - arg.len)
                                rep.ob("C06.2", "%s|ok=>fits" % tname, okv,
                                       "%s accepts a value on a path where its length is not shown <= %d bytes" % (body["path"], width),
                                       {"file": body["span"]["f"], "line": body["span"]["l"], "fn": body["path"]})
                            else:
                                okv = s.entails(arg.len - width - 1)
                                rep.ob("C06.2", "%s|err=>longer" % tname, okv,
                                       "%s rejects a value on a path where its length is not shown > %d bytes (over-strict)" % (body["path"], width),
                                       {"file": body["span"]["f"], "line": body["span"]["l"], "fn": body["path"]})
                if direction == "encode":
                    # shape classes: 0 -> empty, 1..255 -> one byte
                    for lo, hi, want in ((0, 0, 0), (1, 255, 1)):
                        I2 = new_interp(prog)
                        st2 = State()
                        v = I2.mat(st2, prog.ty(body["locals"][1]["ty"]), "value")
                        inner = v.fields[0] if isinstance(v, StructV) else None
                        if isinstance(inner, TopV):
                            inner = I2.mat(st2, inner.ty, "value.0")
                            v = StructV([inner])
                        if not isinstance(inner, IntV):
                            rep.missing("C06.4", "integer field of " + tname)
                            continue
                        st2.add_fact(inner.aff - lo)
                        st2.add_fact(Aff.const(hi) - inner.aff)
                        I2, res2 = run(prog, body, args=[v], st=st2, I=I2)
                        okv = bool(res2)
                        for s, rv in res2:
                            if not (isinstance(rv, VecV) and s.entails_eq(rv.len, Aff.const(want))):
                                okv = False
                        rep.ob("C06.4", "%s|class[%d,%d]" % (tname, lo, hi), okv,
                               "%s: a value in [%d, %d] is not shown to encode to exactly %d byte(s)" % (body["path"], lo, hi, want),
                               {"file": body["span"]["f"], "line": body["span"]["l"], "fn": body["path"]},
                               sample={"rule": "C06.4", "type": tname, "class": [lo, hi], "bytes": want, "ok": okv})
        rep.floor("C06.1", "uint option value types", n_pairs, 4)
        # ---- C06.5 strings
        for tr, self_s, arg_s, name, want in (
                ("core::convert::From", "alloc::vec::Vec<u8>", "option_value::OptionValueString", "from", "alloc::string::String::into_bytes"),
                ("core::convert::TryFrom", "option_value::OptionValueString", "alloc::vec::Vec<u8>", "try_from", "alloc::string::String::from_utf8")):
            b = find_impl_fn(prog, tr, self_s, arg_s, name)
            if b is None:
                rep.missing("C06.5", "%s for %s" % (tr, self_s))
                continue
            calls = set()
            for bb in b["blocks"]:
                t = bb["term"]
                if t["k"] == "call" and not bb["cleanup"]:
                    calls.add((t.get("resolved") or t.get("callee") or {}).get("path"))
            rep.ob("C06.5", "%s|%s" % (self_s, name), want in calls,
                   "%s no longer converts through %s (calls: %s)" % (b["path"], want, sorted(c for c in calls if c)),
                   {"file": b["span"]["f"], "line": b["span"]["l"], "fn": b["path"]})
        # ---- C06.6 typed accessors reach the raw accessors with their own option number
        for entry, raw in (("packet::Packet::add_option_as", "packet::Packet::add_option"),
                           ("packet::Packet::set_options_as", "packet::Packet::set_option"),
                           ("packet::Packet::get_options_as", "packet::Packet::get_option"),
                           ("packet::Packet::get_first_option_as", "packet::Packet::get_first_option")):
            b = find_body(prog, entry)
            if b is None:
                rep.missing("C06.6", entry)
                continue
            I = new_interp(prog)
            I.max_depth = 0
            seen = []
            st = State()
            gargs = (("adt", "option_value::OptionValueU16", (), "struct"),)
            subst = prog.body_subst(b, gargs)
            args = [I.mat(st, prog.ty(b["locals"][i + 1]["ty"], subst), "a%d" % i) for i in range(b["arg_count"])]

            def hook(I_, s, call, cbody, seen=seen, raw=raw):
                if call.path == raw:
                    seen.append(call.args[1] if len(call.args) > 1 else None)
            I.call_hooks.append(hook)
            I, res = run(prog, b, args=args, st=st, I=I, gargs=gargs)
            ok = len(seen) >= 1 and all(x == args[1] for x in seen)
            rep.ob("C06.6", entry, ok, "%s does not reach %s with its own option number" % (entry, raw),
                   {"file": b["span"]["f"], "line": b["span"]["l"], "fn": entry})
