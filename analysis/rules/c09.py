"""C09 - Block1 upload: structural necessary conditions."""
from harness import *
from absdom import Aff
import blockutil
from blockutil import Trace

LEVEL = "other"
EXPLANATION = ("intercept_request is analysed for an arbitrary request with a prepared response; per path the events are "
               "recorded (response code stores, Block1/Block2 option writes, stores to the request payload and to the "
               "per-key state, the extending_splice call, min / BlockValue::new calls).  Required: a path that sets 2.31 "
               "Continue returns Ok(true), adds Block1 and does not touch the request payload; a path that replaces the "
               "request payload assigns exactly the value taken out of the per-key buffer (leaving None) and adds "
               "Block1; a path that sets 4.13 returns Ok(true) with Block1; the splice range starts at num x size of "
               "the request's block, has length size and is fed from the request payload into the per-key buffer; the "
               "negotiated size is a min that includes the client's size; C09.5: the value handed over has length splice offset + "
               "request payload length (precise Vec::splice length model); from the public entry point every path that answers 2.31 Continue or hands the reassembled body over has spliced the block (C09.12)")
NOT_DECIDED = ("Not decided: byte-for-byte equality of the delivered body with the bytes sent (decided are: every block is "
               "spliced at num x size from the request payload, and the delivered body is cut at offset + length of the final "
               "block so nothing of an earlier abandoned upload stays behind it); duplicate delivery of a final block.")
ASSUMPTIONS = ["BlockValue.size_exponent <= 7 for block values in the handler state"]


def check(env, rep, tier):
    include(rep, env, tier, "c13", ("C13.1",), "C09.11",
            "'a Block1 option echoing its number': the acknowledged value reaches the wire with NUM, M and SZX at their RFC 7959 bit "
            "positions (a hand-rolled encoder that sizes NUM one bit short renumbers blocks 16..31)")
    include(rep, env, tier, "c10", ("C10.1",), "C09.10",
            "'for every budget that admits the client's block size ... answered 2.31': the size negotiation computes its bound without "
            "overflowing for any budget (a regrouped sum fails for budgets near usize::MAX) and fails cleanly below the overhead")
    include(rep, env, tier, "c08", ("C08.4",), "C09.8",
            "'its response carries the Block1 acknowledgement': the acknowledgement put on the reply when the final block arrives is still "
            "there when an over-size reply is fragmented - the handler removes no option, and rebuilding the reply from its cached copy "
            "copies every option")
    include(rep, env, tier, "c12", ("C12.2",), "C09.7",
            "'blocks of one upload are collected in one buffer': the per-transfer key is exactly (endpoint, method, path) - nothing that "
            "differs between the blocks of one upload (token, message id) is part of it")
    configs = ["default"] if tier == "quick" else ["default", "udp"]
    rep.configs = configs
    for cfg in configs:
        prog = env.prog(cfg)
        anchor = blockutil.upload_anchor(prog)
        if anchor is None:
            rep.missing("C09.1", "the handler function that splices upload blocks into the per-key buffer (or a caller of it holding the request)")
            continue
        body, req_arg, budget_i = anchor
        # it must be reached from intercept_request
        ir = find_body(prog, blockutil.HANDLER + "intercept_request")
        reach = ir is not None and any(x["id"] == body["id"] for x in reachable(prog, ir))
        rep.ob("C09.1", "reached", reach, "intercept_request no longer reaches the upload-block handler %s" % body["path"])
        es_b = find_body(prog, "block_handler::extending_splice")
        negs_ = blockutil.find_negotiate(prog)

        def setup_rej(tr_, I_, st_):
            # who turned a block down: the bounded splice, the size negotiation or the encoder (measuring) - marked where it happens
            def mk(tag):
                def hook_(I__, ctx, outs):
                    for s_, rv_ in outs:
                        if isinstance(rv_, EnumV) and list(rv_.variants) == [1]:
                            s_.ghost[("inj", "rejected-by:" + tag)] = True
                return hook_
            for b_, tag in ([(es_b, "splice")] if es_b is not None else []) + [(n_, "negotiation") for n_ in negs_]:
                I_.return_hooks[b_["id"]] = mk(tag)
                I_.no_join_bodies.add(b_["id"])
            base_tb = I_.extra_models.get("packet::Packet::to_bytes")

            def m_tb(I__, s_, call):
                r = base_tb(I__, s_, call) if base_tb else None
                for s2, v in r or ():
                    if isinstance(v, EnumV) and list(v.variants) == [1]:
                        s2.ghost[("inj", "rejected-by:encoder")] = True
                return r
            if base_tb is not None:
                I_.extra_models["packet::Packet::to_bytes"] = m_tb
        tr = Trace(prog, None, body=body, req_arg=req_arg, setup=setup_rej)
        site = {"file": tr.body["span"]["f"], "line": tr.body["span"]["l"], "fn": tr.body["path"]}
        I = tr.I
        rep.analysed.update(prog.bodies[b]["path"] for b in I.visited_bodies if b in prog.bodies)
        kinds = {"continue": 0, "final": 0, "too_large": 0, "pass": 0}
        ok = {"continue": True, "final": True, "too_large": True, "spliced": True, "pass": True}
        budget = tr.args[budget_i] if budget_i is not None else None
        cfg_place = blockutil.config_budget_place(prog, tr) if budget_i is None else None
        takes = [e for e in tr.events if e[0] == "buffer-take"]
        for s, rv in tr.res:
            marks = set(k[1] for k in s.ghost if isinstance(k, tuple) and k[0] == "inj")
            ret = tr.ret_kind(rv)
            if ("code:Continue" in marks or "req-payload-set" in marks) and "spliced" not in marks:
                ok["spliced"] = False
            if "false" in ret and not (marks & {"code:Continue", "req-payload-set", "code:RequestEntityTooLarge"}) and s.ghost.get("has_Block1") is False:
                # request without Block1 passed on to the application: the whole encoded message must fit the budget
                kinds["pass"] += 1
                enc = [x for x in s.bounds if I.syminfo.get(x, ("",))[0] == "len" and I.syminfo[x][1] == "encoded"]
                pl = I.read(s, tr.req_payload_place)
                fits = False
                if budget_i is None and cfg_place is not None:
                    budget = I.read(s, cfg_place)       # the handler's configured budget
                if enc and isinstance(budget, IntV) and isinstance(pl, VecV):
                    for e_ in enc:
                        if s.entails(budget.aff - Aff.sym(e_) - pl.len):
                            fits = True
                if not fits:
                    ok["pass"] = False
            if "code:Continue" in marks:
                kinds["continue"] += 1
                if ret != {"true"} or "add_option_as:Block1" not in marks and "add_option:Block1" not in marks or "req-payload-set" in marks:
                    ok["continue"] = False
            if "req-payload-set" in marks:
                kinds["final"] += 1
                good = "buffer-taken" in marks and ("add_option_as:Block1" in marks or "add_option:Block1" in marks) and "err" not in ret
                buf = I.read(s, Place(next((k for k in s.cells if isinstance(k, tuple) and k[0] == "h" and str(k[1]).startswith("entry")), ("h", "?")), (("f", tr.sf.get("buffer")),)))
                if not (isinstance(buf, EnumV) and list(buf.variants) == [0]):
                    good = False
                if not good:
                    ok["final"] = False
            if "code:RequestEntityTooLarge" in marks:
                kinds["too_large"] += 1
                if ret != {"true"} or not ("add_option_as:Block1" in marks or "add_option:Block1" in marks):
                    ok["too_large"] = False
        # ---- C09.12 from the public entry point: whatever answers a block with 2.31 Continue has put that block into the per-key
        #      buffer on the same path (no helper in front of / beside the upload handler acknowledges a block unspliced,
        #      e.g. as a presumed retransmission), and a final block's body is only handed over on a path that spliced it
        ir_b = find_body(prog, blockutil.HANDLER + "intercept_request")
        if ir_b is not None and ir_b["id"] != tr.body["id"]:
            tre = Trace(prog, "intercept_request")
            n_c = bad_c = 0
            for s_, rv_ in tre.res:
                m_ = set(k[1] for k in s_.ghost if isinstance(k, tuple) and k[0] == "inj")
                if "code:Continue" in m_ or "req-payload-set" in m_:
                    n_c += 1
                    if "spliced" not in m_:
                        bad_c += 1
            rep.ob("C09.12", "entry|acknowledged=>spliced", n_c > 0 and bad_c == 0,
                   "intercept_request acknowledges an upload block (2.31 Continue, or hands over the reassembled body) on %d of %d paths without "
                   "having spliced that block into the per-key buffer: the block is lost from the body" % (bad_c, n_c),
                   {"file": ir_b["span"]["f"], "line": ir_b["span"]["l"], "fn": ir_b["path"]}, sample={"rule": "C09.12", "paths": n_c})
        rep.ob("C09.1", "continue", ok["continue"] and kinds["continue"] > 0,
               "a non-final upload block is not always answered 2.31 Continue + Block1 with Ok(true) and the request payload left alone (paths: %d)" % kinds["continue"], site,
               sample={"rule": "C09.1", "continue_paths": kinds["continue"], "final_paths": kinds["final"], "too_large_paths": kinds["too_large"]})
        rep.ob("C09.1", "final", ok["final"] and kinds["final"] > 0,
               "the final upload block does not hand over exactly the per-key buffer (taken, leaving None) with a Block1 acknowledgement (paths: %d)" % kinds["final"], site)
        # the payload handed over is the buffer's content
        pays = [e for e in tr.events if e[0] == "req-payload"]
        good = bool(pays) and bool(takes)
        for e in pays:
            v = e[1]
            src = [t for t in takes if isinstance(t[1], EnumV) and 1 in t[1].variants and isinstance(t[1].variants[1], StructV)
                   and (t[1].variants[1].fields[0] == v or (isinstance(v, VecV) and isinstance(t[1].variants[1].fields[0], VecV)
                        and v.gen is not None and v.gen == t[1].variants[1].fields[0].gen))]
            if not src:
                good = False
        shr = [e for e in tr.events if e[0] == "buffer-shrink"]
        rep.ob("C09.1", "buffer-only-grows-until-final", not shr,
               "the handler itself cuts or empties the per-key upload buffer while it is still collecting blocks (%s): a block delivered "
               "twice, or out of the expected position, makes the blocks received before it disappear" % sorted(set(e[1] for e in shr)), site,
               sample={"rule": "C09.1", "shrinking_calls": len(shr)})
        # a request that carries a (decodable) Block1 option is never passed on / answered without a Block1 option on the reply
        n_b1, bad_b1 = 0, 0
        for s, rv in tr.res:
            if s.ghost.get("has_Block1") is not True or "err" in tr.ret_kind(rv) or s.ghost.get(("inj", "block-undecodable")):
                continue
            marks = set(k[1] for k in s.ghost if isinstance(k, tuple) and k[0] == "inj")
            n_b1 += 1
            if not (marks & {"add_option_as:Block1", "add_option:Block1", "set_options_as:Block1", "set_option:Block1"}):
                bad_b1 += 1
        rep.ob("C09.1", "block1-always-acknowledged", bad_b1 == 0 and n_b1 >= 2,
               "a request carrying a Block1 option can leave the handler without a Block1 option on its reply (%d of %d paths): e.g. an upload "
               "that fits one block is not acknowledged" % (bad_b1, n_b1), site, sample={"rule": "C09.1", "paths_with_block1": n_b1})
        # the handler turns an upload block down only where the bounded splice, the negotiation or the measuring encoder does:
        # no test of its own on offsets / lengths (an out-of-window block is the splice's business, a block after an expired
        # or abandoned upload continues from an empty buffer)
        n_err, own_rej = 0, 0
        for s, rv in tr.res:
            if tr.ret_kind(rv) != {"err"}:
                continue
            n_err += 1
            marks = set(k[1] for k in s.ghost if isinstance(k, tuple) and k[0] == "inj")
            if not any(m.startswith("rejected-by:") for m in marks):
                own_rej += 1
        rep.ob("C09.1", "rejections-only-delegated", own_rej == 0 and n_err >= 2,
               "the upload handler returns an error on %d of %d failing paths on which neither the bounded splice nor the size negotiation nor the "
               "encoder rejected anything: a block is turned down by a test of the handler's own (e.g. 'offset beyond what is buffered')" % (own_rej, n_err), site,
               sample={"rule": "C09.1", "error_paths": n_err})
        rep.ob("C09.1", "final-payload-is-buffer", good, "the payload delivered with the final block is not the value taken from the per-key buffer", site)
        rep.ob("C09.1", "splice-unconditional", ok["spliced"],
               "an upload block can be acknowledged (2.31) or completed without having been spliced into the per-key buffer", site)
        rep.ob("C09.3", "pass-through-fits", ok["pass"] and kinds["pass"] > 0,
               "a request without Block1 is passed on to the application on a path where its encoded size (measured, not estimated from the payload) is not shown to fit the budget (paths: %d)" % kinds["pass"], site,
               sample={"rule": "C09.3", "pass_through_paths": kinds["pass"]})
        rep.ob("C09.3", "too-large", ok["too_large"] and kinds["too_large"] > 0,
               "an over-size request without Block1 is not answered 4.13 + Block1 size hint with Ok(true) (paths: %d)" % kinds["too_large"], site)
        # ---- C09.2 splice
        spl = [e for e in tr.events if e[0] == "splice"]
        good = bool(spl)
        for _, args, s, sitec in spl:
            dst, rng, repl = args[0], args[1], args[2]
            if not (isinstance(dst, RefV) and isinstance(dst.place.key, tuple) and str(dst.place.key[1]).startswith("entry")
                    and dst.place.proj[:1] == (("f", tr.sf.get("buffer")),)):
                good = False
            if not (isinstance(rng, StructV) and len(rng.fields) == 2 and all(isinstance(f, IntV) for f in rng.fields)):
                good = False
                continue
            a, b = rng.fields
            sg = a.aff.single()
            inf = I.syminfo.get(sg[0]) if sg else None
            size = b.aff - a.aff
            # start = num x size (a product one of whose factors is a block size, >= 16); the range
            # length is that block size, or the length of the request payload (equivalent once C09.5
            # shows the delivered body is cut where the final block ends)
            if not (inf and inf[0] == "mul" and sg[1] == 1 and sg[2] == 0):
                good = False
            else:
                facs = [f for f in (inf[1], inf[2]) if isinstance(f, Aff) and f.single() and s.range(f)[0] >= 16]
                pl0 = tr.req_payload0
                if not facs:
                    good = False
                elif not (size in facs or (isinstance(pl0, VecV) and s.entails_eq(size, pl0.len))):
                    good = False
            src_ok = isinstance(repl, OpaqueV) and repl.get("src_place") == tr.req_payload_place
            if not src_ok:
                good = False
        rep.ob("C09.2", "splice", good,
               "the block is not spliced into the per-key buffer at offset num x size with length size from the request payload", site,
               sample={"rule": "C09.2", "splice_calls": len(spl)})
        # ---- C09.5 the body handed over ends where the final block ends (no stale tail of an earlier upload)
        okl = bool(pays) and bool(spl)
        for e in pays:
            v, s_ = e[1], e[2]
            rng = s_.ghost.get("splice_range")
            pl0 = tr.req_payload0
            if not (isinstance(v, VecV) and rng is not None and isinstance(pl0, VecV) and s_.entails_eq(v.len, rng + pl0.len)):
                okl = False
        rep.ob("C09.5", "final-length", okl,
               "the body delivered with the final block is not shown to end at offset + length of the final block: "
               "bytes of an earlier, longer (abandoned) upload to the same resource can remain behind it", site,
               sample={"rule": "C09.5", "final_paths": len(pays)})
        check_echo(prog, rep, body, req_arg, site)
        # ---- C09.4 negotiated size bounded by the client's
        news = [e for e in tr.events if e[0] == "bv-new" and e[4] is not None]
        good = bool(news)
        for _, args, s, sitec, minargs in news:
            size = args[2]
            if not (isinstance(size, IntV) and any(isinstance(m, IntV) and m.aff == size.aff for m in minargs)):
                good = False
            if not any(isinstance(m, IntV) and m.origin is not None and m.origin[0] == "shl" for m in minargs):
                good = False
        rep.ob("C09.4", "min-with-client", good,
               "the block size acknowledged to a client that sent a Block option is not min(client size, budget bound)", site,
               sample={"rule": "C09.4", "sites": len(news)})


def check_echo(prog, rep, body, req_arg, site):
    """C09.6: when the budget admits the client's block size (the property's domain), the Block1 value acknowledged is
    built from exactly the request's block number and the client's size: (num x size) / size = num by exact division,
    min(client, bound) = client.  The domain assumption bound >= client size is injected where the two meet (cmp::min)."""
    def setup(tr, I, st):
        def hook(I_, s, call, cbody):
            if tr.neg_id is not None and cbody is not None and cbody.get("id") == tr.neg_id:
                # room for a block = budget - ((message size + reserve) - payload size), from the negotiation's own arguments
                us = [a for a, t_ in zip(call.args, call.arg_tys) if t_ is not None and t_[0] == "int" and isinstance(a, IntV)]
                R_ = None
                for c_ in prog.consts.values():
                    if c_["path"].endswith("BLOCK_OPTIONS_MAX_LENGTH"):
                        R_ = int(c_["int"])
                if len(us) == 3 and R_ is not None:
                    # the first size is the measured size of the whole message, or of the message without its payload
                    # (C10.5 decides which, from the measurement it is built from)
                    bare = [x for x, co in us[0].aff.t if co == 1 and len(I_.syminfo.get(x) or ()) > 3
                            and I_.syminfo[x][:2] == ("len", "encoded") and I_.syminfo[x][3] == "bare"]
                    if bare and us[0].aff == Aff.sym(bare[0]):
                        s.ghost["room"] = us[2].aff - (us[0].aff + R_)
                    else:
                        s.ghost["room"] = us[2].aff - (us[0].aff + R_ - us[1].aff)
            if call.path in ("core::cmp::min", "core::cmp::Ord::min") and call.ctx.body["path"].startswith("block_handler::") and len(call.args) == 2:
                # the property's domain: "budgets that admit the client's block size" - the room the budget leaves for a
                # block (from the negotiation's own arguments) is assumed to be at least the client's size
                cl = [a for a in call.args if isinstance(a, IntV) and a.origin is not None and a.origin[0] == "shl"]
                room = s.ghost.get("room")
                if len(cl) == 1 and room is not None:
                    s.add_fact(room - cl[0].aff)
                    s.ghost[("inj", "domain-admits-client-size")] = True
        I.call_hooks.insert(0, hook)
    tr = Trace(prog, None, body=body, req_arg=req_arg, setup=setup)
    I = tr.I
    spl = [e for e in tr.events if e[0] == "splice"]
    facs = None
    for _, args, s, sitec in spl:
        rng = args[1]
        if isinstance(rng, StructV) and len(rng.fields) == 2 and isinstance(rng.fields[0], IntV):
            sg = rng.fields[0].aff.single()
            inf = I.syminfo.get(sg[0]) if sg else None
            if inf and inf[0] == "mul":
                facs = {repr(inf[1]), repr(inf[2])}
    def infeasible(s):
        return s.dead or any(s.entails(-f - 1) for f in s.facts)
    news = [e for e in tr.events if e[0] == "bv-new" and e[4] is not None and not infeasible(e[2]) and e[2].ghost.get(("inj", "domain-admits-client-size"))]
    ok = bool(news) and facs is not None
    for _, args, s, sitec, minargs in news:
        num, size = args[0], args[2]
        if not (isinstance(num, IntV) and isinstance(size, IntV) and {repr(num.aff), repr(size.aff)} == facs):
            ok = False
    rep.ob("C09.6", "echo-number-and-size", ok,
           "when the budget admits the client's block size the acknowledged Block1 value is not built from the request's own block number "
           "and size (a reduced size renumbers the block: the client's block is not echoed)", site,
           sample={"rule": "C09.6", "block_values_built": len(news)})
