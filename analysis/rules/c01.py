"""C01 - the encoded image is the RFC 7252 image: header bit-fields, raw
header layout, option framing table of the encoder, container order."""
from harness import *
from absdom import Aff
import os
import bitprov
import interp
from rules.c05 import REG

LEVEL = "other"
EXPLANATION = ("bit provenance of the six header accessors (each setter replaces exactly its RFC bit range and keeps "
               "every other bit; each getter returns exactly that range); raw header layout of serialize_into / "
               "HeaderRaw::try_from / to_raw / from_raw; per-path table of the option header bytes pushed by the "
               "encoder for each class of delta and length (inline <= 12, 13 + one byte value-13, 14 + two bytes "
               "value-269 high byte first) checked against registry/coap.json; marker written iff a payload is "
               "emitted; options kept in a BTreeMap of LinkedLists appended with push_back and iterated forwards; from_raw / to_raw hand the code on exactly as the code table converts it; option numbers on the wire are the registry's (C01.10 = C05.1)")
NOT_DECIDED = "Not decided: byte-for-byte equality of the image for all messages, and the round trip through the decoder as a whole."
ASSUMPTIONS = ["token of 0-8 bytes (stated domain)", "little-endian target for u16::from_be / to_be_bytes models"]

H = "header::Header::"
FR = REG["option_framing"]


def header_byte(I, st, ref, prog):
    pty = ("adt", "header::Header", (), "struct")
    I.ensure(st, ref.place, pty, "self")
    i0 = [i for i, f in enumerate(prog.adts["header::Header"]["variants"][0]["fields"]) if prog.types[f["ty"]]["s"] == "u8"][0]
    v = I.ensure(st, ref.place.extend(("f", i0)), ("int", 8, False), "hdr0")
    return i0, v


def check_bitfields(prog, rep):
    hb = REG["header"]
    fields = {"version": (hb["version_bits"][0], 2), "type": (hb["type_bits"][0], 2), "token_length": (hb["tkl_bits"][0], 4)}
    for fname, (lo, n) in fields.items():
        # ---- getter
        g = find_body(prog, H + "get_" + fname)
        s_ = find_body(prog, H + "set_" + fname)
        if g is None or s_ is None:
            rep.missing("C01.1", "Header::get_/set_%s" % fname)
            continue
        site = {"file": s_["span"]["f"], "line": s_["span"]["l"], "fn": s_["path"]}
        if fname != "type":
            I = new_interp(prog)
            st = State()
            a0 = I.mat(st, prog.ty(g["locals"][1]["ty"]), "self")
            i0, b0 = header_byte(I, st, a0, prog)
            src = bitprov.sym_of(b0)
            I, res = run(prog, g, args=[a0], st=st, I=I)
            report_obligations(rep, "C01.1", I)
            ok = bool(res)
            for s, rv in res:
                bits = bitprov.resolve_bits(I, s, rv, 8)
                want = {i: lo + i for i in range(n)}
                if not bits or bitprov.field_of(bits, src) != want or any(b != 0 for b in bits[n:]):
                    ok = False
            rep.ob("C01.1", "get_%s" % fname, ok, "Header::get_%s does not return exactly bits %d..%d of the first header byte" % (fname, lo, lo + n - 1),
                   {"file": g["span"]["f"], "line": g["span"]["l"], "fn": g["path"]}, sample={"rule": "C01.1", "getter": fname, "ok": ok})
            # ---- setter
            I = new_interp(prog)
            st = State()
            a0 = I.mat(st, prog.ty(s_["locals"][1]["ty"]), "self")
            i0, b0 = header_byte(I, st, a0, prog)
            src = bitprov.sym_of(b0)
            v = I.mat(st, prog.ty(s_["locals"][2]["ty"]), "value")
            vs = bitprov.sym_of(v)
            if fname == "token_length":
                st.add_fact(Aff.const(15) - v.aff)   # the setter asserts this; values above 15 are outside the domain
            I, res = run(prog, s_, args=[a0, v], st=st, I=I)
            ok = bool(res)
            for s, rv in res:
                nb = I.read(s, a0.place.extend(("f", i0)))
                bits = bitprov.resolve_bits(I, s, nb, 8) if isinstance(nb, IntV) else None
                want_old = {i: i for i in range(8) if not (lo <= i < lo + n)}
                want_new = {lo + i: i for i in range(n)}
                if not bits or bitprov.field_of(bits, src) != want_old or bitprov.field_of(bits, vs) != want_new:
                    ok = False
            rep.ob("C01.1", "set_%s" % fname, ok,
                   "Header::set_%s does not replace exactly bits %d..%d of the first header byte by the low bits of its argument while keeping all other bits" % (fname, lo, lo + n - 1),
                   site, sample={"rule": "C01.1", "setter": fname, "ok": ok})
        else:
            mt = REG["message_types"]
            names = [v["name"] for v in prog.adts["header::MessageType"]["variants"]]
            # getter per value of the type bits
            for nm, num in mt.items():
                I = new_interp(prog)
                st = State()
                a0 = I.mat(st, prog.ty(g["locals"][1]["ty"]), "self")
                i0, b0 = header_byte(I, st, a0, prog)
                o = I.fresh(st, "hdr0", 0, 255)
                bits = tuple(("b", o, i) if not (lo <= i < lo + n) else ((num >> (i - lo)) & 1) for i in range(8))
                I.write(st, a0.place.extend(("f", i0)), I.from_bits(st, bits, (8, False), "hdr"))
                I, res = run(prog, g, args=[a0], st=st, I=I)
                report_obligations(rep, "C01.1", I)
                got = set()
                for s, rv in res:
                    if isinstance(rv, EnumV):
                        got.update(names[k] for k in rv.variants)
                rep.ob("C01.1", "get_type|%d" % num, got == {nm}, "Header::get_type maps type bits %d to %s, the RFC says %s" % (num, sorted(got), nm),
                       {"file": g["span"]["f"], "line": g["span"]["l"], "fn": g["path"]}, sample={"rule": "C01.1", "type_bits": num, "variant": sorted(got)})
                # setter per variant
                I = new_interp(prog)
                st = State()
                a0 = I.mat(st, prog.ty(s_["locals"][1]["ty"]), "self")
                i0, b0 = header_byte(I, st, a0, prog)
                src = bitprov.sym_of(b0)
                arg = EnumV("header::MessageType", {names.index(nm): StructV([])})
                I, res = run(prog, s_, args=[a0, arg], st=st, I=I)
                ok = bool(res)
                for s, rv in res:
                    nb = I.read(s, a0.place.extend(("f", i0)))
                    bits = bitprov.resolve_bits(I, s, nb, 8) if isinstance(nb, IntV) else None
                    want_old = {i: i for i in range(8) if not (lo <= i < lo + n)}
                    if not bits or bitprov.field_of(bits, src) != want_old or tuple(bits[lo:lo + n]) != tuple((num >> i) & 1 for i in range(n)):
                        ok = False
                rep.ob("C01.1", "set_type|%s" % nm, ok,
                       "Header::set_type(%s) does not write %d into bits %d..%d while keeping all other bits" % (nm, num, lo, lo + n - 1), site)


def check_raw_layout(prog, rep):
    # serialize_into: push(ver_type_tkl), push(code), extend(to_be_bytes(message_id))
    b = find_body(prog, "header::HeaderRaw::serialize_into")
    if b is None:
        rep.missing("C01.2", "HeaderRaw::serialize_into")
    else:
        I = new_interp(prog)
        st = State()
        a0 = I.mat(st, prog.ty(b["locals"][1]["ty"]), "self")
        raw = I.ensure(st, a0.place, prog.ty(b["locals"][1]["ty"])[2], "self")
        fs = [I.ensure(st, a0.place.extend(("f", i)), t, "raw.%d" % i) for i, t in enumerate(I.field_types(prog.ty(b["locals"][1]["ty"])[2]))]
        names = [f["name"] for f in prog.adts["header::HeaderRaw"]["variants"][0]["fields"]]
        buf = I.mat(st, prog.ty(b["locals"][2]["ty"]), "buf")
        seq = []

        def hook(I_, s, call, cbody):
            if call.ctx.depth != 0:
                return
            if call.name == "push":
                seq.append(("push", call.args[1]))
            elif call.name in ("extend", "extend_from_slice"):
                src = call.args[1]
                v = I_.read(s, src.place) if isinstance(src, RefV) else src
                if isinstance(v, SliceV) and isinstance(v.base, tuple) and v.base[0] == "arr" and v.off.is_const() and v.off.c == 0:
                    av_ = I_.read(s, v.base[1])       # the whole of a local array: its elements, read while the frame is alive
                    if isinstance(av_, OpaqueV) and av_.get("array_len") is not None and v.len.is_const() and v.len.c == av_.get("array_len"):
                        v = av_
                seq.append(("extend", v))
        I.call_hooks.append(hook)
        I, res = run(prog, b, args=[a0, buf], st=st, I=I)
        report_obligations(rep, "C01.2", I)
        # the bytes emitted, one item per byte, whatever mixture of push / extend(array) / extend(to_be_bytes) wrote them
        mid_f = fs[names.index("message_id")]
        flat = []
        for k_, v in seq:
            if k_ == "push":
                flat.append(v)
                continue
            bo = v.get("bytes_of") if isinstance(v, OpaqueV) else None
            el = v.get("elems") if isinstance(v, OpaqueV) else None
            if bo is not None and bo[0] == "to_be_bytes" and bo[1] == mid_f:
                flat += [("be", 0), ("be", 1)]
            elif isinstance(el, StructV):
                flat += list(el.fields)
            else:
                flat.append(("?", repr(v)[:40]))

        def is_be(x, k):
            if x == ("be", k):
                return True
            sg_ = mid_f.aff.single() if isinstance(mid_f, IntV) else None
            return isinstance(x, IntV) and x.bits is not None and sg_ is not None and len(x.bits) == 8 \
                and all(b == ("b", sg_[0], (1 - k) * 8 + i) for i, b in enumerate(x.bits))
        ok = len(flat) == 4 and flat[0] == fs[names.index("ver_type_tkl")] and flat[1] == fs[names.index("code")] and is_be(flat[2], 0) and is_be(flat[3], 1)
        rep.ob("C01.2", "serialize_into", ok,
               "serialize_into does not emit ver_type_tkl, code, then the message id in network byte order (sequence: %s)" % [(k, repr(v)[:40]) for k, v in seq],
               {"file": b["span"]["f"], "line": b["span"]["l"], "fn": b["path"]})
    t = find_impl_fn(prog, "core::convert::TryFrom", "header::HeaderRaw", "&[u8]", "try_from")
    if t is None:
        rep.missing("C01.2", "HeaderRaw::try_from")
    else:
        I = new_interp(prog)
        I.no_join_bodies.add(t["id"])
        st = State()
        buf = I.mat(st, prog.ty(t["locals"][1]["ty"]), "buf")
        I, res = run(prog, t, args=[buf], st=st, I=I)
        report_obligations(rep, "C01.2", I)
        names = [f["name"] for f in prog.adts["header::HeaderRaw"]["variants"][0]["fields"]]
        ok = False
        for s, rv in res:
            if isinstance(rv, EnumV) and list(rv.variants) == [0]:
                raw = rv.variants[0].fields[0]
                ok = isinstance(raw, StructV)
                for nm, off in (("ver_type_tkl", 0), ("code", 1)):
                    v = raw.fields[names.index(nm)]
                    sym = bitprov.sym_of(v)
                    inf = I.syminfo.get(sym) if sym else None
                    if not (inf and inf[0] == "elem" and inf[1] == buf.base and inf[2] == Aff.const(off)):
                        ok = False
                m = raw.fields[names.index("message_id")]
                org = m.origin if isinstance(m, IntV) else None
                # affine spelling: 256 * buf[2] + buf[3] (from_be_bytes of two bytes picked out of the slice)
                aff_ok = False
                if isinstance(m, IntV) and m.aff.c == 0 and len(m.aff.t) == 2:
                    byco = {co: sy for sy, co in m.aff.t}
                    if set(byco) == {256, 1}:
                        ih, il = I.syminfo.get(byco[256]), I.syminfo.get(byco[1])
                        aff_ok = bool(ih and il and ih[0] == "elem" and il[0] == "elem" and ih[1] == buf.base and il[1] == buf.base
                                      and ih[2] == Aff.const(2) and il[2] == Aff.const(3))
                if aff_ok:
                    pass
                elif not (org and org[0] == "from_be_bytes"):
                    ok = False
                else:
                    arr = org[1]
                    if isinstance(arr, RefV):
                        arr = I.read(s, arr.place)
                    co = arr.get("copy_of") if isinstance(arr, OpaqueV) else None
                    if not (co and co[0] == buf.base and co[1] == Aff.const(2) and arr.get("array_len") == 2):
                        ok = False
        rep.ob("C01.2", "try_from", ok, "HeaderRaw::try_from does not read byte 0, byte 1 and the big-endian message id from bytes 2..4",
               {"file": t["span"]["f"], "line": t["span"]["l"], "fn": t["path"]})
    # to_raw / from_raw copy the three fields, the code through the C05 tables
    for nm, conv in (("to_raw", ("core::convert::From", "u8", "header::MessageClass")), ("from_raw", ("core::convert::From", "header::MessageClass", "u8"))):
        b = find_body(prog, H + nm)
        if b is None:
            rep.missing("C01.2", "Header::" + nm)
            continue
        cb = find_impl_fn(prog, conv[0], conv[1], conv[2], "from")
        I = new_interp(prog)
        st = State()
        a0 = I.mat(st, prog.ty(b["locals"][1]["ty"]), "self")
        pty = prog.ty(b["locals"][1]["ty"])[2]
        I.ensure(st, a0.place, pty, "self")
        fs = [I.ensure(st, a0.place.extend(("f", i)), t2, "f%d" % i) for i, t2 in enumerate(I.field_types(pty))]
        src_names = [f["name"] for f in prog.adts[pty[1]]["variants"][0]["fields"]]
        called = []

        def hook(I_, s, call, cbody):
            if cbody is not None and cb is not None and cbody["id"] == cb["id"]:
                called.append(call.args[0])
        I.call_hooks.append(hook)
        I.K_ret = 1
        # the converted code is what lands in the result - nothing is done to it afterwards (no re-classification of
        # "unassigned" codes, no masking): the conversion is replaced by one outcome per variant / a fresh number, and
        # the code field of the result must be that very outcome
        conv_out = []

        def conv_model(I_, s_, call):
            dt = call.dest_ty
            at = call.arg_tys[0] if call.arg_tys else None
            is_mc = lambda t_: t_ is not None and t_[0] == "adt" and t_[1] == "header::MessageClass"
            is_u8 = lambda t_: t_ is not None and t_[0] == "int" and t_[1] == 8
            if not (is_mc(dt) and is_u8(at) or is_u8(dt) and is_mc(at)):
                return None
            if is_mc(dt):
                outs = []
                full = I_.mat(s_, dt, "conv")
                if not isinstance(full, EnumV):
                    return None
                for vi in sorted(full.variants):
                    s2 = s_.copy()
                    v = EnumV(full.path, {vi: full.variants[vi]}, full.ty)
                    s2.ghost[("inj", "conv:%d" % vi)] = True
                    conv_out.append(v)
                    outs.append((s2, v))
                return outs
            v = I_.fresh_int(s_, "conv", (8, False), 0, 255)
            conv_out.append(v)
            return [(s_, v)]
        if cb is not None:
            I.extra_models[cb["path"]] = conv_model
            I.extra_models["<T as core::convert::Into<U>>::into"] = conv_model
            I.no_join_bodies.add(b["id"])
        I, res = run(prog, b, args=[a0], st=st, I=I)
        ok = bool(res) and len(called) >= 1 and all(c == fs[src_names.index("code")] for c in called)

        def refines(a, ref):
            if isinstance(a, EnumV) and isinstance(ref, EnumV):
                return set(a.variants) <= set(ref.variants) and all(refines(a.variants[k], ref.variants[k]) for k in a.variants)
            if isinstance(a, StructV) and isinstance(ref, StructV):
                return len(a.fields) == len(ref.fields) and all(refines(x, y) for x, y in zip(a.fields, ref.fields))
            if isinstance(a, IntV) and isinstance(ref, IntV):
                return a.aff == ref.aff
            return a == ref
        for s, rv in res:
            dn = [f["name"] for f in prog.adts["header::HeaderRaw" if nm == "to_raw" else "header::Header"]["variants"][0]["fields"]]
            if not isinstance(rv, StructV):
                ok = False
                continue
            cv = rv.fields[dn.index("code")]
            if nm == "from_raw":
                marks = [k[1] for k in s.ghost if isinstance(k, tuple) and k[0] == "inj" and str(k[1]).startswith("conv:")]
                want = [c for c in conv_out if isinstance(c, EnumV) and ["conv:%d" % k for k in c.variants] == marks]
                if len(marks) != 1 or not want or not (isinstance(cv, EnumV) and any(refines(cv, w) for w in want)):
                    ok = False
            else:
                if not (isinstance(cv, IntV) and any(isinstance(w, IntV) and cv.aff == w.aff for w in conv_out)):
                    ok = False
            for fld in ("ver_type_tkl", "message_id"):
                if rv.fields[dn.index(fld)] != fs[src_names.index(fld)]:
                    ok = False
        rep.ob("C01.2", nm, ok, "Header::%s does not copy ver_type_tkl and message_id and hand on the code exactly as the code table converts it" % nm,
               {"file": b["span"]["f"], "line": b["span"]["l"], "fn": b["path"]})


def check(env, rep, tier):
    include(rep, env, tier, "c05", ("C05.1",), "C01.10", "'option values under their numbers': the number an option goes on the wire under (and comes back under) is the one "
            "the CoapOption <-> u16 tables assign, and those are the registry's, one-to-one")
    include(rep, env, tier, "c02", ("C02.2", "C02.4"), "C01.8", "'parsing those bytes returns the same message': the decoder forms option numbers and values from the prescribed bytes")
    include(rep, env, tier, "c03", ("C03.5",), "C01.9", "'and decode back': the decoder rejects nothing the encoder can emit (every rejecting branch is justified)")
    configs = ["default"] if tier == "quick" else ["default", "nodefault", "udp"]
    rep.configs = configs
    for cfg in configs:
        prog = env.prog(cfg)
        check_bitfields(prog, rep)
        check_raw_layout(prog, rep)
        # ---- C01.3 set_token
        b = find_body(prog, "packet::Packet::set_token")
        if b is None:
            rep.missing("C01.3", "Packet::set_token")
        else:
            I = new_interp(prog)
            st = State()
            a0 = I.mat(st, prog.ty(b["locals"][1]["ty"]), "self")
            tok = I.mat(st, prog.ty(b["locals"][2]["ty"]), "token")
            st.add_fact(Aff.const(REG["header"]["max_token_length"]) - tok.len)
            seen = []

            def hook(I_, s, call, cbody):
                if call.path == H + "set_token_length" and call.ctx.depth == 0:
                    seen.append(call.args[1])
            I.call_hooks.append(hook)
            I, res = run(prog, b, args=[a0, tok], st=st, I=I)
            report_obligations(rep, "C01.3", I, include_cast=True)
            ti = [i for i, f in enumerate(prog.adts["packet::Packet"]["variants"][0]["fields"]) if f["name"] == "token"][0]
            ok = len(seen) == 1 and isinstance(seen[0], IntV) and seen[0].aff == tok.len
            for s, rv in res:
                if I.read(s, a0.place.extend(("f", ti))) != tok:
                    ok = False
            rep.ob("C01.3", "set_token", ok, "set_token does not store the token and set the token length bits to its length",
                   {"file": b["span"]["f"], "line": b["span"]["l"], "fn": b["path"]})
        check_encoder_table(prog, rep)
        check_order(prog, rep)


def check_encoder_table(prog, rep):
    """C01.4 (encoder side) + C01.6 marker"""
    body = find_body(prog, "packet::Packet::to_bytes_internal")
    if body is None:
        rep.missing("C01.4", "to_bytes_internal")
        return
    site = {"file": body["span"]["f"], "line": body["span"]["l"], "fn": body["path"]}
    I = new_interp(prog)
    st = State()
    a0 = I.mat(st, prog.ty(body["locals"][1]["ty"]), "self")
    lim = EnumV("core::option::Option", {0: StructV([])}, prog.ty(body["locals"][2]["ty"]))
    rows = []
    markers = []
    P_ = {f["name"]: i for i, f in enumerate(prog.adts["packet::Packet"]["variants"][0]["fields"])}
    H_ = {f["name"]: i for i, f in enumerate(prog.adts["header::Header"]["variants"][0]["fields"])}
    payload_place = a0.place.extend(("f", P_["payload"]))
    I.no_join_bodies.add(body["id"])
    I.K_ret = 16

    def hook(I_, s, call, cbody):
        inner = call.ctx.body["path"] != body["path"]
        if inner and not call.ctx.body["path"].startswith("packet::"):
            return
        p = call.path
        if inner and p not in ("core::ptr::copy", "core::ptr::copy_nonoverlapping", "alloc::vec::Vec::<T, A>::extend_from_slice",
                               "<alloc::vec::Vec<T, A> as core::iter::traits::collect::Extend<&'a T>>::extend"):
            return      # in a private helper of the encoder only the copies count (e.g. a centralised `append_raw`)
        if p == "alloc::vec::Vec::<T>::with_capacity":
            s.ghost["pushes"] = ()
        elif p.startswith("<&u16 as core::ops::arith::Sub") and len(call.args) == 2:
            pass
        elif p == "alloc::vec::Vec::<T, A>::push":
            v = call.args[1]
            vecp, vv = None, None
            if isinstance(call.args[0], RefV):
                vv = I_.read(s, call.args[0].place)
            if isinstance(v, IntV) and v.aff.is_const() and v.aff.c == REG["header"]["payload_marker"] and isinstance(vv, VecV) and not s.ghost.get("pushes"):
                markers.append((s.copy(), call.site))
                s.ghost[("inj", "marker")] = True
                return
            if "pushes" in s.ghost:
                s.ghost["pushes"] = tuple(s.ghost["pushes"]) + (v,)
        elif p in ("core::ptr::copy", "core::ptr::copy_nonoverlapping"):
            src = call.args[0]
            if isinstance(src, PtrV) and isinstance(src.place, Place) and src.place == payload_place:
                s.ghost[("inj", "payload-copied")] = True
        elif p in ("alloc::vec::Vec::<T, A>::extend_from_slice",
                   "<alloc::vec::Vec<T, A> as core::iter::traits::collect::Extend<&'a T>>::extend") and len(call.args) == 2:
            # the safe spelling of the same copies
            import summaries2
            sl = summaries2.as_slice(I_, s, call.args[1], call.arg_tys[1])
            if sl is not None and isinstance(sl.base, tuple) and sl.base[0] == "vec" and sl.base[1] == payload_place \
                    and s.entails_eq(sl.off, Aff.const(0)):
                pv = I_.read(s, payload_place)
                if isinstance(pv, VecV) and s.entails_eq(sl.len, pv.len):
                    s.ghost[("inj", "payload-copied")] = True
            elif "pushes" in s.ghost and sl is not None and isinstance(sl.base, tuple) and sl.base[0] == "arr" and isinstance(sl.base[1], Place):
                arr = I_.read(s, sl.base[1])
                bo = arr.get("bytes_of") if isinstance(arr, OpaqueV) else None
                if bo and bo[0] == "to_be_bytes" and isinstance(bo[1], IntV) and bo[1].ty is not None and sl.len.is_const():
                    w = bo[1].ty[0]
                    n = sl.len.c
                    bits = I_.bits_of(s, bo[1], w)
                    for k in range(n):
                        bb_ = tuple(bits[8 * (n - 1 - k): 8 * (n - k)])
                        s.ghost["pushes"] = tuple(s.ghost["pushes"]) + (I_.from_bits(s, bb_, (8, False), "be"),)
                else:
                    s.ghost["pushes"] = tuple(s.ghost["pushes"]) + (None,) * (sl.len.c if sl.len.is_const() else 1)
        elif p == "alloc::vec::Vec::<T, A>::reserve" and s.ghost.get("pushes"):
            pushes = s.ghost["pushes"]
            n = call.args[1]
            rows.append((s.copy(), pushes, n.aff - len(pushes) if isinstance(n, IntV) else None, call.site))
            s.ghost["pushes"] = ()
    I.call_hooks.append(hook)
    deltas = []

    def sub_hook(I_, ctx, s, v):
        pass
    # the delta is the result of the subtraction `number - running sum`
    import summaries
    orig = summaries.MODELS.get("<&u16 as core::ops::arith::Sub<u16>>::sub")

    def sub_model(I_, s, call):
        r = orig(I_, s, call)
        if r and call.ctx.body["path"] == body["path"]:
            for s2, v in r:
                s2.ghost["delta"] = v.aff
                s2.cells[("gh", "delta")] = v   # keeps the symbols alive over the loop's joins
        return r
    I.extra_models["<&u16 as core::ops::arith::Sub<u16>>::sub"] = sub_model

    def delta_value(I_, ctx, s, v):
        # the plain-operator spelling: number - previous (both u16); recognised by the map key it is computed from
        if ctx.body["path"] == body["path"] and isinstance(v, IntV) and v.ty == (16, False) and len(v.aff.t) >= 1:
            keys = [sy for sy, co in v.aff.t if co == 1 and (I_.syminfo.get(sy) or ("",))[0] == "btree_key"]
            if len(keys) == 1 and (len(v.aff.t) == 2 or (len(v.aff.t) == 1 and v.aff.c <= 0)):
                two = len(v.aff.t) == 2 and any(co == -1 for sy, co in v.aff.t if sy != keys[0])
                cur = s.ghost.get("delta")
                # `number` itself is a candidate only until a difference `number - previous` is seen
                if v.aff.c == 0 and (cur is None and (len(v.aff.t) == 1 or two) or (two and cur is not None and len(cur.t) == 1 and cur.t[0][0] == keys[0])):
                    s.ghost["delta"] = v.aff
                    s.cells[("gh", "delta")] = v
    I.value_hooks.append(delta_value)
    # every value the option walk yields is emitted: on each way round the innermost loop of the encoder some
    # byte buffer that lives across iterations grows by a header (1..5 bytes) plus the value's length
    emit = {"backs": 0, "bad": 0, "loops": 0}

    def emit_hook(I_, ctx, h, head, backs, exits):
        if ctx.body["id"] != body["id"] or ctx.depth != 0:
            return
        if any(h2 != h and h2 in ctx.info.loops[h] for h2 in ctx.info.loops):
            return          # not the innermost loop
        emit["loops"] += 1
        for b_ in backs:
            emit["backs"] += 1
            grew = False
            for key, hv in head.cells.items():
                if not (isinstance(key, tuple) and key and key[0] == ctx.fid and isinstance(hv, VecV)):
                    continue
                bv = b_.cells.get(key)
                if not isinstance(bv, VecV):
                    continue
                d = bv.len - hv.len
                # header bytes + value length: a constant 1..5 plus exactly one length symbol
                if d.is_const():
                    continue
                lo, hi = b_.range(d)
                if lo >= 1 and 1 <= d.c <= 5 and len(d.t) == 1 and d.t[0][1] == 1:
                    grew = True
                elif lo >= 1 and b_.entails(d - 1):
                    grew = True
                # the same iteration seen from its end: header bytes pushed so far and the value length
                ps_ = b_.ghost.get("pushes")
                if ps_ and len(d.t) == 1 and d.t[0][1] == 1 and d.c == len(ps_):
                    rows_back.append((b_.copy(), tuple(ps_), Aff.sym(d.t[0][0]), site))
            if not grew:
                emit["bad"] += 1
    rows_back = []
    I.loop_hooks.append(emit_hook)
    I, res = run(prog, body, args=[a0, lim], st=st, I=I)
    rep.ob("C01.4", "encoder|every-value-emitted", emit["bad"] == 0 and emit["backs"] >= 3,
           "the encoder can go round its option loop on %d of %d paths without its output growing by an option header plus the value: "
           "that option (e.g. one with an empty value) is missing from the wire image and the following deltas are off" % (emit["bad"], emit["backs"]), site,
           sample={"rule": "C01.4", "iteration_paths": emit["backs"]})
    ok_rows = 0
    classes = set()
    if not rows:
        rows = rows_back        # no `reserve(header + value)` idiom: the iterations as seen at the loop's back edges
    for s, pushes, ln, csite in rows:
        delta = s.ghost.get("delta")
        if delta is None or ln is None or not pushes:
            rep.ob("C01.4", "encoder|anchor", False, "cannot establish: delta / length of an option header not recognised in the encoder", site)
            continue

        def cls(e):
            lo, hi = s.range(e)
            if hi <= FR["inline_max"] or s.entails(Aff.const(FR["inline_max"]) - e):
                return "inline"
            if (lo >= FR["ext8_bias"] or s.entails(e - FR["ext8_bias"])) and (hi < FR["ext16_bias"] or s.entails(Aff.const(FR["ext16_bias"] - 1) - e)):
                return "ext8"
            if lo >= FR["ext16_bias"] or s.entails(e - FR["ext16_bias"]):
                return "ext16"
            return None
        cd, cl = cls(delta), cls(ln)
        if os.environ.get("VERIF_DEBUG_C01"):
            print("ROW delta", delta, s.range(delta), "ln", ln, s.range(ln), cd, cl, [f for f in s.facts][:12])
        if cd is None or cl is None:
            rep.ob("C01.4", "encoder|class", False,
                   "an option header is emitted on a path where delta (%s) or length (%s) straddles the 13 / 269 thresholds: the nibble and the extension bytes are not chosen by the same test" % (s.range(delta), s.range(ln)), site)
            continue
        classes.add((cd, cl))
        first = pushes[0]
        bits = bitprov.resolve_bits(I, s, first, 8) if isinstance(first, IntV) else None
        good = bits is not None

        def nib_ok(bits4, cls_, e):
            if cls_ == "inline":
                sg = e.single()
                # the nibble must be the value itself: its four bits are the low bits of the value's symbol
                if e.is_const():
                    return tuple(bits4) == tuple((e.c >> i) & 1 for i in range(4))
                if sg and sg[1] == 1 and sg[2] == 0:
                    return all(b == ("b", sg[0], i) or (b == 0 and s.lo_hi(sg[0])[1] < (1 << i)) for i, b in enumerate(bits4))
                return False
            want = FR["ext8"] if cls_ == "ext8" else FR["ext16"]
            return tuple(bits4) == tuple((want >> i) & 1 for i in range(4))
        if good:
            # delta in the high nibble, length in the low nibble; the inline delta went through a u16 -> u8 cast
            dbits = [bitprov._chase(I, s, b, 0) for b in bits[4:8]]
            lbits = list(bits[0:4])
            good = nib_ok(lbits, cl, ln) and nib_ok_delta(I, s, dbits, cd, delta)
        ext = list(pushes[1:])
        need = {"inline": 0, "ext8": 1, "ext16": 2}
        if len(ext) != need[cd] + need[cl]:
            good = False
        else:
            pos = 0
            for c, e in ((cd, delta), (cl, ln)):
                if c == "ext8":
                    v = ext[pos]
                    if not (isinstance(v, IntV) and s.entails_eq(v.aff, e - FR["ext8_bias"])):
                        good = False
                    pos += 1
                elif c == "ext16":
                    hi_b, lo_b = ext[pos], ext[pos + 1]
                    if not ext16_ok(I, s, hi_b, lo_b, e - FR["ext16_bias"]):
                        good = False
                    pos += 2
        if good:
            ok_rows += 1
        rep.ob("C01.4", "encoder|%s-delta|%s-length" % (cd, cl), good,
               "encoder: for a %s delta and a %s length the option header bytes are not the RFC 7252 section 3.1 ones (nibble or extension bytes wrong)" % (cd, cl),
               {"file": csite["file"], "line": csite["line"], "fn": csite["fn"]},
               sample={"rule": "C01.4", "delta_class": cd, "length_class": cl, "header_bytes": 1 + len(ext), "ok": good})
    want_classes = {(a, b) for a in ("inline", "ext8", "ext16") for b in ("inline", "ext8", "ext16")}
    rep.ob("C01.4", "encoder|all-classes", classes == want_classes,
           "the encoder does not distinguish all nine delta x length classes (found %d)" % len(classes), site)
    # ---- C01.6 marker iff payload emitted
    okm = bool(markers)
    for s, ms in markers:
        pl = I.read(s, a0.place.extend(("f", [i for i, f in enumerate(prog.adts["packet::Packet"]["variants"][0]["fields"]) if f["name"] == "payload"][0])))
        if not (isinstance(pl, VecV) and s.entails(pl.len - 1)):
            okm = False
    rep.ob("C01.6", "marker=>payload", okm, "the payload marker 0xFF can be written for an empty payload (or is never written)", site)
    # the converse: a non-empty payload of a non-Empty message is always emitted behind a marker
    mcv = [v["name"] for v in prog.adts["header::MessageClass"]["variants"]]
    okc, n_pay = True, 0
    for s, rv in res:
        if not (isinstance(rv, EnumV) and list(rv.variants) == [0]):
            continue
        pl = I.read(s, payload_place)
        code = I.read(s, a0.place.extend(("f", P_["header"]), ("f", H_["code"])))
        not_empty_code = isinstance(code, EnumV) and mcv.index("Empty") not in code.variants
        empty_code = isinstance(code, EnumV) and list(code.variants) == [mcv.index("Empty")]
        emitted = bool(s.ghost.get(("inj", "marker")) and s.ghost.get(("inj", "payload-copied")))
        if not_empty_code:
            n_pay += 1
            # without a marker the payload must be known to be empty on this path
            if not emitted and not (isinstance(pl, VecV) and s.entails_eq(pl.len, Aff.const(0))):
                okc = False
        elif empty_code:
            if s.ghost.get(("inj", "marker")):
                okc = False
        elif not emitted:
            # code not distinguished on this path: then the payload must be empty
            if not (isinstance(pl, VecV) and s.entails_eq(pl.len, Aff.const(0))):
                okc = False
    rep.ob("C01.6", "payload=>emitted", okc and n_pay > 0,
           "a message with a non-Empty code and a non-empty payload can be serialised without its payload marker and payload (paths checked: %d)" % n_pay, site,
           sample={"rule": "C01.6", "paths_with_payload": n_pay, "ok": okc})


def nib_ok_delta(I, s, dbits, cls_, e):
    if cls_ != "inline":
        want = FR["ext8"] if cls_ == "ext8" else FR["ext16"]
        return tuple(dbits) == tuple((want >> i) & 1 for i in range(4))
    # (delta << 4) as u8: the four bits must be the low four bits of delta, which is <= 12
    if e.is_const():
        return tuple(dbits) == tuple((e.c >> i) & 1 for i in range(4))
    syms = set(b[1] for b in dbits if isinstance(b, tuple))
    if len(syms) != 1:
        return False
    sym = next(iter(syms))
    if not all(b == ("b", sym, i) for i, b in enumerate(dbits) if isinstance(b, tuple)):
        return False
    return s.entails_eq(Aff.sym(sym), e) or sym in [x for x, _ in e.t]


def ext16_ok(I, s, hi_b, lo_b, e):
    """hi_b = (e >> 8) as u8, lo_b = (e & 0xFF) as u8"""
    if not (isinstance(hi_b, IntV) and isinstance(lo_b, IntV)):
        return False
    bh = bitprov.resolve_bits(I, s, hi_b, 8)
    bl = bitprov.resolve_bits(I, s, lo_b, 8)
    if not bh or not bl:
        return False
    syms = set(b[1] for b in list(bh) + list(bl) if isinstance(b, tuple))
    if len(syms) != 1:
        return False
    sym = next(iter(syms))
    if not s.entails_eq(Aff.sym(sym), e):
        return False
    return all(b == ("b", sym, i) for i, b in enumerate(bl)) and all(b == ("b", sym, 8 + i) or b == 0 for i, b in enumerate(bh)) \
        and any(isinstance(b, tuple) for b in bh)


def check_order(prog, rep):
    """C01.7 containers and iteration order"""
    a = prog.adts.get("packet::Packet")
    opt = [f for f in a["variants"][0]["fields"] if f["name"] == "options"] if a else []
    ts = prog.types[opt[0]["ty"]]["s"] if opt else None
    rep.ob("C01.7", "container", ts == "alloc::collections::btree::map::BTreeMap<u16, alloc::collections::linked_list::LinkedList<alloc::vec::Vec<u8>>>",
           "Packet.options is %s, not a BTreeMap<u16, LinkedList<Vec<u8>>> (ascending numbers, insertion order per number)" % ts)
    bad = []
    fwd = 0
    for b in prog.bodies.values():
        if b.get("promoted") or not b["path"].startswith(("packet::Packet::", "<packet::Packet as", "impl_coap_message")):
            continue
        for bb in b["blocks"]:
            t = bb["term"]
            if t["k"] != "call" or bb["cleanup"]:
                continue
            p = (t.get("resolved") or t.get("callee") or {}).get("path", "")
            if p in ("alloc::collections::linked_list::LinkedList::<T, A>::push_front",) or (p.endswith("Iterator::rev") and "linked_list" in str(t)) \
                    or p.startswith("alloc::collections::btree::map::BTreeMap::<K, V, A>::into_values") or "::sort" in p:
                bad.append((b["path"], p, bb["tspan"]["l"]))
            if p == "alloc::collections::linked_list::LinkedList::<T, A>::push_back":
                fwd += 1
    rep.ob("C01.7", "append-order", not bad and fwd >= 2,
           "option values are not kept in insertion order (push_front / reversing / sorting call found: %s; push_back sites: %d)" % (bad, fwd))
    dec = find_body(prog, "packet::Packet::from_bytes")
    if dec is not None:
        # (the option walk may sit in a private helper / iterator type of the decoder)
        calls = [(bb["term"].get("resolved") or bb["term"].get("callee") or {}).get("path") for x in reachable(prog, dec)
                 for bb in x["blocks"] if bb["term"]["k"] == "call" and not bb["cleanup"]]
        rep.ob("C01.7", "decoder-appends", "alloc::collections::linked_list::LinkedList::<T, A>::push_back" in calls
               and "alloc::collections::linked_list::LinkedList::<T, A>::push_front" not in calls,
               "the decoder does not append repeated option values in wire order")
