"""C19 - convenience accessors agree with the raw message state."""
import json
import os
from harness import *
from absdom import Aff
import tab
from rules.c05 import REG, leaf

LEVEL = "other"
EXPLANATION = ("get_method / get_status are evaluated abstractly once per code class (every named method and status "
               "from the enum declaration, plus Empty / Reserved / the other class) and must be the identity on named "
               "values and UnKnown otherwise; setters must store Request(m) / Response(s); every single-valued "
               "option setter must clear (or replace) the option before adding, on all paths (typestate over the "
               "sequence of Packet option calls); the 0.2 and 0.3 coap-message impls must have identical effect "
               "summaries method by method; the option map is restructured only by the raw API in packet.rs (C19.14, who-may-call); the typed decoder's width check is taken over from C06 (C19.13)")
NOT_DECIDED = "Not decided: set_path/get_path string semantics beyond separator agreement; byte equality through the encoder."
ASSUMPTIONS = []


def variants(prog, path):
    a = prog.adts.get(path)
    return [v["name"] for v in a["variants"]] if a else None


def run_getter(prog, rep, rule, fn_path, field_path, cls_path, own_cls, enum_path):
    """evaluate a code getter for every class of header.code.
    field_path: projection from *self to the MessageClass place"""
    body = find_body(prog, fn_path)
    if body is None:
        rep.missing(rule, fn_path)
        return
    rep.analysed.add(fn_path)
    names = variants(prog, enum_path)
    if names is None:
        rep.missing(rule, enum_path)
        return
    mc = variants(prog, "header::MessageClass")
    gen = body.get("generics", [])
    classes = []
    for i, nm in enumerate(names):
        classes.append(((own_cls, nm), EnumV("header::MessageClass", {mc.index(own_cls): StructV([EnumV(enum_path, {i: StructV([])})])})))
    for other in mc:
        if other == own_cls:
            continue
        classes.append(((other,), None))
    for key, val in classes:
        I = new_interp(prog)
        I.K_ret = 1 << 30
        st = State()
        gargs = tuple(("param", g) for g in gen)
        args = top_args(prog, body, prog.body_subst(body, gargs))
        a0 = I.mat(st, args[0].ty, "self")
        args[0] = a0
        place = a0.place
        # walk to the code field, materialising
        cur = place
        ty = args[0] and prog.ty(body["locals"][1]["ty"])[2]
        ok_path = True
        for fname in field_path:
            v = I.ensure(st, cur, ty, "self")
            a = prog.adts.get(ty[1]) if ty and ty[0] == "adt" else None
            if a is None:
                ok_path = False
                break
            idx = None
            for i, f in enumerate(a["variants"][0]["fields"]):
                if f["name"] == fname:
                    idx = i
            if idx is None:
                ok_path = False
                break
            fts = I.field_types(ty)
            cur = cur.extend(("f", idx))
            ty = fts[idx]
        if not ok_path or ty is None or ty[1] != "header::MessageClass":
            rep.missing(rule, "%s: path to the code field" % fn_path)
            return
        if val is None:
            ev = I.ensure(st, cur, ty, "code")
            vi = mc.index(key[0])
            val = EnumV("header::MessageClass", {vi: ev.variants.get(vi)}, ty)
        I.write(st, cur, val)
        I, res = run(prog, body, args=args, st=st, I=I, gargs=gargs)
        got = set()
        for s, rv in res:
            v = I.read(s, rv.place) if isinstance(rv, RefV) else rv
            if isinstance(v, EnumV):
                for vi in v.variants:
                    got.add(tab.vname(prog, v.path, vi))
            else:
                got.add("?")
        if len(key) == 2 and key[1] != "UnKnown":
            want = {key[1]}
        else:
            want = {"UnKnown"}
        rep.ob(rule, "%s|%s" % (fn_path, "::".join(key)), got == want,
               "%s: with code %s the getter yields %s, expected %s" % (fn_path, "::".join(key), sorted(got), sorted(want)),
               {"file": body["span"]["f"], "line": body["span"]["l"], "fn": fn_path},
               sample={"rule": rule, "code": "::".join(key), "result": sorted(got)})
    rep.floor(rule, "named values of %s" % enum_path, len(names) - 1, {"header::RequestType": 7, "header::ResponseType": 27}[enum_path])


def run_setter(prog, rep, rule, fn_path, cls):
    body = find_body(prog, fn_path)
    if body is None:
        rep.missing(rule, fn_path)
        return
    rep.analysed.add(fn_path)
    gen = body.get("generics", [])
    gargs = tuple(("param", g) for g in gen)
    I = new_interp(prog)
    st = State()
    args = top_args(prog, body, prog.body_subst(body, gargs))
    a0 = I.mat(st, args[0].ty, "self")
    a1 = I.mat(st, args[1].ty, "value")
    before = None
    I, res = run(prog, body, args=[a0, a1], st=st, I=I, gargs=gargs)
    ok = bool(res)
    mc = variants(prog, "header::MessageClass")
    for s, rv in res:
        # find the MessageClass place under *self that is now single-variant cls with payload == argument
        found = False

        def walk(v):
            nonlocal found
            if isinstance(v, EnumV) and v.path == "header::MessageClass":
                if list(v.variants) == [mc.index(cls)]:
                    p = v.variants[mc.index(cls)]
                    if isinstance(p, StructV) and p.fields and p.fields[0] == a1:
                        found = True
            elif isinstance(v, StructV):
                for f in v.fields:
                    walk(f)
        walk(s.cells.get(a0.place.key))
        ok = ok and found
    rep.ob(rule, fn_path, ok, "%s does not store %s(argument) into the message code on every path" % (fn_path, cls),
           {"file": body["span"]["f"], "line": body["span"]["l"], "fn": fn_path}, sample={"rule": rule, "setter": fn_path, "ok": ok})


SETTERS = [
    # (entry, option variant it manages)
    ("packet::Packet::set_content_format", "ContentFormat"),
    ("packet::Packet::set_observe_value", "Observe"),
    ("request::CoapRequest::<Endpoint>::set_path", "UriPath"),
    ("request::CoapRequest::<Endpoint>::set_observe_flag", "Observe"),
]


def opt_variant(prog, v):
    if isinstance(v, EnumV) and v.path == "packet::CoapOption" and len(v.variants) == 1:
        return tab.vname(prog, v.path, next(iter(v.variants)))
    return None


def check_replace(prog, rep, entry, opt):
    body = find_body(prog, entry)
    if body is None:
        rep.missing("C19.3", entry)
        return
    rep.analysed.add(entry)
    gen = body.get("generics", [])
    gargs = tuple(("param", g) for g in gen)
    I = new_interp(prog)
    adds = []

    def hook(I_, st, call, cbody):
        p = call.path
        if p == "packet::Packet::clear_option" or p == "packet::Packet::set_option":
            o = opt_variant(prog, call.args[1])
            if o is not None:
                st.ghost[("cleared", o)] = True
        elif p == "packet::Packet::add_option":
            o = opt_variant(prog, call.args[1])
            adds.append((o, bool(st.ghost.get(("cleared", o))), call.site))
    I.call_hooks.append(hook)
    I, res = run(prog, body, I=I, gargs=gargs)
    mine = [a for a in adds if a[0] == opt]
    sets = 0
    if not mine:
        # a setter may also replace through set_option only
        ok = any(True for s, _ in res if s.ghost.get(("cleared", opt)))
        rep.ob("C19.3", "%s|%s" % (entry, opt), ok,
               "%s: no write of option %s found (mechanism missing)" % (entry, opt))
        return
    # the setter replaces on every path: a path that returns without clearing / replacing the option leaves
    # raw state the getter's (lossy) view cannot vouch for
    uncond = bool(res) and all(s.ghost.get(("cleared", opt)) for s, _ in res)
    rep.ob("C19.3", "%s|%s|unconditional" % (entry, opt), uncond,
           "%s has a path that returns without clearing or replacing option %s (a 'nothing to do' shortcut decided from the "
           "getter's view keeps stale raw values the getter does not show)" % (entry, opt),
           {"file": body["span"]["f"], "line": body["span"]["l"], "fn": entry})
    bad = [a for a in mine if not a[1]]
    rep.ob("C19.3", "%s|%s" % (entry, opt), not bad,
           "%s adds a value of the single-valued option %s without clearing or replacing the existing values first "
           "(the getter reads the first value, so a second set is not read back)" % (entry, opt),
           {"file": bad[0][2]["file"], "line": bad[0][2]["line"], "fn": bad[0][2]["fn"]} if bad else None,
           sample={"rule": "C19.3", "setter": entry, "option": opt, "add_sites": len(mine), "unguarded": len(bad)})


def effect_signature(prog, body):
    """calls (callee, which field of self it is applied to) + fields of self written"""
    I = new_interp(prog)
    gen = body.get("generics", [])
    gargs = tuple(("param", g) for g in gen)
    st = State()
    args = top_args(prog, body, prog.body_subst(body, gargs))
    a0 = I.mat(st, args[0].ty, "self")
    args[0] = a0
    sig = set()

    def fieldpath(v):
        if isinstance(v, RefV) and v.place.key == a0.place.key:
            return "self" + "".join(".%s" % e[1] for e in v.place.proj if e[0] == "f")
        if isinstance(v, RefV) and v.place.key == a0.place.key:
            return "self"
        return None

    def hook(I_, st_, call, cbody):
        if call.ctx.depth > 0:
            return
        targets = [fieldpath(a) for a in call.args]
        targets = [t for t in targets if t]
        pth = call.path.replace("coap_message_0_3", "coap_message")
        # the effect on the message: crate functions called, and library calls applied to a field of self; how the values
        # are walked afterwards (for loop / iterator adapters over an iterator value) is not part of the signature
        if not targets and pth.startswith(("core::", "alloc::", "<core::", "<alloc::", "<&", "<T as ", "<I as ", "<F as ")):
            return
        if not targets and ("core::convert::From<" in pth or "core::convert::Into<" in pth or "core::convert::TryFrom<" in pth):
            return      # a pure conversion of a value (number <-> option name): where it is spelled is not an effect
        if targets and (pth.endswith(("::iter_mut", "::iter", "::into_iter", "::values_mut", "::values"))):
            pth = "iterate-mut" if "mut" in pth else "iterate"
        sig.add(("call", pth, tuple(targets)))
    I.call_hooks.append(hook)
    I.K = 4
    if isinstance(a0, RefV):
        I.ensure(st, a0.place, a0 and prog.ty(body["locals"][1]["ty"])[2], "self")
        before = I.read(st, a0.place)
        # materialise one level so writes show up as changed fields
        if isinstance(before, StructV):
            fts = I.field_types(prog.ty(body["locals"][1]["ty"])[2])
            for i, ft in enumerate(fts or []):
                I.ensure(st, a0.place.extend(("f", i)), ft, "self.%d" % i)
        before = I.read(st, a0.place)
    else:
        before = None
    I, res = run(prog, body, args=args, st=st, I=I, gargs=gargs)
    for s, rv in res:
        after = I.read(s, a0.place) if isinstance(a0, RefV) else None
        if isinstance(before, StructV) and isinstance(after, StructV):
            for i, (x, y) in enumerate(zip(before.fields, after.fields)):
                if x != y:
                    sig.add(("write", "self.%d" % i))
    return sig


def check(env, rep, tier):
    include(rep, env, tier, "c06", ("C06.2", "C06.9"), "C19.13",
            "'typed getters report undecodable raw values as undecodable': the width check of the typed unsigned decoder behind get_observe_value / "
            "get_content_format looks at the stored length (an over-long, zero-padded raw value is an error, not a named value)")
    include(rep, env, tier, "c06", ("C06.7",), "C19.11",
            "'the observe accessor reads the same state as the raw option API': get_observe_value / set_observe_value hand the number "
            "over unchanged (no mask, no shift)")
    include(rep, env, tier, "c01", ("C01.4",), "C19.10",
            "'whatever a setter stores is what ... the encoded bytes show, whatever was there before': every value in the option map goes "
            "out under its own number (delta from the previous emitted number, an emptied list emits nothing and moves nothing)")
    configs = ["default"] if tier == "quick" else ["default", "nodefault", "udp"]
    rep.configs = configs
    for cfg in configs:
        prog = env.prog(cfg)
        run_getter(prog, rep, "C19.1", "request::CoapRequest::<Endpoint>::get_method", ["message", "header", "code"],
                   "header::MessageClass", "Request", "header::RequestType")
        run_getter(prog, rep, "C19.2", "response::CoapResponse::get_status", ["message", "header", "code"],
                   "header::MessageClass", "Response", "header::ResponseType")
        run_setter(prog, rep, "C19.1", "request::CoapRequest::<Endpoint>::set_method", "Request")
        run_setter(prog, rep, "C19.2", "response::CoapResponse::set_status", "Response")
        for entry, opt in SETTERS:
            check_replace(prog, rep, entry, opt)
        check_path_and_observe(prog, rep)
        check_content_format(prog, rep)
        # ---- C19.6 sibling agreement of the two coap-message impls
        groups = {}
        for b in prog.bodies.values():
            if b.get("promoted") or b.get("kind") != "AssocFn":
                continue
            tr = b.get("impl_trait") or ""
            if not tr.startswith("coap_message::"):
                continue
            if prog.types[b["impl_self"]]["s"] != "packet::Packet":
                continue
            ver = "0.3" if "0_3" in b["id"] else "0.2"
            groups.setdefault((tr, b["name"]), {})[ver] = b
        n = 0
        for (tr, name), vs in sorted(groups.items()):
            if len(vs) != 2:
                continue
            n += 1
            s2, s3 = effect_signature(prog, vs["0.2"]), effect_signature(prog, vs["0.3"])
            rep.analysed.add(vs["0.2"]["path"])
            rep.ob("C19.6", "%s::%s" % (tr, name), s2 == s3,
                   "coap-message 0.2 and 0.3 impls of %s::%s differ in effect: only-0.2 %s, only-0.3 %s" % (
                       tr, name, sorted(map(str, s2 - s3)), sorted(map(str, s3 - s2))),
                   {"file": vs["0.3"]["span"]["f"], "line": vs["0.3"]["span"]["l"], "fn": vs["0.3"]["path"]},
                   sample={"rule": "C19.6", "method": "%s::%s" % (tr, name), "signature": sorted(map(str, s3))[:6]})
        rep.floor("C19.6", "methods shared by the 0.2 and 0.3 impls", n, 10)
        # the flattening option iterators end only when the option map is exhausted
        # (an empty value list left behind by clear_option must be skipped, not end the view)
        n_ad = 0
        for b in prog.bodies.values():
            if b.get("promoted") or b.get("impl_trait") != "core::iter::traits::iterator::Iterator" or b.get("name") != "next":
                continue
            if "MessageOptionAdapter" not in prog.types[b["impl_self"]]["s"]:
                continue
            n_ad += 1
            I = new_interp(prog)
            I.no_join_bodies.add(b["id"])
            st = State()
            a0 = I.mat(st, prog.ty(b["locals"][1]["ty"]), "self")
            sty = prog.ty(b["locals"][1]["ty"])[2]
            I.ensure(st, a0.place, sty, "self")
            fts = I.field_types(sty)
            names = [f["name"] for f in prog.adts[sty[1]]["variants"][0]["fields"]]
            for i, t_ in enumerate(fts):
                v = I.ensure(st, a0.place.extend(("f", i)), t_, "self.%s" % names[i])
                if isinstance(v, OpaqueV) and "btree" in prog.types[prog.adts[sty[1]]["variants"][0]["fields"][i]["ty"]]["s"]:
                    I.write(st, a0.place.extend(("f", i)), OpaqueV(v.ty, (("iter", "iter"), ("last_key", Aff.const(-1)))))
            I, res = run(prog, b, args=[a0], st=st, I=I)
            ok = bool(res)
            n_none = 0
            for s, rv in res:
                if isinstance(rv, EnumV) and 0 in rv.variants:
                    n_none += 1
                    if not s.ghost.get(("inj", "map-exhausted")):
                        ok = False
            rep.ob("C19.6", "%s|ends-only-when-exhausted" % b["path"], ok and n_none > 0,
                   "%s can return None although the option map has further entries (e.g. after an emptied value list): options vanish from the generic view" % b["path"],
                   {"file": b["span"]["f"], "line": b["span"]["l"], "fn": b["path"]}, sample={"rule": "C19.6", "adapter": b["path"], "none_paths": n_none})
        rep.floor("C19.6", "option-flattening iterators", n_ad, 2)
        check_generic_view(prog, rep)
        check_raw_add(prog, rep)
        check_map_writers(prog, rep)
        # ---- C19.7 sorted-options marker justified by the container
        a = prog.adts.get("packet::Packet")
        has_marker = any(im.get("trait", "").endswith("WithSortedOptions") and prog.types[im["self_ty"]]["s"] == "packet::Packet" for im in prog.impls)
        if a is None:
            rep.missing("C19.7", "struct Packet")
        elif has_marker:
            opt_f = [f for f in a["variants"][0]["fields"] if f["name"] == "options"]
            ok = bool(opt_f) and prog.types[opt_f[0]["ty"]]["s"].startswith("alloc::collections::btree::map::BTreeMap<u16,")
            rep.ob("C19.7", "WithSortedOptions", ok,
                   "Packet implements WithSortedOptions but its options container is %s, not a BTreeMap keyed by the option number" % (prog.types[opt_f[0]["ty"]]["s"] if opt_f else "missing"))


def check_path_and_observe(prog, rep):
    # ---- C19.5 path separator agreement
    sp = find_body(prog, "request::CoapRequest::<Endpoint>::set_path")
    gp = find_body(prog, "request::CoapRequest::<Endpoint>::get_path")
    gv = find_body(prog, "request::CoapRequest::<Endpoint>::get_path_as_vec")
    if None in (sp, gp, gv):
        rep.missing("C19.5", "set_path / get_path / get_path_as_vec")
    else:
        # the segment list is the stored Uri-Path values one by one - never re-derived from the joined text (joining
        # loses the difference between [""] and [], and between ["a/b"] and ["a", "b"])
        resplit = []
        for x in reachable(prog, gv):
            if not x["path"].startswith("request::"):
                continue
            for bb in x["blocks"]:
                t = bb["term"]
                if t["k"] == "call" and not bb["cleanup"]:
                    pth = (t.get("resolved") or t.get("callee") or {}).get("path", "") or ""
                    if pth.startswith("core::str::<impl str>::") and pth.rsplit("::", 1)[-1] in ("split", "rsplit", "split_terminator", "splitn", "split_inclusive", "split_once") \
                            or pth.endswith("CoapRequest::<Endpoint>::get_path"):
                        resplit.append((pth.rsplit("::", 1)[-1], bb["tspan"]["l"]))
        rep.ob("C19.5", "segments-from-options", not resplit,
               "get_path_as_vec derives its segments from joined path text (%s) instead of taking the stored Uri-Path values one by one: "
               "an empty first segment or a '/' inside a segment reads back differently from the raw options" % resplit[:3],
               {"file": gv["span"]["f"], "line": gv["span"]["l"], "fn": gv["path"]})
        def call_consts(b, path):
            out = []
            for bb in b["blocks"]:
                t = bb["term"]
                if t["k"] == "call" and not bb["cleanup"] and (t.get("resolved") or t.get("callee") or {}).get("path") == path:
                    out.append(t["args"])
            return out
        def chase(b, op, depth=0):
            """constant behind an operand, following single-assignment locals / reborrows"""
            if op["k"] == "const":
                return op
            if op["k"] not in ("copy", "move") or depth > 4:
                return None
            l = op["place"]["l"]
            defs = [st_["rv"] for bb in b["blocks"] for st_ in bb["stmts"] if st_["k"] == "assign" and st_["place"]["l"] == l and not st_["place"]["p"]]
            if len(defs) != 1:
                return None
            rv = defs[0]
            if rv["k"] == "use":
                return chase(b, rv["op"], depth + 1)
            if rv["k"] == "ref":
                return chase(b, {"k": "copy", "place": {"l": rv["place"]["l"], "p": []}}, depth + 1)
            return None
        splits = call_consts(sp, "core::str::<impl str>::split")
        joins = call_consts(gp, "alloc::slice::<impl [T]>::join")
        sc = [(chase(sp, a[1]) or {}).get("int") for a in splits if len(a) > 1]
        jc = [(chase(gp, a[1]) or {}).get("str") for a in joins if len(a) > 1]
        rep.ob("C19.5", "separator", sc == [str(ord("/"))] and jc == ["/"],
               "set_path splits on %s but get_path joins with %s: paths do not read back" % (sc, jc),
               {"file": sp["span"]["f"], "line": sp["span"]["l"], "fn": sp["path"]}, sample={"rule": "C19.5", "split": sc, "join": jc})
        # the only segment that may be skipped is an empty first one - wherever the segments are obtained (an enumerated
        # for loop, a peeled first next(), a helper that stores them)
        import summaries2
        I = new_interp(prog)
        gargs = (("param", "Endpoint"),)
        skipped = []

        def wrap_next(I_, st_, call):
            if st_.ghost.get("seg-pending"):
                skipped.append(st_.copy())            # the previous segment was never stored
            res = summaries2.m_next(I_, st_, call)
            if res is None:
                return None
            for s2, v in res:
                if isinstance(v, EnumV) and list(v.variants) == [1]:
                    s2.ghost["seg-pending"] = True
                    s2.ghost["seg-n"] = s2.ghost.get("seg-n", 0) + 1
                    item = v.variants[1].fields[0] if isinstance(v.variants[1], StructV) and v.variants[1].fields else None
                    seg = item.fields[-1] if isinstance(item, StructV) and item.fields else item
                    if isinstance(seg, SliceV):
                        s2.cells[("gh", "seg")] = seg
                else:
                    s2.ghost["seg-pending"] = False
            return res
        for pth in ("<core::str::iter::Split<'a, P> as core::iter::traits::iterator::Iterator>::next",
                    "<core::iter::adapters::enumerate::Enumerate<I> as core::iter::traits::iterator::Iterator>::next"):
            I.extra_models[pth] = wrap_next

        def hook(I_, s, call, cbody):
            if call.path == "packet::Packet::add_option":
                s.ghost["seg-pending"] = False
        I.call_hooks.append(hook)

        def lhook(I_, ctx, h, head, backs, exits):
            for b_ in backs:
                if b_.ghost.get("seg-pending"):
                    skipped.append(b_.copy())       # the iteration ends with its segment not stored
                    b_.ghost["seg-pending"] = False
        I.loop_hooks.append(lhook)

        def ehook(I_, ctx, h, ins):
            for e_ in ins:
                if e_.ghost.get("seg-pending"):
                    skipped.append(e_.copy())       # a segment obtained before the loop was not stored
                    e_.ghost["seg-pending"] = False
        I.loop_entry_hooks.append(ehook)
        I.unroll_max_blocks = 0
        I.no_join_bodies.add(sp["id"])
        I, res = run(prog, sp, I=I, gargs=gargs)
        for s_, _ in res:
            if s_.ghost.get("seg-pending"):
                skipped.append(s_)
        ok = True
        for s in skipped:
            seg = s.cells.get(("gh", "seg"))
            empty = isinstance(seg, SliceV) and s.entails_eq(seg.len, Aff.const(0))
            if not empty:
                empty = any(v == (0, 0) and k.startswith("len(") for k, v in s.bounds.items())
            first = s.ghost.get("seg-n") == 1 or any(v == (0, 0) and k.startswith("item") for k, v in s.bounds.items())
            if not (first and empty):
                ok = False
        rep.ob("C19.5", "skip-only-leading-empty", ok and len(skipped) >= 1,
               "set_path can drop a path segment other than an empty first one (e.g. the empty segment of \"a//b\" or a trailing one), "
               "or the leading empty segment is no longer skipped (skipping paths: %d)" % len(skipped),
               {"file": sp["span"]["f"], "line": sp["span"]["l"], "fn": sp["path"]}, sample={"rule": "C19.5", "skipping_paths": len(skipped)})
    # ---- C19.4 observe flag accessors compose the C05.3 tables with set/get_observe_value
    so = find_body(prog, "request::CoapRequest::<Endpoint>::set_observe_flag")
    go = find_body(prog, "request::CoapRequest::<Endpoint>::get_observe_flag")
    if so is None or go is None:
        rep.missing("C19.4", "set_observe_flag / get_observe_flag")
        return
    enc = find_impl_fn(prog, "core::convert::From", "usize", "packet::ObserveOption", "from")
    dec = find_impl_fn(prog, "core::convert::TryFrom", "packet::ObserveOption", "usize", "try_from")
    I = new_interp(prog)
    gargs = (("param", "Endpoint"),)
    ev = []

    def hook2(I_, s, call, cbody):
        if cbody is not None and enc is not None and cbody["id"] == enc["id"]:
            ev.append(("enc", call.args[0]))
        elif call.path == "packet::Packet::set_observe_value":
            ev.append(("set", call.args[1]))
    I.call_hooks.append(hook2)
    st = State()
    subst = prog.body_subst(so, gargs)
    args = [I.mat(st, prog.ty(so["locals"][i + 1]["ty"], subst), "a%d" % i) for i in range(so["arg_count"])]
    I.K_ret = 1 << 30
    I, res = run(prog, so, args=args, st=st, I=I, gargs=gargs)
    kinds = [e[0] for e in ev]
    ok = "enc" in kinds and "set" in kinds and all(e[1] == args[1] for e in ev if e[0] == "enc")
    # the value handed to set_observe_value is the table's number for the flag: 0 / 1
    vals = sorted(set(e[1].aff.c for e in ev if e[0] == "set" and isinstance(e[1], IntV) and e[1].aff.is_const()))
    rep.ob("C19.4", "set_observe_flag", ok and vals == sorted(REG["observe"].values()),
           "set_observe_flag does not store the registry number of the flag through set_observe_value (values %s)" % vals,
           {"file": so["span"]["f"], "line": so["span"]["l"], "fn": so["path"]})
    calls = set()
    for b_ in [go] + [b2 for b2 in prog.bodies.values() if b2["path"].startswith(go["path"] + "::{closure")]:
        for bb in b_["blocks"]:
            t = bb["term"]
            if t["k"] == "call" and not bb["cleanup"]:
                r = t.get("resolved") or t.get("callee") or {}
                calls.add(r.get("id") or r.get("path"))
    rep.ob("C19.4", "get_observe_flag", "packet::Packet::get_observe_value" in calls or any(str(c).endswith("get_observe_value") for c in calls) and dec is not None and dec["id"] in calls,
           "get_observe_flag does not decode get_observe_value() through the ObserveOption table",
           {"file": go["span"]["f"], "line": go["span"]["l"], "fn": go["path"]})


def check_content_format(prog, rep):
    """C19.8: set_content_format stores the registry number of the format through the typed unsigned encoder
    (so the stored bytes are C06's shortest big-endian form) and get_content_format reads it back with the same type"""
    import provenance
    sb = find_body(prog, "packet::Packet::set_content_format")
    gb = find_body(prog, "packet::Packet::get_content_format")
    if sb is None or gb is None:
        rep.missing("C19.8", "set_content_format / get_content_format")
        return
    ALLOWED = ("core::result::Result::<T, E>::unwrap", "core::result::Result::<T, E>::expect",
               "<T as core::convert::Into<U>>::into", "<T as core::convert::TryInto<U>>::try_into")
    TOUSIZE = "packet::<impl core::convert::From<packet::ContentFormat> for usize>::from"
    typed, raw, wrap = [], [], None
    for bb in sb["blocks"]:
        t = bb["term"]
        if t["k"] != "call" or bb["cleanup"]:
            continue
        p = provenance.callee_path(t)
        if p in ("packet::Packet::add_option", "packet::Packet::set_option"):
            raw.append(t)
        elif p.startswith("packet::Packet::") and len(t["args"]) == 3 and any("option_value::OptionValue" in prog.types[g_]["s"] for g_ in (t.get("resolved") or t.get("callee") or {}).get("gargs", [])):
            typed.append(t)     # add_option_as / set_options_as / a private helper generic over the option value type
    ok = len(typed) == 1 and not raw
    why = "typed writes %d, raw writes %d" % (len(typed), len(raw))
    if ok:
        steps, term = provenance.trace(sb, typed[0]["args"][2])
        wraps = [x[1] for x in steps if x[0] == "wrap"]
        calls = [x[1] for x in steps if x[0] == "call"]
        conv = [c for c in calls if "core::convert::TryFrom<usize> for u" in c or "core::convert::From<usize> for u" in c]
        other = [c for c in calls if c not in ALLOWED and c != TOUSIZE and c not in conv]
        wrap = wraps[0] if wraps else None
        ok = (len(wraps) == 1 and wrap.split("::")[-1] in ("OptionValueU16", "OptionValueU32", "OptionValueU64") and TOUSIZE in calls
              and not other and term == ("arg", 2, "") and not any(x[0] in ("cast", "proj") for x in steps))
        why = "value = %s(%s of %s)" % (wrap, calls, term)
    site = {"file": sb["span"]["f"], "line": sb["span"]["l"], "fn": sb["path"]}
    rep.ob("C19.8", "set_content_format|typed", ok,
           "set_content_format does not store usize::from(format), unchanged, through the typed unsigned option encoder (%s)" % why, site,
           sample={"rule": "C19.8", "wrapper": wrap})
    gt = [bb["term"] for bb in gb["blocks"] if bb["term"]["k"] == "call" and not bb["cleanup"]
          and provenance.callee_path(bb["term"]) in ("packet::Packet::get_first_option_as", "packet::Packet::get_options_as")]
    gty = [prog.types[g]["s"] for t in gt for g in t["callee"].get("gargs", [])]
    rep.ob("C19.8", "get_content_format|same-type", bool(gt) and wrap is not None and all(x == wrap.rsplit("::", 1)[0] for x in gty),
           "get_content_format does not read the option with the type set_content_format writes it with (reads %s, writes %s)" % (gty, wrap),
           {"file": gb["span"]["f"], "line": gb["span"]["l"], "fn": gb["path"]})



def enum_leaves(I, st, ty, depth=0):
    """every value of an enum type with its variant (and the variant of a nested enum payload) fixed; other
    payload fields are fresh symbols - so two leaves are equal only if they are the same value"""
    v = I.mat(st, ty, "leaf")
    if not isinstance(v, EnumV) or depth > 2:
        return [v]
    out = []
    for vi in sorted(v.variants):
        fts = I.field_types(ty, vi) or []
        combos = [[]]
        for ft in fts:
            alts = enum_leaves(I, st, ft, depth + 1) if ft is not None and ft[0] == "adt" and len(ft) > 3 and ft[3] == "enum" else [I.mat(st, ft, "leaf.payload")]
            combos = [c + [a] for c in combos for a in alts]
        for c in combos:
            out.append(EnumV(v.path, {vi: StructV(c)}, v.ty))
    return out


def check_raw_add(prog, rep):
    """C19.12: the raw adder appends - Packet::add_option replaces (BTreeMap::insert) the list under its number only
    on a path where a lookup *under that number* has just come back empty; otherwise values added earlier (a path's
    first segments, when a higher-numbered option is already there) are lost"""
    b = find_body(prog, "packet::Packet::add_option")
    if b is None:
        rep.missing("C19.12", "Packet::add_option")
        return
    I = new_interp(prog)
    I.no_join_bodies.add(b["id"])
    st = State()
    args = [I.mat(st, prog.ty(b["locals"][i + 1]["ty"]), "a%d" % i) for i in range(b["arg_count"])]
    import summaries2
    keyed = ("alloc::collections::btree::map::BTreeMap::<K, V, A>::get_mut", "alloc::collections::btree::map::BTreeMap::<K, V, A>::get",
             "alloc::collections::btree::map::BTreeMap::<K, V, A>::contains_key")
    base_get = summaries2.m_map_get
    keys = {}

    def key_of(I_, s_, a):
        v = I_.read(s_, a.place) if isinstance(a, RefV) else a
        return v.aff if isinstance(v, IntV) else None

    def m_get(I_, s_, call):
        k = key_of(I_, s_, call.args[1]) if len(call.args) > 1 else None
        r = base_get(I_, s_, call) if not call.path.endswith("contains_key") else None
        if r is None:
            from summaries import boolv
            s2 = s_.copy()
            r = [(s_, boolv(False)), (s2, boolv(True))]
            r[0][0].ghost["absent-key"] = k
            return r
        for s2, v in r:
            if isinstance(v, EnumV) and list(v.variants) == [0]:
                s2.ghost["absent-key"] = k
        return r
    for pth in keyed:
        I.extra_models[pth] = m_get
    bad, n_ins = [], [0]

    def hook(I_, s_, call, cbody):
        if call.path == "alloc::collections::btree::map::BTreeMap::<K, V, A>::insert" and call.ctx.depth == 0:
            n_ins[0] += 1
            k = call.args[1].aff if len(call.args) > 1 and isinstance(call.args[1], IntV) else None
            ak = s_.ghost.get("absent-key")
            if k is None or ak is None or not (ak == k or s_.entails_eq(ak, k)):
                bad.append(call.site)
    I.call_hooks.append(hook)
    I, res = run(prog, b, args=args, st=st, I=I)
    rep.ob("C19.12", "raw-add-appends", not bad and bool(res),
           "Packet::add_option can replace the list stored under its number without a lookup under that number having found it absent "
           "(insert at %s): values added earlier are dropped when the option is not the last key" % sorted(set("%s:%s" % (x.get("file"), x.get("line")) for x in bad))[:2],
           {"file": b["span"]["f"], "line": b["span"]["l"], "fn": b["path"]}, sample={"rule": "C19.12", "inserts": n_ins[0], "paths": len(res)})


def check_map_writers(prog, rep):
    """C19.14: the option map is restructured (entries inserted, replaced, removed) only by the raw API in packet.rs - the
    coap-message views and every other module go through it, so that what they add is appended the way add_option appends"""
    RESTRUCT = ("insert", "entry", "remove", "remove_entry", "clear", "retain", "append", "extend", "pop_first", "pop_last", "split_off", "first_entry", "last_entry")
    inside, outside = 0, []
    for b in prog.bodies.values():
        if b.get("promoted") or "::tests::" in b["id"] or "::test::" in b["id"]:
            continue
        for bb in b["blocks"]:
            t = bb["term"]
            if t["k"] != "call" or bb.get("cleanup"):
                continue
            pth = (t.get("resolved") or t.get("callee") or {}).get("path", "") or ""
            nm_ = pth.rsplit("::", 1)[-1]
            if nm_ not in RESTRUCT or "btree::map::BTreeMap" not in pth and "BTreeMap<" not in pth:
                continue
            a0t = ""
            if t["args"] and t["args"][0]["k"] in ("copy", "move") and not t["args"][0]["place"]["p"]:
                a0t = prog.types[b["locals"][t["args"][0]["place"]["l"]]["ty"]]["s"]
            if "BTreeMap<u16, alloc::collections::linked_list::LinkedList<alloc::vec::Vec<u8>>>" not in a0t.replace("alloc::collections::LinkedList", "alloc::collections::linked_list::LinkedList"):
                continue
            if b["path"].startswith("packet::"):
                inside += 1
            else:
                outside.append("%s in %s" % (nm_, b["path"]))
    rep.ob("C19.14", "option-map-restructured-only-by-the-raw-api", not outside,
           "the option map is written directly outside packet.rs (%s): a view that stores lists itself does not append the way the raw "
           "add_option does (values already stored under that number are lost)" % "; ".join(sorted(set(outside))[:3]))
    rep.floor("C19.14", "option-map writes inside the raw API (positive instances of the pattern)", inside, 3)


def check_generic_view(prog, rep):
    """C19.9: the coap-message view is the raw state - code() / set_code() are the identity on every code value,
    payload() is the whole payload field on every path, set_payload() stores a copy of exactly the bytes given,
    add_option() hands number and bytes to the raw add_option, options() starts at the first map entry"""
    P = {f["name"]: i for i, f in enumerate(prog.adts["packet::Packet"]["variants"][0]["fields"])} if "packet::Packet" in prog.adts else {}
    H = {f["name"]: i for i, f in enumerate(prog.adts["header::Header"]["variants"][0]["fields"])} if "header::Header" in prog.adts else {}
    if not all(k in P for k in ("header", "payload", "options")) or "code" not in H:
        rep.missing("C19.9", "Packet.header.code / payload / options")
        return
    n_methods = 0
    for b in sorted(prog.bodies.values(), key=lambda b_: b_["id"]):
        tr = b.get("impl_trait") or ""
        if b.get("promoted") or b.get("kind") != "AssocFn" or not tr.startswith("coap_message::"):
            continue
        if prog.types[b["impl_self"]]["s"] != "packet::Packet" or b["name"] not in ("code", "set_code", "payload", "set_payload", "add_option", "options",
                                                                                    "payload_mut", "payload_mut_with_len", "truncate"):
            continue
        n_methods += 1
        name = b["name"]
        ver = "0.3" if "0_3" in b["id"] else "0.2"
        site = {"file": b["span"]["f"], "line": b["span"]["l"], "fn": b["path"]}
        rep.analysed.add(b["path"])

        def setup():
            I = new_interp(prog)
            I.no_join_bodies.add(b["id"])
            st = State()
            args = [I.mat(st, prog.ty(b["locals"][i + 1]["ty"]), "a%d" % i) for i in range(b["arg_count"])]
            pty = prog.ty(b["locals"][1]["ty"])[2]
            I.ensure(st, args[0].place, pty, "self")
            fts = I.field_types(pty)
            for nm in ("header", "payload", "options"):
                I.ensure(st, args[0].place.extend(("f", P[nm])), fts[P[nm]], "self." + nm)
            hty = fts[P["header"]]
            cty = I.field_types(hty)[H["code"]]
            cplace = args[0].place.extend(("f", P["header"])).extend(("f", H["code"]))
            return I, st, args, cty, cplace
        key = "%s|%s" % (ver, name)
        if name in ("code", "set_code"):
            I, st, args, cty, cplace = setup()
            leaves = enum_leaves(I, st, cty)
            bad, n = [], 0
            for leaf in leaves:
                I, st, args, cty, cplace = setup()
                leaf = [x for x in enum_leaves(I, st, cty) if sorted(x.variants) == sorted(leaf.variants) and
                        [sorted(f.variants) if isinstance(f, EnumV) else None for f in list(x.variants.values())[0].fields] ==
                        [sorted(f.variants) if isinstance(f, EnumV) else None for f in list(leaf.variants.values())[0].fields]][0]
                other = [x for x in enum_leaves(I, st, cty) if sorted(x.variants) != sorted(leaf.variants)][0]
                if name == "code":
                    I.write(st, cplace, leaf)
                else:
                    I.write(st, cplace, other)
                    args[1] = leaf
                I, res = run(prog, b, args=args, st=st, I=I)
                for s_, rv in res:
                    n += 1
                    got = rv if name == "code" else I.read(s_, cplace)
                    if got != leaf:
                        bad.append("%s -> %s" % (tab_desc(prog, leaf), tab_desc(prog, got)))
                if not res:
                    bad.append("no return")
            rep.ob("C19.9", key, not bad and n >= 4,
                   "coap-message %s %s() is not the identity on the raw code: %s (code values tried: %d)" % (ver, name, bad[:3] or "too few values", n), site,
                   sample={"rule": "C19.9", "method": key, "values": n})
        elif name == "payload":
            I, st, args, cty, cplace = setup()
            pplace = args[0].place.extend(("f", P["payload"]))
            pv = I.read(st, pplace)
            I, res = run(prog, b, args=args, st=st, I=I)
            bad = 0
            for s_, rv in res:
                ok = isinstance(rv, SliceV) and isinstance(rv.base, tuple) and rv.base[0] == "vec" and rv.base[1] == pplace \
                    and s_.entails_eq(rv.off, Aff.const(0)) and isinstance(pv, VecV) and s_.entails_eq(rv.len, pv.len)
                if not ok:
                    bad += 1
            rep.ob("C19.9", key, bool(res) and not bad,
                   "coap-message %s payload() does not return the whole raw payload on %d of %d paths (a message copied through the generic interface loses or shortens its payload)" % (ver, bad, len(res)), site,
                   sample={"rule": "C19.9", "method": key, "paths": len(res)})
        elif name in ("payload_mut", "payload_mut_with_len", "truncate"):
            # the mutable payload view is the raw payload itself: after payload_mut_with_len(n) the message's payload is
            # exactly n bytes long and the slice handed out is all of it; truncate(n) leaves min(len, n) bytes
            I, st, args, cty, cplace = setup()
            pplace = args[0].place.extend(("f", P["payload"]))
            pv0 = I.read(st, pplace)
            I, res = run(prog, b, args=args, st=st, I=I)
            bad = 0
            for s_, rv in res:
                pv = I.read(s_, pplace)
                rs = rv
                if isinstance(rs, EnumV) and list(rs.variants) == [0] and isinstance(rs.variants[0], StructV) and rs.variants[0].fields:
                    rs = rs.variants[0].fields[0]       # Ok(slice) in the 0.3 trait
                ok = isinstance(pv, VecV) and isinstance(pv0, VecV)
                if ok and name == "payload_mut_with_len":
                    n_ = args[1]
                    ok = isinstance(n_, IntV) and s_.entails_eq(pv.len, n_.aff)
                if ok and name == "payload_mut":
                    ok = s_.entails_eq(pv.len, pv0.len)
                if ok and name in ("payload_mut", "payload_mut_with_len"):
                    ok = isinstance(rs, SliceV) and isinstance(rs.base, tuple) and rs.base[0] == "vec" and rs.base[1] == pplace \
                        and s_.entails_eq(rs.off, Aff.const(0)) and s_.entails_eq(rs.len, pv.len)
                if ok and name == "truncate":
                    n_ = args[1]
                    ok = isinstance(n_, IntV) and s_.entails(n_.aff - pv.len) and s_.entails(pv0.len - pv.len) \
                        and (s_.entails_eq(pv.len, n_.aff) or s_.entails_eq(pv.len, pv0.len))
                if not ok:
                    bad += 1
            rep.ob("C19.9", key, bool(res) and not bad,
                   "coap-message %s %s() does not leave / hand out exactly the raw payload of the length asked for on %d of %d paths (bytes of an earlier, "
                   "longer payload stay in the message)" % (ver, name, bad, len(res)), site, sample={"rule": "C19.9", "method": key, "paths": len(res)})
        elif name == "set_payload":
            I, st, args, cty, cplace = setup()
            pplace = args[0].place.extend(("f", P["payload"]))
            I, res = run(prog, b, args=args, st=st, I=I)
            bad = 0
            src = args[1] if len(args) > 1 and isinstance(args[1], SliceV) else None
            for s_, rv in res:
                pv = I.read(s_, pplace)
                ok = src is not None and isinstance(pv, VecV) and isinstance(pv.tag, tuple) and pv.tag[0] in ("copy", "slice") and pv.tag[1] == src.base \
                    and s_.entails_eq(pv.len, src.len) and (not isinstance(pv.tag[2], Aff) or s_.entails_eq(pv.tag[2], src.off)) and (isinstance(pv.tag[2], Aff) or pv.tag[2] == 0)
                if not ok:
                    bad += 1
            rep.ob("C19.9", key, bool(res) and not bad,
                   "coap-message %s set_payload() does not leave a copy of exactly the bytes given as the raw payload on %d of %d paths" % (ver, bad, len(res)), site,
                   sample={"rule": "C19.9", "method": key, "paths": len(res)})
        elif name == "add_option":
            I, st, args, cty, cplace = setup()
            seen = []

            def hook(I_, s_, call, cbody):
                if call.path == "packet::Packet::add_option" and call.ctx.depth == 0:
                    seen.append((s_.copy(), call.args))
                    s_.ghost["raw-add-option"] = s_.ghost.get("raw-add-option", 0) + 1
            I.call_hooks.append(hook)
            I, res = run(prog, b, args=args, st=st, I=I)
            src = args[2] if len(args) > 2 and isinstance(args[2], SliceV) else None
            ok = bool(seen) and bool(res) and all(s_.ghost.get("raw-add-option") == 1 for s_, _ in res)
            for s_, ca in seen:
                v = ca[2] if len(ca) > 2 else None
                if not (len(ca) > 2 and ca[1] == args[1] and src is not None and isinstance(v, VecV) and isinstance(v.tag, tuple) and v.tag[0] in ("copy", "slice")
                        and v.tag[1] == src.base and s_.entails_eq(v.len, src.len)):
                    ok = False
            rep.ob("C19.9", key, ok,
                   "coap-message %s add_option() does not pass the option number and a copy of exactly the bytes given to the raw add_option on every path" % ver, site,
                   sample={"rule": "C19.9", "method": key, "calls": len(seen)})
        elif name == "options":
            I, st, args, cty, cplace = setup()
            I, res = run(prog, b, args=args, st=st, I=I)
            ok = bool(res)
            for s_, rv in res:
                fs = rv.fields if isinstance(rv, StructV) else []
                its = [f for f in fs if isinstance(f, OpaqueV) and f.get("iter") == "iter" and f.get("last_key") == Aff.const(-1)]
                heads = [f for f in fs if isinstance(f, EnumV)]
                if len(its) != 1 or not all(sorted(h.variants) == [0] for h in heads):
                    ok = False
            rep.ob("C19.9", key, ok,
                   "coap-message %s options() does not start a fresh walk over the whole option map (iterator from the first entry, no pending value list)" % ver, site,
                   sample={"rule": "C19.9", "method": key, "paths": len(res)})
    # mutate_options hands every stored value to the callback: only element-keeping adapters on the way
    for b in sorted(prog.bodies.values(), key=lambda b_: b_["id"]):
        tr = b.get("impl_trait") or ""
        if b.get("promoted") or b.get("kind") != "AssocFn" or not tr.startswith("coap_message::") or b.get("name") != "mutate_options":
            continue
        if prog.types[b["impl_self"]]["s"] != "packet::Packet":
            continue
        fam = [x for x in prog.bodies.values() if not x.get("promoted") and (x["id"] == b["id"] or x["path"].startswith(b["path"] + "::{closure"))]
        dropping = []
        for x in fam:
            for bb in x["blocks"]:
                t = bb["term"]
                if t["k"] == "call" and not bb.get("cleanup"):
                    pth = (t.get("resolved") or t.get("callee") or {}).get("path", "") or ""
                    nm = pth.rsplit("::", 1)[-1]
                    if ("core::iter::traits::iterator::Iterator::" in pth or pth.startswith("core::iter::adapters::")) \
                            and nm in ("filter", "filter_map", "skip", "skip_while", "take", "take_while", "map_while", "step_by", "find", "nth", "last"):
                        dropping.append(nm)
        ver = "0.3" if "0_3" in b["id"] else "0.2"
        rep.ob("C19.9", "%s|mutate_options|every-value" % ver, not dropping,
               "coap-message %s mutate_options() passes the stored values through %s: some values (e.g. zero-length ones) never reach the callback, "
               "so the generic view differs from the raw options" % (ver, sorted(set(dropping))), {"file": b["span"]["f"], "line": b["span"]["l"], "fn": b["path"]})
    rep.floor("C19.9", "coap-message view methods checked against the raw state", n_methods, 12)
    # (payload_mut exists in the 0.2 trait only)


def tab_desc(prog, v):
    import tab
    try:
        return tab.leaf_variant(tab.describe(prog, State(), v))
    except Exception:
        return repr(v)
