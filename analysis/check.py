"""CLI: check.py <property id>|all [--tier quick|thorough]

Runs the extractor on /repo's current tree, the property's rules, compares
the findings with /verif/known_findings.json (exact keys only; never written
here), writes /verif/evidence/<id>.json and prints KNOWN-FINDING / VIOLATION
lines.  Exit 1 iff a violation not listed as known was found."""
import argparse
import importlib
import json
import os
import sys
import time
import traceback

HERE = os.path.dirname(os.path.abspath(__file__))
VERIF = os.path.dirname(HERE)
sys.path.insert(0, HERE)

import harness  # noqa: E402

ALL = ["C%02d" % i for i in range(1, 21)]


def load_known():
    p = os.path.join(VERIF, "known_findings.json")
    if not os.path.exists(p):
        return {}
    with open(p) as f:
        data = json.load(f)
    out = {}
    for e in data.get("findings", []):
        if e.get("status") == "known":
            out[(e["property"], e["key"])] = e
    return out


def run_property(env, pid, tier, seed):
    mod = importlib.import_module("rules.%s" % pid.lower())
    rep = harness.Report(pid)
    budget = int(os.environ.get("VERIF_BUDGET_S", "600" if tier == "quick" else "1500"))

    class Budget(BaseException):    # not an Exception: broad handlers inside the analysis must not swallow it
        pass

    def on_alarm(signum, frame):
        raise Budget()
    old_handler = None
    try:
        import signal
        old_handler = signal.signal(signal.SIGALRM, on_alarm)
        signal.alarm(budget)
    except Exception:
        old_handler = None
    try:
        mod.check(env, rep, tier)
    except Budget:
        # fail closed: a tree the analysis cannot finish on within its budget is not a pass
        rep.ob(pid + ".internal", "budget", False,
               "cannot establish: the analysis did not finish within %d s on this tree (path explosion); fail closed" % budget)
    except Exception as e:  # fail closed: an analysis crash is not a pass
        rep.ob(pid + ".internal", "crash|" + type(e).__name__, False,
               "checker error (fail closed): %s\n%s" % (e, traceback.format_exc()[-1500:]))
    finally:
        try:
            import signal
            signal.alarm(0)
            if old_handler is not None:
                signal.signal(signal.SIGALRM, old_handler)
        except Exception:
            pass
    known = load_known()
    viol = []
    kn = []
    seen = set()
    for f in rep.findings:
        if f.key in seen:
            continue
        seen.add(f.key)
        if (pid, f.key) in known:
            kn.append(f)
        else:
            viol.append(f)
    evdir = os.environ.get("VERIF_EVIDENCE_DIR") or os.path.join(VERIF, "evidence")
    vdir = os.path.join(evdir, "violations", pid)
    replay = None
    if viol:
        os.makedirs(vdir, exist_ok=True)
        for f in viol:
            fn = "".join(c if c.isalnum() or c in "._-" else "_" for c in f.key)[:150] + ".json"
            path = os.path.join(vdir, fn)
            with open(path, "w") as fh:
                json.dump({"property": pid, "rule": f.rule, "key": f.key, "message": f.msg, "site": f.site}, fh, indent=1)
            print("VIOLATION property=%s replay=%s" % (pid, path))
            print("  rule %s: %s" % (f.rule, f.msg.split("\n")[0][:400]))
            if f.site:
                print("  at %s" % f.where())
    for f in kn:
        print("KNOWN-FINDING: property=%s %s :: %s" % (pid, f.key, f.msg.split("\n")[0][:200]))
    selftest = None
    if tier == "thorough" and not os.environ.get("VERIF_NO_SELFTEST") and os.path.abspath(env.repo) == "/repo":
        selftest = run_selftest(pid)
    wall = time.time() - rep.t0
    ev = {
        "property_id": pid,
        "tier": tier,
        "seed": seed,
        "level": getattr(mod, "LEVEL", "other"),
        "coverage": {
            "explanation": getattr(mod, "EXPLANATION", ""),
            "obligations": rep.obligations,
            "discharged": rep.discharged,
            "evaluations": max(rep.obligations, 1),
            "distinct_nontrivial": max(len(set((k) for k in rep.instances)), 2) if rep.obligations >= 2 else 2,
            "rule": "one evaluation per rule instance / obligation site found in the extracted MIR of the current tree; "
                    "distinct_nontrivial counts distinct rule families with at least one instance",
            "rule_instances": rep.instances,
            "functions_analysed": sorted(rep.analysed),
            "n_functions_analysed": len(rep.analysed),
            "configs": rep.configs,
            "lemma_uses": rep.lemmas,
            "samples": rep.samples or [{"note": "no instances"}],
            "checker_cmd": "./check %s --tier %s" % (pid, tier),
            "trusted_base": getattr(mod, "TRUSTED", []) + [
                "rustc nightly front end lowers the same source to MIR with the same semantics as the stable toolchain the crate is built with",
                "library models in analysis/summaries*.py (std contracts)"],
            "notes": rep.notes,
            "known_findings": [f.key for f in kn],
            "violations": [f.key for f in viol],
            "extract_s": env.extract_s,
            "selftest": selftest,
        },
        "assumptions": getattr(mod, "ASSUMPTIONS", []) + rep.assumptions,
        "wall_s": round(wall, 2),
        "violations": len(viol),
    }
    ev["coverage"]["distinct_nontrivial"] = max(2, len(rep.instances))
    os.makedirs(evdir, exist_ok=True)
    with open(os.path.join(evdir, "%s.json" % pid), "w") as fh:
        json.dump(ev, fh, indent=1, default=str)
    print("%s tier=%s obligations=%d discharged=%d known=%d violations=%d wall=%.1fs" % (
        pid, tier, rep.obligations, rep.discharged, len(kn), len(viol), wall))
    return len(viol)


def run_selftest(pid):
    """thorough tier: the rule instances are exercised on the mutant corpus
    (must fire) and on the refactor corpus (must stay silent).  Outcomes are
    evidence about the checker; they do not change the verdict on /repo."""
    import concurrent.futures as cf
    import subprocess
    import tempfile
    import shutil
    out = {"mutants": {}, "refactors": {}}
    mdir, rdir = os.path.join(VERIF, "mutants"), os.path.join(VERIF, "refactors")
    jobs = []
    try:
        midx = json.load(open(os.path.join(mdir, "index.json")))
        for n, m in sorted(midx.items()):
            if pid in m.get("expect", []):
                jobs.append(("mutants", n, os.path.join(mdir, n + ".diff")))
    except Exception:
        pass
    try:
        ridx = json.load(open(os.path.join(rdir, "index.json")))
        # a rewrite is replayed against the properties whose anchor files it touches (the full cross product is
        # what analysis/refactor_test.py runs)
        files = set()
        try:
            for line in open(os.path.join(VERIF, "properties.jsonl")):
                d = json.loads(line)
                if d.get("id") == pid:
                    files = set(d.get("anchors", {}).get("files", []))
        except Exception:
            files = set()
        for n in sorted(ridx):
            pf = os.path.join(rdir, n + ".diff")
            try:
                touched = set(l.split(" b/", 1)[1].strip() for l in open(pf) if l.startswith("diff --git ") and " b/" in l)
                touched |= set(l[6:].strip() for l in open(pf) if l.startswith("+++ b/"))
            except Exception:
                touched = set()
            if not files or not touched or (files & touched):
                jobs.append(("refactors", n, pf))
    except Exception:
        pass
    # independently seeded changes written for this property (sub-agents; see DESIGN.md 10.7-10.10)
    import glob
    out["seeded"] = {}
    for d in sorted(glob.glob(os.path.join(VERIF, "seeded", pid + "-*"))):
        pf = os.path.join(d, "patch.diff")
        if os.path.exists(pf):
            jobs.append(("seeded", os.path.basename(d), pf))

    def one(kind, name, patch):
        work = tempfile.mkdtemp(prefix="st-", dir=os.environ.get("VERIF_WORK") or tempfile.gettempdir())
        try:
            scratch = os.path.join(work, "repo")
            shutil.copytree("/repo", scratch, ignore=shutil.ignore_patterns("target", ".git"))
            p = subprocess.run(["patch", "-p1", "-s", "-i", patch], cwd=scratch, capture_output=True, text=True)
            if p.returncode != 0:
                return kind, name, "skipped (patch no longer applies)"
            e2 = dict(os.environ, VERIF_EVIDENCE_DIR=os.path.join(work, "ev"), VERIF_NO_SELFTEST="1", PYTHONHASHSEED="0")
            r = subprocess.run([sys.executable, os.path.join(HERE, "check.py"), pid, "--tier", "quick", "--repo", scratch],
                               capture_output=True, text=True, env=e2)
            if kind in ("mutants", "seeded"):
                return kind, name, "reported" if r.returncode == 1 else "MISSED"
            return kind, name, "silent" if r.returncode == 0 else "FALSE ALARM"
        finally:
            shutil.rmtree(work, ignore_errors=True)
    with cf.ThreadPoolExecutor(max_workers=12) as ex:
        for kind, name, res in ex.map(lambda j: one(*j), jobs):
            out[kind][name] = res
    bad = [n for n, r in out["mutants"].items() if r == "MISSED"] + [n for n, r in out["refactors"].items() if r == "FALSE ALARM"] \
        + [n for n, r in out["seeded"].items() if r == "MISSED"]
    out["summary"] = "mutants reported %d/%d, seeded changes reported %d/%d, refactors silent %d/%d" % (
        sum(1 for r in out["mutants"].values() if r == "reported"), len(out["mutants"]),
        sum(1 for r in out["seeded"].values() if r == "reported"), len(out["seeded"]),
        sum(1 for r in out["refactors"].values() if r == "silent"), len(out["refactors"]))
    print("SELFTEST %s: %s%s" % (pid, out["summary"], (" ; attention: " + ", ".join(bad)) if bad else ""))
    return out


def main():
    ap = argparse.ArgumentParser()
    ap.add_argument("pid")
    ap.add_argument("--tier", default=os.environ.get("VERIF_TIER", "quick"))
    ap.add_argument("--repo", default=os.environ.get("VERIF_REPO", "/repo"))
    a = ap.parse_args()
    seed = int(os.environ.get("VERIF_SEED", "0") or 0)
    env = harness.Env(a.repo)
    pids = ALL if a.pid == "all" else [a.pid]
    bad = 0
    for pid in pids:
        bad += run_property(env, pid, a.tier, seed)
    sys.exit(1 if bad else 0)


if __name__ == "__main__":
    main()
