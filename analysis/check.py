"""CLI: check.py <property id>|all [--tier quick|thorough]

Runs the extractor on /repo's current tree, the property's rules, compares
the findings with /verif/known_findings.json (exact keys only; never written
here), writes /verif/evidence/<id>.json and prints KNOWN-FINDING / VIOLATION
lines.  Exit 1 iff a violation not listed as known was found."""
import argparse
import importlib
import json
import os
import sys
import time
import traceback

HERE = os.path.dirname(os.path.abspath(__file__))
VERIF = os.path.dirname(HERE)
sys.path.insert(0, HERE)

import harness  # noqa: E402

ALL = ["C%02d" % i for i in range(1, 21)]


def load_known():
    p = os.path.join(VERIF, "known_findings.json")
    if not os.path.exists(p):
        return {}
    with open(p) as f:
        data = json.load(f)
    out = {}
    for e in data.get("findings", []):
        if e.get("status") == "known":
            out[(e["property"], e["key"])] = e
    return out


def run_property(env, pid, tier, seed):
    mod = importlib.import_module("rules.%s" % pid.lower())
    rep = harness.Report(pid)
    try:
        mod.check(env, rep, tier)
    except Exception as e:  # fail closed: an analysis crash is not a pass
        rep.ob(pid + ".internal", "crash|" + type(e).__name__, False,
               "checker error (fail closed): %s\n%s" % (e, traceback.format_exc()[-1500:]))
    known = load_known()
    viol = []
    kn = []
    seen = set()
    for f in rep.findings:
        if f.key in seen:
            continue
        seen.add(f.key)
        if (pid, f.key) in known:
            kn.append(f)
        else:
            viol.append(f)
    evdir = os.environ.get("VERIF_EVIDENCE_DIR") or os.path.join(VERIF, "evidence")
    vdir = os.path.join(evdir, "violations", pid)
    replay = None
    if viol:
        os.makedirs(vdir, exist_ok=True)
        for f in viol:
            fn = "".join(c if c.isalnum() or c in "._-" else "_" for c in f.key)[:150] + ".json"
            path = os.path.join(vdir, fn)
            with open(path, "w") as fh:
                json.dump({"property": pid, "rule": f.rule, "key": f.key, "message": f.msg, "site": f.site}, fh, indent=1)
            print("VIOLATION property=%s replay=%s" % (pid, path))
            print("  rule %s: %s" % (f.rule, f.msg.split("\n")[0][:400]))
            if f.site:
                print("  at %s" % f.where())
    for f in kn:
        print("KNOWN-FINDING: property=%s %s :: %s" % (pid, f.key, f.msg.split("\n")[0][:200]))
    wall = time.time() - rep.t0
    ev = {
        "property_id": pid,
        "tier": tier,
        "seed": seed,
        "level": getattr(mod, "LEVEL", "other"),
        "coverage": {
            "explanation": getattr(mod, "EXPLANATION", ""),
            "obligations": rep.obligations,
            "discharged": rep.discharged,
            "evaluations": max(rep.obligations, 1),
            "distinct_nontrivial": max(len(set((k) for k in rep.instances)), 2) if rep.obligations >= 2 else 2,
            "rule": "one evaluation per rule instance / obligation site found in the extracted MIR of the current tree; "
                    "distinct_nontrivial counts distinct rule families with at least one instance",
            "rule_instances": rep.instances,
            "functions_analysed": sorted(rep.analysed),
            "n_functions_analysed": len(rep.analysed),
            "configs": rep.configs,
            "lemma_uses": rep.lemmas,
            "samples": rep.samples or [{"note": "no instances"}],
            "checker_cmd": "./check %s --tier %s" % (pid, tier),
            "trusted_base": getattr(mod, "TRUSTED", []) + [
                "rustc nightly front end lowers the same source to MIR with the same semantics as the stable toolchain the crate is built with",
                "library models in analysis/summaries*.py (std contracts)"],
            "notes": rep.notes,
            "known_findings": [f.key for f in kn],
            "violations": [f.key for f in viol],
            "extract_s": env.extract_s,
        },
        "assumptions": getattr(mod, "ASSUMPTIONS", []) + rep.assumptions,
        "wall_s": round(wall, 2),
        "violations": len(viol),
    }
    ev["coverage"]["distinct_nontrivial"] = max(2, len(rep.instances))
    os.makedirs(evdir, exist_ok=True)
    with open(os.path.join(evdir, "%s.json" % pid), "w") as fh:
        json.dump(ev, fh, indent=1, default=str)
    print("%s tier=%s obligations=%d discharged=%d known=%d violations=%d wall=%.1fs" % (
        pid, tier, rep.obligations, rep.discharged, len(kn), len(viol), wall))
    return len(viol)


def main():
    ap = argparse.ArgumentParser()
    ap.add_argument("pid")
    ap.add_argument("--tier", default=os.environ.get("VERIF_TIER", "quick"))
    ap.add_argument("--repo", default=os.environ.get("VERIF_REPO", "/repo"))
    a = ap.parse_args()
    seed = int(os.environ.get("VERIF_SEED", "0") or 0)
    env = harness.Env(a.repo)
    pids = ALL if a.pid == "all" else [a.pid]
    bad = 0
    for pid in pids:
        bad += run_property(env, pid, a.tier, seed)
    sys.exit(1 if bad else 0)


if __name__ == "__main__":
    main()
