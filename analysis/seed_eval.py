"""seed_eval.py <property id> <k> [<src dir>]: confirm a seeded change
(/tmp/seed/<id>/OUT/<k>) in a scratch copy of /repo - demo passes without the
patch, existing tests pass with it, demo fails with it - then run every check
against it and file it under /verif/seeded/<id>-<k>/ with meta.json."""
import json, os, shutil, subprocess, sys, tempfile, time
HERE = os.path.dirname(os.path.abspath(__file__))
VERIF = os.path.dirname(HERE)


def sh(cmd, cwd, env=None, timeout=1800):
    p = subprocess.run(cmd, cwd=cwd, capture_output=True, text=True, env=env, timeout=timeout)
    return p.returncode, p.stdout + p.stderr


def main():
    pid, k = sys.argv[1], sys.argv[2]
    src = sys.argv[3] if len(sys.argv) > 3 else "/tmp/seed/%s/OUT/%s" % (pid, k)
    name = "%s-%s" % (pid, k)
    work = tempfile.mkdtemp(prefix="seed-")
    scratch = os.path.join(work, "repo")
    meta = {"property": pid, "name": name, "confirmed": {}, "ran": []}
    try:
        shutil.copytree("/repo", scratch, ignore=shutil.ignore_patterns("target", ".git"))
        os.makedirs(os.path.join(scratch, "tests"), exist_ok=True)
        demo = "demo_%s_%s" % (pid, k)
        shutil.copy(os.path.join(src, "demo.rs"), os.path.join(scratch, "tests", demo + ".rs"))
        env = dict(os.environ, CARGO_TARGET_DIR=os.path.join(work, "tgt"), CARGO_NET_OFFLINE="true")
        rc, out = sh(["cargo", "test", "--offline", "--test", demo], scratch, env)
        meta["confirmed"]["demo_passes_without_change"] = rc == 0
        meta["ran"].append("cargo test --offline --test %s (unmodified): rc=%d" % (demo, rc))
        rc, out = sh(["patch", "-p1", "-s", "-i", os.path.join(src, "patch.diff")], scratch)
        meta["confirmed"]["patch_applies"] = rc == 0
        if rc != 0:
            meta["patch_error"] = out[-400:]
        rc, out = sh(["cargo", "test", "--offline", "--lib"], scratch, env)
        meta["confirmed"]["existing_tests_pass_with_change"] = rc == 0 and "49 passed" in out
        meta["ran"].append("cargo test --offline --lib (with change): rc=%d" % rc)
        rc, out = sh(["cargo", "test", "--offline", "--test", demo], scratch, env)
        meta["confirmed"]["demo_fails_with_change"] = rc != 0
        meta["ran"].append("cargo test --offline --test %s (with change): rc=%d" % (demo, rc))
        os.remove(os.path.join(scratch, "tests", demo + ".rs"))
        shutil.rmtree(os.path.join(work, "tgt"), ignore_errors=True)
        env2 = dict(os.environ, VERIF_EVIDENCE_DIR=os.path.join(work, "ev"), PYTHONHASHSEED="0")
        rc, out = sh([sys.executable, os.path.join(HERE, "check.py"), "all", "--repo", scratch], VERIF, env2)
        caught = {}
        cur = None
        for l in out.splitlines():
            if l.startswith("VIOLATION property="):
                cur = l.split("property=")[1].split()[0]
                caught.setdefault(cur, [])
            elif l.startswith("  rule ") and cur:
                caught[cur].append(l.strip()[:260])
        meta["checks_rc"] = rc
        meta["caught_by"] = {p: sorted(set(v))[:4] for p, v in caught.items()}
        meta["ran"].append("./check all --repo <scratch with change>: rc=%d" % rc)
        dst = os.path.join(VERIF, "seeded", name)
        os.makedirs(dst, exist_ok=True)
        shutil.copy(os.path.join(src, "patch.diff"), os.path.join(dst, "patch.diff"))
        shutil.copy(os.path.join(src, "demo.rs"), os.path.join(dst, "demo.rs"))
        mt = os.path.join(src, "meta.txt")
        meta["needs"] = open(mt).read()[:1500] if os.path.exists(mt) else ""
        json.dump(meta, open(os.path.join(dst, "meta.json"), "w"), indent=1)
        ok = all(meta["confirmed"].values())
        print("%s confirmed=%s caught_by=%s" % (name, ok, sorted(caught)))
        for p, v in caught.items():
            for x in v[:2]:
                print("     ", p, x[:220])
        if not ok:
            print("     confirmation:", meta["confirmed"])
    finally:
        shutil.rmtree(work, ignore_errors=True)


if __name__ == "__main__":
    main()
