"""Syntactic value provenance inside one small MIR body: follow an operand
backwards through moves, copies, borrows, single-field wrappers and calls.
Returns the list of calls the value passed through (callee pretty paths) and
the terminal it starts from.  Fails (returns None) when a local has more than
one definition on non-cleanup blocks: the rule using it then fails closed."""


def _defs(body):
    d = {}
    for bi, bb in enumerate(body["blocks"]):
        if bb.get("cleanup"):
            continue
        for st in bb["stmts"]:
            if st["k"] == "assign":
                d.setdefault(st["place"]["l"], []).append(("stmt", st))
        t = bb["term"]
        if t["k"] == "call" and t.get("dest") is not None:
            d.setdefault(t["dest"]["l"], []).append(("call", t))
    return d


def callee_path(t):
    return (t.get("resolved") or t.get("callee") or {}).get("path", "?")


def trace(body, op, limit=40, _depth=0):
    """-> (steps, terminal) ; steps: list of ('call', path, argindex) / ('wrap', adt::variant) / ('proj', text)
    terminal: ('arg', local, projection-text) | ('const', ..) | ('call', path) for a call with no traced argument
    | ('unknown', why)"""
    defs = _defs(body)
    steps = []
    cur = op
    for _ in range(limit):
        if cur["k"] == "const":
            return steps, ("const", cur.get("ty"))
        pl = cur["place"]
        proj = [p for p in pl["p"]]
        l = pl["l"]
        ptxt = "".join("*" if p["k"] == "deref" else ".%s" % p.get("i") if p["k"] == "field" else "[%s]" % p["k"] for p in proj)
        if 1 <= l <= body["arg_count"]:
            return steps, ("arg", l, ptxt)
        if any(p["k"] not in ("deref", "field", "downcast") for p in proj):
            return steps, ("unknown", "projection " + ptxt)
        ds = defs.get(l, [])
        if len(ds) > 1 and _depth < 3:
            # a value merged from the arms of a match / if: follow the one arm that carries data when all the
            # others only produce a default (spelled-out unwrap_or_default / unwrap_or(Vec::new()))
            real = []
            for kind_, d_ in ds:
                if kind_ == "call":
                    pth = callee_path(d_)
                    if not d_["args"] and (pth.endswith("::new") or pth.endswith("::default")):
                        continue
                    sub = trace(body, d_["args"][0], limit, _depth + 1) if d_["args"] else ([], ("call", pth))
                    real.append(([("call", pth, len(d_["args"]))] + sub[0], sub[1]))
                else:
                    rv_ = d_["rv"]
                    if rv_["k"] == "use" and rv_["op"]["k"] == "const":
                        continue
                    if rv_["k"] == "use":
                        real.append(trace(body, rv_["op"], limit, _depth + 1))
                    else:
                        real.append(([], ("unknown", "rvalue " + rv_["k"])))
            if len(real) == 1:
                steps.append(("alt-default", len(ds) - 1))
                steps.extend(real[0][0])
                return steps, real[0][1]
            return steps, ("unknown", "local _%d has %d definitions" % (l, len(ds)))
        if len(ds) != 1:
            return steps, ("unknown", "local _%d has %d definitions" % (l, len(ds)))
        kind, d = ds[0]
        if any(p["k"] == "downcast" for p in proj):
            # the payload of a matched Ok / Some: the value itself
            steps.append(("unwrap-arm", ptxt))
            proj = [p for p in proj if p["k"] not in ("downcast", "field")]
        fields = [p for p in proj if p["k"] == "field"]
        if fields:
            # a field of a locally built aggregate (tuple / struct literal): follow that operand
            if kind == "stmt" and d["rv"]["k"] == "aggregate" and len(fields) == 1 and proj[0]["k"] == "field" \
                    and fields[0].get("i") is not None and fields[0]["i"] < len(d["rv"]["ops"]):
                cur = d["rv"]["ops"][fields[0]["i"]]
                continue
            steps.append(("proj", ptxt))
        if kind == "call":
            path = callee_path(d)
            if not d["args"]:
                return steps, ("call", path)
            steps.append(("call", path, len(d["args"])))
            # the value of interest travels in the first argument (receiver); further arguments are
            # reported in the step so that the rule can refuse callees that mix in other data
            cur = d["args"][0]
            if cur["k"] == "const":
                return steps, ("call", path)
            continue
        rv = d["rv"]
        k = rv["k"]
        if k == "use":
            cur = rv["op"]
        elif k in ("ref", "addr_of", "raw_ptr"):
            cur = {"k": "copy", "place": rv["place"]}
        elif k == "aggregate" and len(rv["ops"]) == 1 and rv["kind"].get("k") == "adt":
            steps.append(("wrap", "%s::%s" % (rv["kind"]["path"], rv["kind"].get("vname"))))
            cur = rv["ops"][0]
        elif k == "cast":
            steps.append(("cast", rv.get("kind", "?")))
            cur = rv["op"]
        else:
            return steps, ("unknown", "rvalue " + k)
    return steps, ("unknown", "chain too long")
