"""Import behaviour-preserving changes written by a sub-agent into the refactor corpus:
   refac_import.py <group name> <dir with OUT/<k>/{patch.diff,meta.txt}>
Each patch is copied to refactors/x_<group>_<k>.diff and registered in refactors/index.json
(the claim 'behaviour-preserving' is the sub-agent's; refactor_test.py confirms the crate's tests pass)."""
import glob, json, os, shutil, sys
HERE = os.path.dirname(os.path.abspath(__file__))
RF = os.path.join(os.path.dirname(HERE), "refactors")
g, src = sys.argv[1], sys.argv[2]
idx = json.load(open(os.path.join(RF, "index.json")))
names = []
for d in sorted(glob.glob(os.path.join(src, "OUT", "*"))):
    pf = os.path.join(d, "patch.diff")
    if not os.path.exists(pf) or os.path.getsize(pf) == 0:
        continue
    name = "x_%s_%s" % (g, os.path.basename(d))
    shutil.copy(pf, os.path.join(RF, name + ".diff"))
    why = open(os.path.join(d, "meta.txt")).read()[:1500] if os.path.exists(os.path.join(d, "meta.txt")) else ""
    idx[name] = {"file": "(sub-agent)", "why": why}
    names.append(name)
json.dump(idx, open(os.path.join(RF, "index.json"), "w"), indent=1, sort_keys=True)
print(" ".join(names))
