"""helpers shared by the observe rules (C14, C15.4)"""
from harness import *
from absdom import Aff


def fields_projected(prog, body, adt_path, subst=None):
    """names of the fields of `adt_path` that the body projects (reads or writes)"""
    a = prog.adts.get(adt_path)
    if a is None:
        return None
    names = [f["name"] for f in a["variants"][0]["fields"]]
    out = set()

    def place(p):
        ty = prog.ty(body["locals"][p["l"]]["ty"], subst)
        for e in p["p"]:
            k = e["k"]
            if k == "deref":
                ty = ty[2] if ty and ty[0] in ("ref", "rawptr") else None
            elif k == "field":
                if ty and ty[0] == "adt" and ty[1] == adt_path and e["i"] < len(names):
                    out.add(names[e["i"]])
                ty = prog.ty(e["ty"], subst)
            elif k in ("index", "constindex"):
                ty = ty[1] if ty and ty[0] in ("slice", "array") else None
            elif k == "downcast":
                pass
            else:
                ty = None

    def op(o):
        if o and o.get("k") in ("copy", "move"):
            place(o["place"])
    for bb in body["blocks"]:
        if bb["cleanup"]:
            continue
        for s in bb["stmts"]:
            if s["k"] == "assign":
                place(s["place"])
                rv = s["rv"]
                for key in ("op", "a", "b"):
                    if key in rv and isinstance(rv[key], dict):
                        op(rv[key])
                if "place" in rv:
                    place(rv["place"])
                for o in rv.get("ops", []):
                    op(o)
        t = bb["term"]
        for o in t.get("args", []):
            op(o)
        if "op" in t:
            op(t["op"])
        if "dest" in t and t["dest"]:
            place(t["dest"])
    return out


EQ_PATHS = ("core::cmp::PartialEq::eq", "core::cmp::PartialEq::ne",
            "alloc::vec::partial_eq::<impl core::cmp::PartialEq<[U]> for alloc::vec::Vec<T, A>>::eq",
            "alloc::vec::partial_eq::<impl core::cmp::PartialEq<alloc::vec::Vec<U, A2>> for alloc::vec::Vec<T, A1>>::eq",
            "<alloc::string::String as core::cmp::PartialEq>::eq",
            "core::cmp::impls::<impl core::cmp::PartialEq<&B> for &A>::eq")


def track_equalities(I):
    """library / user equality tests return a fresh boolean that is remembered
    (per path) so that rules can tell under which equalities a path runs"""
    def model(I_, st, call):
        b = I_.fresh_int(st, "eq", (1, False))
        st.ghost["eqs"] = tuple(st.ghost.get("eqs", ())) + ((b.aff.t[0][0], call.path, tuple(repr(a) for a in call.args), call.ctx.fid),)
        if call.path.endswith("::ne"):
            return [(st, IntV(Aff.const(1) - b.aff, (1, False), cond=("cmp", "Eq", b.aff, Aff.const(0))))]
        return [(st, IntV(b.aff, (1, False), cond=("cmp", "Ne", b.aff, Aff.const(0))))]
    for p in EQ_PATHS:
        I.extra_models[p] = model


def eqs_all_true(s, ctx=None):
    """(number, all true) of the equality tests made during the activation ctx"""
    es = s.ghost.get("eqs", ())
    if ctx is not None:
        es = [e for e in es if e[3][:len(ctx.fid)] == ctx.fid and int(e[0].split("#")[-1]) > ctx.enter_n]
    return len(es), all(s.entails(Aff.sym(e[0]) - 1) for e in es)


def observer_invariant(prog):
    """type invariant for observe::Observer: the pending message id is materialised (Some payload named) when an observer
    value is first looked at, so that a test made on a *copy* of the field (`x.message_id.is_some_and(..)`,
    `x.message_id == Some(id)`) talks about the same number as the field itself"""
    from absdom import EnumV, StructV, TopV

    def inv(I, st, ty, fts, hint):
        vals = [TopV(t) for t in fts]
        a = prog.adts.get("observe::Observer")
        for i, f in enumerate(a["variants"][0]["fields"]):
            t = fts[i]
            if f["name"] == "message_id" and t is not None and t[0] == "adt" and t[1] == "core::option::Option" and t[2] and I.int_ty(t[2][0]) is not None:
                pv = I.fresh_int(st, hint + ".pending", I.int_ty(t[2][0]))
                vals[i] = EnumV("core::option::Option", {0: StructV([]), 1: StructV([pv])}, t)
        return StructV(vals)
    return inv
