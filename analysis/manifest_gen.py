"""Regenerates /verif/MANIFEST.json from the rule modules present."""
import importlib
import json
import os
import sys

HERE = os.path.dirname(os.path.abspath(__file__))
VERIF = os.path.dirname(HERE)
sys.path.insert(0, HERE)

props = [json.loads(l) for l in open(os.path.join(VERIF, "properties.jsonl"))]
checks = []
na = []
NOT_CLAIMED = {}
for p in props:
    pid = p["id"]
    modf = os.path.join(HERE, "rules", pid.lower() + ".py")
    if not os.path.exists(modf):
        na.append({"property_id": pid, "reason": NOT_CLAIMED.get(pid, "rules for this property are not built yet (see DESIGN.md section 8); nothing is claimed")})
        continue
    m = importlib.import_module("rules." + pid.lower())
    checks.append({
        "property_id": pid,
        "quick_cmd": "./check %s --tier quick" % pid,
        "thorough_cmd": "./check %s --tier thorough" % pid,
        "evidence_file": "evidence/%s.json" % pid,
        "replay_cmd_template": "cat {path}",
        "engine": "static-mir",
        "level_claimed": {
            "category": getattr(m, "LEVEL", "other"),
            "text": getattr(m, "CLAIM", getattr(m, "EXPLANATION", "")),
            "design_ref": "DESIGN.md section 4 (plan) and section 10 (as built; rule families and take-overs in 10.16-10.22), " + pid,
        },
        "level_note": getattr(m, "NOT_DECIDED", "") + " Trusted: rustc nightly MIR lowering equals the stable build's semantics; library models in analysis/summaries*.py; " + "; ".join(getattr(m, "ASSUMPTIONS", [])),
        "technique": getattr(m, "TECHNIQUE", "static analysis: abstract interpretation / table extraction over rustc MIR"),
    })
man = {
    "version": 1,
    "setup_cmd": "cd driver && CARGO_NET_OFFLINE=true cargo build --offline -q",
    "hooks": {
        "guard": "coap_lite_verif",
        "enable": "none needed: static analysis reads /repo's MIR through a rustc driver (RUSTC_WORKSPACE_WRAPPER under cargo +nightly check) and observes nothing at run time; no hook commits exist",
        "baseline_off_cmd": "cd /repo && cargo test --workspace --no-fail-fast --offline",
        "source_commits": [],
        "add_only": True,
    },
    "engines": [
        {"name": "static-mir", "path": "analysis/", "serves_properties": [c["property_id"] for c in checks],
         "kind_free_text": "rustc_private MIR/HIR fact extractor (driver/) + Python abstract interpreter, table extraction, bit provenance and typestate rules over the facts; runs nothing of the analysed crate"},
    ],
    "checks": checks,
    "not_applicable": na,
    "notes": "Every check re-extracts facts from /repo's current working tree (fresh CARGO_TARGET_DIR per run). Known findings: known_findings.json (exact keys).",
}
json.dump(man, open(os.path.join(VERIF, "MANIFEST.json"), "w"), indent=1)
print("checks:", [c["property_id"] for c in checks], "na:", len(na))
