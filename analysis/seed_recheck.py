"""Re-run the owning property's check against every seeded change (scratch copies outside /repo and /verif)
and record in seeded/<id>/meta.json which rules report it today.  Usage: seed_recheck.py [--jobs N] [names]"""
import concurrent.futures as cf
import glob
import json
import os
import sys

HERE = os.path.dirname(os.path.abspath(__file__))
VERIF = os.path.dirname(HERE)
sys.path.insert(0, HERE)
import mutest


def one(d):
    name = os.path.basename(d)
    pid = name.split("-")[0]
    out, err = mutest.run_mutant(os.path.join(d, "patch.diff"), [pid], quiet=True)
    if err:
        return name, None, err
    rc, viol, tail = out[pid]
    rules = sorted(set(l.split("rule ")[1].split(":")[0] for l in viol if "rule " in l))
    return name, rc == 1, rules


def main():
    args = [a for a in sys.argv[1:] if not a.startswith("--")]
    jobs = 12
    if "--jobs" in sys.argv:
        jobs = int(sys.argv[sys.argv.index("--jobs") + 1])
        args = [a for a in args if a != str(jobs)]
    dirs = sorted(glob.glob(os.path.join(VERIF, "seeded", "C*-*")))
    if args:
        dirs = [d for d in dirs if os.path.basename(d) in args]
    missed = []
    with cf.ThreadPoolExecutor(max_workers=jobs) as ex:
        for name, caught, rules in ex.map(one, dirs):
            mp = os.path.join(VERIF, "seeded", name, "meta.json")
            meta = json.load(open(mp))
            if caught is None:
                print("%-8s patch no longer applies: %s" % (name, str(rules)[:100]))
                meta["recheck"] = "patch no longer applies to the current tree"
            else:
                print("%-8s %s %s" % (name, "reported by own property" if caught else "NOT reported by own property", rules))
                meta["own_property_reports"] = bool(caught)
                meta["own_property_rules"] = rules
                if not caught:
                    missed.append(name)
            json.dump(meta, open(mp, "w"), indent=1)
    print("own property reports %d / %d; not: %s" % (len(dirs) - len(missed), len(dirs), missed))


if __name__ == "__main__":
    main()
