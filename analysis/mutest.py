"""Apply a patch to a scratch copy of /repo (outside /repo and /verif), run the
given property checks against it, remove the copy.  Usage:
   mutest.py <patch.diff> <pid> [<pid>...]   -> prints per-property verdicts
Exit status 0 if at least one of the checks reported a violation."""
import os
import shutil
import subprocess
import sys
import tempfile

HERE = os.path.dirname(os.path.abspath(__file__))
VERIF = os.path.dirname(HERE)


def run_mutant(patch, pids, tier="quick", repo="/repo", quiet=False):
    work = tempfile.mkdtemp(prefix="mut-", dir=os.environ.get("VERIF_WORK") or tempfile.gettempdir())
    scratch = os.path.join(work, "repo")
    evd = os.path.join(work, "evidence")
    try:
        shutil.copytree(repo, scratch, ignore=shutil.ignore_patterns("target", ".git"))
        p = subprocess.run(["patch", "-p1", "-s", "-i", os.path.abspath(patch)], cwd=scratch, capture_output=True, text=True)
        if p.returncode != 0:
            return None, "patch does not apply: " + p.stdout + p.stderr
        out = {}
        for pid in pids:
            env = dict(os.environ, VERIF_EVIDENCE_DIR=evd, PYTHONHASHSEED="0")
            r = subprocess.run([sys.executable, os.path.join(HERE, "check.py"), pid, "--tier", tier, "--repo", scratch],
                               capture_output=True, text=True, env=env)
            viol = [l for l in r.stdout.splitlines() if l.startswith("VIOLATION") or l.startswith("  rule")]
            out[pid] = (r.returncode, viol, r.stdout[-2000:] + r.stderr[-2000:])
        return out, None
    finally:
        shutil.rmtree(work, ignore_errors=True)


if __name__ == "__main__":
    patch = sys.argv[1]
    pids = sys.argv[2:]
    out, err = run_mutant(patch, pids)
    if err:
        print(err)
        sys.exit(2)
    caught = False
    for pid, (rc, viol, tail) in out.items():
        print("%s: rc=%d %s" % (pid, rc, "CAUGHT" if rc == 1 else "missed"))
        for l in viol[:6]:
            print("   ", l[:300])
        if rc not in (0, 1):
            print(tail)
        caught = caught or rc == 1
    sys.exit(0 if caught else 1)
