"""record_fix.py <property> <id> <commit> <what failed>: append a fixed: entry to known_findings.json"""
import json, sys, os
p = os.path.join(os.path.dirname(os.path.dirname(os.path.abspath(__file__))), "known_findings.json")
d = json.load(open(p))
pid, fid, commit, what = sys.argv[1:5]
d["findings"].append({"status": "fixed", "property": pid, "id": fid, "commit": commit,
                      "line": "fixed: property=%s %s %s" % (pid, commit, what)})
json.dump(d, open(p, "w"), indent=1)
