"""Loader for the extractor's fact file: bodies, types, ADTs, impls, call
resolution (per instantiation) and a MIR pretty printer for diagnostics."""
import json

USIZE_BITS = 64


class Program:
    def __init__(self, facts):
        self.facts = facts
        self.config = facts.get("config", "?")
        self.types = facts["types"]
        self.bodies = {}
        for b in facts["bodies"]:
            self.bodies[b["id"]] = b
        self.adts = {}
        for a in facts["adts"]:
            self.adts[a["path"]] = a
        self.impls = facts["impls"]
        self.consts = {c["path"]: c for c in facts["consts"]}
        self.consts_by_id = {c["id"]: c for c in facts["consts"]}
        self._tycache = {}
        # impl lookup: (trait path, self type key) -> [impl]
        self.impl_ix = {}
        for im in self.impls:
            tr = im.get("trait")
            self.impl_ix.setdefault(tr, []).append(im)
        self.impl_by_id = {im["id"]: im for im in self.impls}

    # ------------------------------------------------------------ types --
    def ty(self, ix, subst=None):
        """structural, hashable type with type parameters substituted"""
        if subst is None:
            c = self._tycache.get(ix)
            if c is not None:
                return c
        t = self.types[ix]
        k = t["k"]
        if k == "int":
            r = ("int", t["bits"], t["signed"])
        elif k in ("bool", "char", "str", "never", "float"):
            r = (k,)
        elif k == "adt":
            r = ("adt", t["path"], tuple(self.ty(a, subst) for a in t["args"]), t["adt"])
        elif k == "ref":
            r = ("ref", t["mut"], self.ty(t["to"], subst))
        elif k == "rawptr":
            r = ("rawptr", t["mut"], self.ty(t["to"], subst))
        elif k == "slice":
            r = ("slice", self.ty(t["of"], subst))
        elif k == "array":
            r = ("array", self.ty(t["of"], subst), t["len"])
        elif k == "tuple":
            r = ("tuple", tuple(self.ty(a, subst) for a in t["of"]))
        elif k == "param":
            if subst and t["name"] in subst:
                r = subst[t["name"]]
            else:
                r = ("param", t["name"])
        elif k == "closure":
            r = ("closure", t["id"], tuple(self.ty(a, subst) for a in t["upvars"]),
                 tuple(self.ty(a, subst) for a in t["parent_args"]), t["path"])
        elif k == "fndef":
            r = ("fndef", t["fn"]["path"], t["fn"].get("id"), tuple(self.ty(a, subst) for a in t["fn"]["gargs"]))
        else:
            r = (k, t["s"])
        if subst is None:
            self._tycache[ix] = r
        return r

    def body_subst(self, body, gargs):
        """mapping generic param name -> type for a body instantiated with gargs"""
        names = body.get("generics", [])
        if not names:
            return None
        m = {}
        for i, nme in enumerate(names):
            if i < len(gargs):
                m[nme] = gargs[i]
        return m or None

    def adt_variants(self, path):
        a = self.adts.get(path)
        if a is None:
            return None
        return a["variants"]

    def variant_of_discr(self, path, val):
        vs = self.adt_variants(path)
        if vs is None:
            return None
        for i, v in enumerate(vs):
            if v["discr"] is not None and int(v["discr"]) == val:
                return i
        return None

    def discr_of_variant(self, path, vi):
        vs = self.adt_variants(path)
        if vs is None:
            return None
        d = vs[vi]["discr"]
        return int(d) if d is not None else None

    # ------------------------------------------------------- resolution --
    def find_impl_method(self, trait, self_ty, trait_args, name):
        for im in self.impl_ix.get(trait, []):
            st = self.ty(im["self_ty"])
            ta = tuple(self.ty(a) for a in im.get("trait_args", []))
            m = {}
            if not unify(st, self_ty, m):
                continue
            ok = True
            if trait_args is not None and len(ta) == len(trait_args):
                for a, b in zip(ta, trait_args):
                    if not unify(a, b, m):
                        ok = False
                        break
            if not ok:
                continue
            for it in im["items"]:
                if it["name"] == name and it["id"] in self.bodies:
                    return self.bodies[it["id"]], m
        return None, None

    def resolve_call(self, term, subst):
        """-> (body or None, gargs tuple, descr dict).  `subst` is the
        caller's instantiation."""
        callee = term.get("callee")
        if callee is None:
            return None, (), {"path": "<indirect>", "indirect": True}
        res = term.get("resolved")
        if res is not None and res.get("local") and res.get("id") in self.bodies \
                and term.get("resolved_kind") in ("item", "ClosureOnceShim"):
            gargs = tuple(self.ty(a, subst) for a in res["gargs"])
            return self.bodies[res["id"]], gargs, res
        gargs = tuple(self.ty(a, subst) for a in callee["gargs"])
        tr = callee.get("trait")
        if tr is not None and res is None:
            self_ty = gargs[0] if gargs else None
            if self_ty is not None and self_ty[0] != "param":
                targs = gargs[1:]
                nm = callee["name"]
                # closures
                if self_ty[0] == "closure" and tr.startswith("core::ops::function::Fn"):
                    b = self.bodies.get(self_ty[1])
                    if b is not None:
                        return b, self_ty[3], dict(callee, closure_call=True)
                if self_ty[0] == "ref" and self_ty[2][0] == "closure" and tr.startswith("core::ops::function::Fn"):
                    b = self.bodies.get(self_ty[2][1])
                    if b is not None:
                        return b, self_ty[2][3], dict(callee, closure_call=True, via_ref=True)
                b, m = self.find_impl_method(tr, self_ty, targs, nm)
                if b is not None:
                    names = b.get("generics", [])
                    ga = tuple(m.get(x, ("param", x)) for x in names)
                    return b, ga, dict(callee, via_impl=b["id"])
                # blanket Into / TryInto
                if tr == "core::convert::Into" and nm == "into" and len(targs) == 1:
                    b, m = self.find_impl_method("core::convert::From", targs[0], (self_ty,), "from")
                    if b is not None:
                        names = b.get("generics", [])
                        ga = tuple(m.get(x, ("param", x)) for x in names)
                        return b, ga, dict(callee, via_impl=b["id"])
                if tr == "core::convert::TryInto" and nm == "try_into" and len(targs) == 1:
                    b, m = self.find_impl_method("core::convert::TryFrom", targs[0], (self_ty,), "try_from")
                    if b is not None:
                        names = b.get("generics", [])
                        ga = tuple(m.get(x, ("param", x)) for x in names)
                        return b, ga, dict(callee, via_impl=b["id"])
        if res is not None:
            rg = tuple(self.ty(a, subst) for a in res["gargs"])
            # blanket Into::into resolved to the core impl: hop to From::from
            if res["path"].endswith("core::convert::Into<U>>::into") or res["path"] == "<T as core::convert::Into<U>>::into":
                if len(rg) == 2:
                    b, m = self.find_impl_method("core::convert::From", rg[1], (rg[0],), "from")
                    if b is not None:
                        names = b.get("generics", [])
                        ga = tuple(m.get(x, ("param", x)) for x in names)
                        return b, ga, dict(res, via_impl=b["id"])
            return None, rg, res
        return None, gargs, callee


def unify(pat, ty, m):
    """match a type pattern with params against a concrete type"""
    if pat[0] == "param":
        if pat[1] in m:
            return m[pat[1]] == ty
        m[pat[1]] = ty
        return True
    if ty is None or pat[0] != ty[0]:
        return False
    if pat[0] == "adt":
        if pat[1] != ty[1] or len(pat[2]) != len(ty[2]):
            return False
        return all(unify(a, b, m) for a, b in zip(pat[2], ty[2]))
    if pat[0] in ("ref", "rawptr"):
        return pat[1] == ty[1] and unify(pat[2], ty[2], m)
    if pat[0] == "slice":
        return unify(pat[1], ty[1], m)
    if pat[0] == "array":
        return pat[2] == ty[2] and unify(pat[1], ty[1], m)
    if pat[0] == "tuple":
        return len(pat[1]) == len(ty[1]) and all(unify(a, b, m) for a, b in zip(pat[1], ty[1]))
    return pat == ty


def tstr(t):
    k = t[0]
    if k == "int":
        return ("i" if t[2] else "u") + str(t[1])
    if k == "adt":
        return t[1] + ("<" + ", ".join(tstr(a) for a in t[2]) + ">" if t[2] else "")
    if k == "ref":
        return "&" + ("mut " if t[1] else "") + tstr(t[2])
    if k == "rawptr":
        return "*" + ("mut " if t[1] else "const ") + tstr(t[2])
    if k == "slice":
        return "[" + tstr(t[1]) + "]"
    if k == "array":
        return "[%s; %s]" % (tstr(t[1]), t[2])
    if k == "tuple":
        return "(" + ", ".join(tstr(a) for a in t[1]) + ")"
    if k == "param":
        return t[1]
    if k == "closure":
        return "{closure %s}" % t[1]
    if k == "fndef":
        return "fn{%s}" % t[1]
    if len(t) > 1 and isinstance(t[1], str):
        return t[1]
    return k


def load(path):
    with open(path) as f:
        return Program(json.load(f))


# ------------------------------------------------------------- printing --
class Printer:
    def __init__(self, prog):
        self.p = prog

    def ty(self, i):
        return self.p.types[i]["s"]

    def place(self, p):
        s = "_%d" % p["l"]
        for e in p["p"]:
            k = e["k"]
            if k == "deref":
                s = "(*%s)" % s
            elif k == "field":
                s += ".%d" % e["i"]
            elif k == "downcast":
                s = "(%s as %s)" % (s, e["name"])
            elif k == "index":
                s += "[_%d]" % e["l"]
            elif k == "constindex":
                s += "[%s%d]" % ("-" if e["from_end"] else "", e["off"])
            else:
                s += ".<%s>" % k
        return s

    def op(self, o):
        if o["k"] in ("copy", "move"):
            return o["k"] + " " + self.place(o["place"])
        if o["k"] == "const":
            if "int" in o:
                return "const %s_%s" % (o["int"], self.ty(o["ty"]))
            if "fn" in o:
                return "fn " + o["fn"]["path"]
            if "str" in o:
                return "const %r" % o["str"]
            return "const<%s>" % (o.get("dbg") or o.get("item") or self.ty(o["ty"]))
        return str(o)

    def rv(self, r):
        k = r["k"]
        if k == "use":
            return self.op(r["op"])
        if k == "ref":
            return ("&mut " if r["mut"] else "&") + self.place(r["place"])
        if k == "bin":
            return "%s(%s, %s)" % (r["op"], self.op(r["a"]), self.op(r["b"]))
        if k == "un":
            return "%s(%s)" % (r["op"], self.op(r["a"]))
        if k == "cast":
            return "%s as %s [%s]" % (self.op(r["op"]), self.ty(r["ty"]), r["kind"])
        if k == "discr":
            return "discriminant(%s)" % self.place(r["place"])
        if k == "aggregate":
            kk = r["kind"]
            nm = kk.get("path", kk["k"]) + ("::" + kk["vname"] if "vname" in kk else "")
            return "Agg[%s](%s)" % (nm, ", ".join(self.op(x) for x in r["ops"]))
        if k == "rawptr":
            return "&raw " + self.place(r["place"])
        if k == "repeat":
            return "[%s; %s]" % (self.op(r["op"]), r["count"])
        return str(r)

    def term(self, t):
        k = t["k"]
        if k == "call":
            c = t.get("callee", {})
            r = t.get("resolved")
            return "%s = CALL %s(%s) -> bb%s  RES=%s[%s]" % (
                self.place(t["dest"]), c.get("path", "<indirect>"),
                ", ".join(self.op(a) for a in t["args"]), t["t"],
                (r["path"] + ("#" + r.get("id", "")) if r else None), t.get("resolved_kind"))
        if k == "switch":
            return "switch %s %s else %s" % (self.op(t["op"]), t["arms"], t["otherwise"])
        if k == "assert":
            return "assert %s==%s %s(%s) -> bb%s" % (
                self.op(t["cond"]), t["expected"], t["msg"], ", ".join(self.op(a) for a in t["ops"]), t["t"])
        if k == "drop":
            return "drop %s -> bb%s" % (self.place(t["place"]), t["t"])
        if k == "goto":
            return "goto bb%s" % t["t"]
        return k

    def dump(self, b, out=print):
        out("fn %s | %s args=%d generics=%s" % (b["id"], b["path"], b["arg_count"], b["generics"]))
        for i, l in enumerate(b["locals"]):
            out("   let _%d: %s" % (i, self.ty(l["ty"])))
        for i, bb in enumerate(b["blocks"]):
            out(" bb%d%s:" % (i, " (cleanup)" if bb["cleanup"] else ""))
            for s in bb["stmts"]:
                if s["k"] == "assign":
                    out("    %s = %s   // L%d" % (self.place(s["place"]), self.rv(s["rv"]), s["span"]["l"]))
                else:
                    out("    %s" % s)
            out("    %s   // L%d" % (self.term(bb["term"]), bb["tspan"]["l"]))


if __name__ == "__main__":
    import sys
    prog = load(sys.argv[1])
    pr = Printer(prog)
    pat = sys.argv[2]
    for b in prog.facts["bodies"]:
        if pat in b["id"] or pat in b["path"]:
            pr.dump(b)
            print()
