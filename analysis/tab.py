"""TAB: finite-map extraction.  A conversion function is analysed once with an
unconstrained argument and without joining paths; every return path gives one
row (class of the argument -> result).  The classes partition the argument's
domain, so the table is exhaustive over the whole number / variant space."""
import interp
from absdom import (Aff, IntV, StructV, EnumV, Place, RefV, VecV, SliceV, TopV, OpaqueV, State, INF)
from harness import top_args


def vname(prog, path, vi):
    vs = prog.adt_variants(path)
    if vs is None or vi >= len(vs):
        return str(vi)
    return vs[vi]["name"]


def describe(prog, st, v, argsyms=None):
    """normalised description of an abstract value"""
    if isinstance(v, IntV):
        if v.aff.is_const():
            return {"int": v.aff.c}
        sg = v.aff.single()
        if sg is not None and sg[1] == 1 and sg[2] == 0:
            lo, hi = st.lo_hi(sg[0])
            if lo == hi:
                return {"int": lo}
            d = {"sym": sg[0], "range": [lo, hi]}
            ex = sorted(st.excl.get(sg[0], ()))
            if ex:
                d["excl"] = ex
            if argsyms and sg[0] in argsyms:
                d["input"] = argsyms[sg[0]]
            return d
        return {"expr": repr(v.aff)}
    if isinstance(v, EnumV):
        alts = []
        for vi, p in sorted(v.variants.items()):
            fields = []
            if isinstance(p, StructV):
                fields = [describe(prog, st, f, argsyms) for f in p.fields]
            alts.append({"variant": vname(prog, v.path, vi), "fields": fields})
        if len(alts) == 1:
            return alts[0]
        return {"any_of": alts}
    if isinstance(v, StructV):
        return {"struct": [describe(prog, st, f, argsyms) for f in v.fields]}
    if isinstance(v, RefV):
        return {"ref": describe(prog, st, st.cells.get(v.place.key) if not v.place.proj else None, argsyms)} if False else {"ref": repr(v.place)}
    if isinstance(v, TopV):
        return {"top": True}
    return {"other": type(v).__name__}


def leaf_variant(d):
    """('Response','Content') style path of a fully determined enum description"""
    out = []
    while isinstance(d, dict) and "variant" in d:
        out.append(d["variant"])
        if len(d["fields"]) == 1 and isinstance(d["fields"][0], dict) and "variant" in d["fields"][0]:
            d = d["fields"][0]
        else:
            break
    return tuple(out), d


def extract_table(prog, body, gargs=(), K=4096, by_ref=False, split_enum=False):
    """-> (rows, interp).  row = {'arg': description, 'ret': description}"""
    I = interp.Interp(prog, K=K)
    I.K_ret = 1 << 30
    st = State()
    subst = prog.body_subst(body, gargs)
    args = top_args(prog, body, subst)
    # materialise the (single) argument so that its symbols are known
    aty = prog.ty(body["locals"][1]["ty"], subst)
    a = I.mat(st, aty, "arg")
    argsyms = {}
    if isinstance(a, IntV):
        argsyms[a.aff.t[0][0]] = "arg"
    args[0] = a
    rows = []

    def hook(I_, ctx, outs):
        for s, rv in outs:
            av = s.cells.get((ctx.fid, 1))
            if isinstance(av, RefV):
                av = I_.read(s, av.place)
            syms = dict(argsyms)
            # payload symbols of a refined enum argument
            def walk(v, path):
                if isinstance(v, EnumV):
                    for vi, p in v.variants.items():
                        if isinstance(p, StructV):
                            for i, f in enumerate(p.fields):
                                walk(f, path + (vname(prog, v.path, vi), i))
                elif isinstance(v, IntV) and not v.aff.is_const():
                    sg = v.aff.single()
                    if sg:
                        syms[sg[0]] = "arg" + "".join(".%s" % x for x in path)
            walk(av, ())
            if isinstance(a, IntV):
                adesc = describe(prog, s, a, syms)
                adesc = refine_by_bits(I_, s, a, adesc)
            else:
                adesc = describe(prog, s, av, syms)
            rows.append({"arg": adesc, "ret": describe(prog, s, rv, syms)})
    I.return_hooks[body["id"]] = hook
    # an enum argument (possibly behind one reference) is partitioned by variant up front
    target = None
    if isinstance(a, RefV):
        pv = I.ensure(st, a.place, aty[2] if aty[0] == "ref" else None, "arg")
        if isinstance(pv, EnumV) and len(pv.variants) > 1:
            target = (a.place, pv)
    elif isinstance(a, EnumV) and len(a.variants) > 1:
        target = (None, a)
    if target is None:
        I.exec_body(body, gargs, args, st, None, "entry")
    else:
        place, ev = target

        def expand(vi, p, s_):
            """the payload of variant vi with every nested enum field fixed to one variant: all combinations
            (a helper that matches on a *copy* of the payload refines the copy, not the argument)"""
            if p is None and ev.ty is not None:
                fts = I.field_types(ev.ty, vi)
                p = StructV([TopV(t) for t in (fts or [])])
            if not isinstance(p, StructV):
                return [p]
            combos = [[]]
            for f in p.fields:
                fv = f
                if isinstance(fv, TopV) and fv.ty is not None and fv.ty[0] == "adt" and len(fv.ty) > 3 and fv.ty[3] == "enum":
                    fv = I.mat(s_, fv.ty, "arg.payload")
                if isinstance(fv, EnumV) and len(fv.variants) > 1 and all(q is None or (isinstance(q, StructV) and not q.fields) for q in fv.variants.values()):
                    alts = [EnumV(fv.path, {k: q}, fv.ty) for k, q in fv.variants.items()]
                else:
                    alts = [f]
                combos = [c + [a_] for c in combos for a_ in alts]
                if len(combos) > 512:
                    return [p]
            return [StructV(c) for c in combos]
        for vi, p0 in ev.variants.items():
          for p in expand(vi, p0, st):
            s2 = st.copy()
            one = EnumV(ev.path, {vi: p}, ev.ty)
            if place is not None:
                I.write(s2, place, one)
                I.exec_body(body, gargs, args, s2, None, "entry")
            else:
                I.exec_body(body, gargs, [one] + args[1:], s2, None, "entry")
    return rows, I


def int_table(rows):
    """for an integer-argument table: (dict value -> ret, default rows)
    default rows are those whose argument is a range (the wildcard arm)"""
    exact, default = {}, []
    for r in rows:
        a = r["arg"]
        if "int" in a:
            exact.setdefault(a["int"], []).append(r["ret"])
        else:
            default.append(r)
    return exact, default



def refine_by_bits(I, st, a, adesc):
    """an integer argument whose class on this path is fixed through values derived from its bits (`n >> 5`, `n & 0x1F`
    pinned by a match on the pair): the argument values consistent with those pinned fields are enumerated (finite
    domain, <= 2^16), which turns 'class 2, detail 5' back into the single number 69"""
    if not isinstance(adesc, dict) or "range" not in adesc or "sym" not in adesc:
        return adesc
    sym = adesc["sym"]
    lo, hi = adesc["range"]
    if hi - lo > 65535:
        return adesc
    excl = set(adesc.get("excl", ()))
    derived = []
    for x, inf in I.syminfo.items():
        if not (inf and inf[0] == "bits") or x not in st.bounds:
            continue
        bits = inf[1]
        if not all(b in (0, 1) or (isinstance(b, tuple) and b[1] == sym) for b in bits):
            continue
        if not any(isinstance(b, tuple) for b in bits):
            continue
        blo, bhi = st.lo_hi(x)
        bex = st.excl.get(x, frozenset())
        tlo = sum((1 if b == 1 else 0) << i for i, b in enumerate(bits))
        thi = sum((0 if b == 0 else 1) << i for i, b in enumerate(bits))
        if (blo, bhi) == (tlo, thi) and not bex:
            continue        # not constrained on this path
        derived.append((bits, blo, bhi, bex))
    if not derived:
        return adesc
    allowed = []
    for v in range(lo, hi + 1):
        if v in excl:
            continue
        ok = True
        for bits, blo, bhi, bex in derived:
            d = 0
            for i, b in enumerate(bits):
                bit = b if b in (0, 1) else (v >> b[2]) & 1
                d |= bit << i
            if d < blo or d > bhi or d in bex:
                ok = False
                break
        if ok:
            allowed.append(v)
    if not allowed:
        return adesc
    if len(allowed) == 1:
        return {"int": allowed[0]}
    nlo, nhi = allowed[0], allowed[-1]
    out = dict(adesc)
    out["range"] = [nlo, nhi]
    ex = sorted(set(range(nlo, nhi + 1)) - set(allowed))
    if ex:
        out["excl"] = ex
    else:
        out.pop("excl", None)
    return out
