"""Run the rustc_private extractor on a source tree and return the fact file.

Always uses a fresh CARGO_TARGET_DIR (removed afterwards) so that cargo's
freshness cache can never replay an old run; asserts that the fact file was
written by this invocation.
"""
import json
import os
import shutil
import subprocess
import sys
import tempfile
import time

VERIF = os.path.dirname(os.path.dirname(os.path.abspath(__file__)))
DRIVER_DIR = os.path.join(VERIF, "driver")
DRIVER = os.path.join(DRIVER_DIR, "target", "debug", "verif-driver")

CONFIGS = {
    "default": [],
    "nodefault": ["--no-default-features"],
    "udp": ["--features", "udp"],
}


def sysroot():
    return subprocess.check_output(
        ["rustc", "+nightly", "--print", "sysroot"], text=True
    ).strip()


def build_driver():
    if os.path.exists(DRIVER):
        src = os.path.join(DRIVER_DIR, "src", "main.rs")
        if os.path.getmtime(src) <= os.path.getmtime(DRIVER):
            return
    env = dict(os.environ, CARGO_NET_OFFLINE="true")
    subprocess.check_call(
        ["cargo", "build", "--offline", "-q"], cwd=DRIVER_DIR, env=env
    )


def work_root():
    base = os.environ.get("VERIF_WORK") or os.path.join(
        tempfile.gettempdir(), "verif-work"
    )
    os.makedirs(base, exist_ok=True)
    return base


def extract(repo="/repo", config="default", keep=None):
    """Returns (facts dict, wall seconds)."""
    build_driver()
    t0 = time.time()
    tgt = tempfile.mkdtemp(prefix="tgt-", dir=work_root())
    out = os.path.join(tgt, "facts.json")
    env = dict(os.environ)
    env.update(
        CARGO_NET_OFFLINE="true",
        LD_LIBRARY_PATH=os.path.join(sysroot(), "lib"),
        RUSTFLAGS="-Zmir-opt-level=0 -Coverflow-checks=on -Cdebug-assertions=off -Awarnings",
        RUSTC_WORKSPACE_WRAPPER=DRIVER,
        CARGO_TARGET_DIR=tgt,
        VERIF_FACTS_OUT=out,
        VERIF_CRATE="coap_lite",
    )
    env.pop("RUSTC_WRAPPER", None)
    cmd = ["cargo", "+nightly", "check", "--offline", "--lib", "-q"] + CONFIGS[config]
    try:
        p = subprocess.run(cmd, cwd=repo, env=env, capture_output=True, text=True)
        if p.returncode != 0 or not os.path.exists(out):
            raise RuntimeError(
                "extractor failed on %s [%s]:\n%s" % (repo, config, p.stderr[-4000:])
            )
        if os.path.getmtime(out) < t0 - 1:
            raise RuntimeError("stale fact file")
        with open(out) as f:
            facts = json.load(f)
        if keep:
            shutil.copy(out, keep)
    finally:
        shutil.rmtree(tgt, ignore_errors=True)
    facts["config"] = config
    return facts, time.time() - t0


if __name__ == "__main__":
    cfg = sys.argv[1] if len(sys.argv) > 1 else "default"
    keep = sys.argv[2] if len(sys.argv) > 2 else None
    repo = sys.argv[3] if len(sys.argv) > 3 else "/repo"
    f, w = extract(repo, cfg, keep)
    print(cfg, "bodies", len(f["bodies"]), "types", len(f["types"]), "adts", len(f["adts"]), "impls", len(f["impls"]), "%.1fs" % w)
