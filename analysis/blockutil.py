"""shared machinery for the block-handler structure rules (C08, C09, C10)"""
from harness import *
from absdom import Aff
from rules.c13 import bv_invariant, BV
import tab

HANDLER = "block_handler::BlockHandler::<Endpoint>::"


def state_fields(prog):
    """indices of the BlockState fields, located by type"""
    a = prog.adts.get("block_handler::BlockState")
    out = {}
    if a is None:
        return out
    for i, f in enumerate(a["variants"][0]["fields"]):
        ts = prog.types[f["ty"]]["s"]
        if ts == "core::option::Option<packet::Packet>":
            out["cached_response"] = i
        elif ts == "core::option::Option<alloc::vec::Vec<u8>>":
            out["buffer"] = i
        elif ts == "core::option::Option<block_handler::block_value::BlockValue>":
            out["last_block2"] = i
    return out


def idx(prog, adt, name):
    for i, f in enumerate(prog.adts[adt]["variants"][0]["fields"]):
        if f["name"] == name:
            return i
    return None


def fns_calling(prog, callee_path, prefix="block_handler::"):
    """crate functions under `prefix` that directly call `callee_path` (anchoring private helpers by what they do)"""
    out = []
    for b in prog.bodies.values():
        if b.get("promoted") or not b["path"].startswith(prefix) or "::tests::" in b["id"] or b.get("kind") == "Closure":
            continue
        for bb in b["blocks"]:
            t = bb["term"]
            if t["k"] == "call" and not bb["cleanup"]:
                p = (t.get("resolved") or t.get("callee") or {}).get("path")
                if p == callee_path:
                    out.append(b)
                    break
    return out


def fns_with_signature(prog, want, prefix="block_handler::"):
    """crate functions under `prefix` whose argument types (display strings) contain, in order, the given substrings
    (private helpers are anchored by what they take, not by their name or by which std function they happen to call)"""
    out = []
    for b in prog.bodies.values():
        if b.get("promoted") or not b["path"].startswith(prefix) or "::tests::" in b["id"] or b.get("kind") == "Closure":
            continue
        tys = [prog.types[b["locals"][i + 1]["ty"]]["s"] for i in range(b["arg_count"])]
        if len(tys) != len(want):
            continue
        if all(w in t if not w.startswith("=") else t == w[1:] for w, t in zip(want, tys)):
            out.append(b)
    return out


def find_negotiate(prog):
    """the block size negotiation: (Option<&BlockValue>, usize, usize, usize)"""
    return fns_with_signature(prog, ["core::option::Option<&block_handler::block_value::BlockValue>", "=usize", "=usize", "=usize"])


def find_serve(prog):
    """the function cutting one block out of a cached reply: (&mut CoapRequest, BlockValue, &Packet)"""
    return fns_with_signature(prog, ["&mut request::CoapRequest<", "=block_handler::block_value::BlockValue", "=&packet::Packet"])


def model_to_bytes(I_, st, call):
    """Packet::to_bytes as verified by C04: Ok(vector of some length) or Err(MessageError)"""
    s2 = st.copy()
    recv = call.args[0].place if call.args and isinstance(call.args[0], RefV) else None
    # was the payload out of the message when it was measured?  (a whole-message encoding is refused above
    # Packet::MAX_SIZE, so a size taken that way fails for large bodies)
    bare = False
    if recv is not None:
        pi = idx(I_.prog, "packet::Packet", "payload")
        pv = I_.read(st, recv.extend(("f", pi))) if pi is not None else None
        bare = isinstance(pv, VecV) and st.entails_eq(pv.len, Aff.const(0))
    n = I_.fresh(st, "len(encoded)", 4, (1 << 63) - 1, ("len", "encoded", recv, "bare" if bare else "with-payload"))
    dt = call.dest_ty
    ok = EnumV("core::result::Result", {0: StructV([VecV(Aff.sym(n), None, ("encoded",))])}, dt)
    er = EnumV("core::result::Result", {1: StructV([I_.mat(s2, dt[2][1] if dt and len(dt[2]) > 1 else None, "err")])}, dt)
    return [(st, ok), (s2, er)]


def last_more(s):
    """1 / 0 when the state decides the more flag of the block value built last, else None"""
    from absdom import holds
    v = s.cells.get(("gh", "last_more"))
    if not isinstance(v, IntV):
        return None
    if v.aff.is_const():
        return v.aff.c
    if v.cond is not None:
        if holds(s, v.cond, True):
            return 1
        if holds(s, v.cond, False):
            return 0
    lo, hi = s.range(v.aff)
    return lo if lo == hi else None


def upload_anchor(prog):
    """the function the Block1 (upload) rules are stated on: the one that splices upload blocks into the per-key
    buffer - or, when it has been split up (buffer handling moved into a state method, negotiation hoisted into the
    entry point), the nearest caller that still has the request in hand and reaches the size negotiation; in the
    last resort the public entry point intercept_request itself.
    -> (body, index of the request argument, index of the budget argument or None [= the handler's configured budget])"""
    cands = fns_calling(prog, "block_handler::extending_splice")
    if len(cands) != 1:
        return None
    negs = find_negotiate(prog)
    neg_id = negs[0]["id"] if len(negs) == 1 else None
    ir = find_body(prog, HANDLER + "intercept_request")
    from harness import reachable

    def shape(b):
        req = bud = None
        for i in range(b["arg_count"]):
            ts = prog.types[b["locals"][i + 1]["ty"]]["s"]
            if "request::CoapRequest" in ts:
                req = i
            if ts == "usize":
                bud = i
        return req, bud
    cur = cands[0]
    for _ in range(4):
        req, bud = shape(cur)
        reaches_neg = neg_id is None or any(x["id"] == neg_id for x in reachable(prog, cur))
        if req is not None and reaches_neg and (bud is not None or (ir is not None and cur["id"] == ir["id"])):
            return cur, req, bud
        callers = [b for b in prog.bodies.values() if not b.get("promoted") and b["path"].startswith("block_handler::") and "::tests::" not in b["id"]
                   and b.get("kind") != "Closure" and b["id"] != cur["id"]
                   and any(bb["term"]["k"] == "call" and not bb["cleanup"] and (bb["term"].get("resolved") or {}).get("id") == cur["id"] for bb in b["blocks"])]
        if len(callers) != 1:
            break
        cur = callers[0]
    if ir is not None:
        req, bud = shape(ir)
        if req is not None:
            return ir, req, None
    return None


def config_budget_place(prog, tr):
    hi = idx(prog, "block_handler::BlockHandler", "config")
    ci = idx(prog, "block_handler::BlockHandlerConfig", "max_total_message_size")
    a0 = tr.args[0] if tr.args else None
    if isinstance(a0, RefV) and hi is not None and ci is not None:
        return a0.place.extend(("f", hi), ("f", ci))
    return None


class Trace:
    """runs one handler entry point and records, per path (ghost marks) and
    globally (lists), the events the structure rules talk about"""

    def __init__(self, prog, entry, with_response=True, setup=None, body=None, req_arg=1):
        self.prog = prog
        self.body = body if body is not None else find_body(prog, HANDLER + entry)
        self.events = []
        self.ok = self.body is not None
        if not self.ok:
            return
        I = new_interp(prog)
        self.I = I
        self.serve_ids = set(b_["id"] for b_ in find_serve(prog))
        negs = find_negotiate(prog)
        self.neg_id = negs[0]["id"] if len(negs) == 1 else None
        I.type_invariants[BV] = bv_invariant
        I.no_join_bodies.add(self.body["id"])
        I.no_join_prefixes = ("block_handler::BlockHandler", "block_handler::BlockState")
        I.K = 600
        I.cheap_plain_joins = True      # merges of return / overflow states keep common facts only (no relational templates)
        I.extra_models["packet::Packet::to_bytes"] = model_to_bytes
        gargs = (("param", "Endpoint"),)
        st = State()
        subst = prog.body_subst(self.body, gargs)
        args = [I.mat(st, prog.ty(self.body["locals"][i + 1]["ty"], subst), "a%d" % i) for i in range(self.body["arg_count"])]
        self.args = args
        self.sf = state_fields(prog)
        R = {n: idx(prog, "request::CoapRequest", n) for n in ("message", "response", "source")}
        P = {n: idx(prog, "packet::Packet", n) for n in ("header", "token", "options", "payload")}
        H = {n: idx(prog, "header::Header", n) for n in ("ver_type_tkl", "code", "message_id")}
        self.R, self.P, self.H = R, P, H
        req = args[req_arg]
        rty = prog.ty(self.body["locals"][req_arg + 1]["ty"], subst)[2]
        # a &mut BlockState argument stands for the keyed map entry
        for i, a in enumerate(args):
            t = prog.ty(self.body["locals"][i + 1]["ty"], subst)
            if t[0] == "ref" and t[2][0] == "adt" and t[2][1] == "block_handler::BlockState" and isinstance(a, RefV):
                v = st.cells.pop(a.place.key)
                key = ("h", "entry*arg")
                st.cells[key] = v
                args[i] = RefV(Place(key), a.mut)
                I.ensure(st, args[i].place, t[2], "state")
        I.ensure(st, req.place, rty, "request")
        fts = I.field_types(rty)
        I.ensure(st, req.place.extend(("f", R["message"])), fts[R["message"]], "request.message")
        self.req_payload_place = req.place.extend(("f", R["message"]), ("f", P["payload"]))
        self.req_payload0 = I.ensure(st, self.req_payload_place, ("adt", "alloc::vec::Vec", (("int", 8, False),), "struct"), "request.payload")
        rv = I.ensure(st, req.place.extend(("f", R["response"])), fts[R["response"]], "request.response")
        if with_response and isinstance(rv, EnumV):
            I.write(st, req.place.extend(("f", R["response"])), EnumV(rv.path, {1: rv.variants.get(1)}, rv.ty))
            rp = req.place.extend(("f", R["response"]), ("v", 1), ("f", 0))
            I.ensure(st, rp, None, "response")
            cr = prog.ty(prog.adts["request::CoapRequest"]["variants"][0]["fields"][R["response"]]["ty"], {"Endpoint": ("param", "Endpoint")})
            crt = cr[2][0]
            I.write(st, req.place.extend(("f", R["response"])), EnumV(rv.path, {1: StructV([I.mat(st, crt, "response")])}, rv.ty))
            I.ensure(st, rp.extend(("f", 0)), I.field_types(crt)[0], "response.message")
            self.resp_msg = rp.extend(("f", 0))
            self.resp_payload0 = I.ensure(st, self.resp_msg.extend(("f", P["payload"])), ("adt", "alloc::vec::Vec", (("int", 8, False),), "struct"), "response.payload")
            I.ensure(st, self.resp_msg.extend(("f", P["header"])), I.field_types(fts[R["message"]])[P["header"]], "response.header")
        mcv = [v["name"] for v in prog.adts["header::MessageClass"]["variants"]]
        rtv = [v["name"] for v in prog.adts["header::ResponseType"]["variants"]]
        co = [v["name"] for v in prog.adts["packet::CoapOption"]["variants"]]
        bv_more = idx(prog, BV, "more")
        tr = self

        def is_state_place(place, field):
            return isinstance(place.key, tuple) and place.key[0] == "h" and str(place.key[1]).startswith("entry") \
                and place.proj[:1] == (("f", tr.sf.get(field)),)

        def store_hook(I_, ctx, s, place, v, site):
            # response code
            if isinstance(v, EnumV) and v.path == "header::MessageClass" and list(v.variants) == [mcv.index("Response")]:
                inner = v.variants[mcv.index("Response")].fields[0]
                if isinstance(inner, EnumV) and len(inner.variants) == 1 and place.proj and place.proj[-1] == ("f", H["code"]):
                    nm = rtv[next(iter(inner.variants))]
                    s.ghost[("inj", "code:" + nm)] = True
                    tr.events.append(("code", nm, site))
            if place == tr.req_payload_place and v != tr.req_payload0 and not (isinstance(v, VecV) and v.len == Aff.const(0)):
                s.ghost[("inj", "req-payload-set")] = True
                tr.events.append(("req-payload", v, s.copy(), site))
            if is_state_place(place, "cached_response") and len(place.proj) == 1:
                kind = "Some" if isinstance(v, EnumV) and list(v.variants) == [1] else "None" if isinstance(v, EnumV) and list(v.variants) == [0] else "?"
                tr.events.append(("cache-store", kind, v, s.copy(), site))
                s.ghost[("inj", "cache:" + kind)] = True
            if is_state_place(place, "buffer") and len(place.proj) == 1:
                kind = "Some" if isinstance(v, EnumV) and list(v.variants) == [1] else "None" if isinstance(v, EnumV) and list(v.variants) == [0] else "?"
                tr.events.append(("buffer-store", kind, v, s.copy(), site))
        I.store_hooks.append(store_hook)

        def value_hook(I_, ctx, s, v):
            if isinstance(v, StructV) and len(v.fields) == 3 and bv_more is not None and isinstance(v.fields[bv_more], IntV) \
                    and v.fields[bv_more].ty == (1, False) and ctx.body["path"].startswith("block_handler::"):
                # the more flag of the block value built last, as a value (it may be a constant on this path, or a
                # boolean computed from lengths that a later branch decides)
                s.cells[("gh", "last_more")] = v.fields[bv_more]
        I.value_hooks.append(value_hook)

        def opt_name(v):
            if isinstance(v, EnumV) and v.path == "packet::CoapOption" and len(v.variants) == 1:
                return co[next(iter(v.variants))]
            return None

        def call_hook(I_, s, call, cbody):
            p = call.path
            if p in ("packet::Packet::add_option_as", "packet::Packet::add_option", "packet::Packet::set_options_as", "packet::Packet::set_option"):
                o = opt_name(call.args[1])
                if o in ("Block1", "Block2") and call.ctx.body["path"].startswith("block_handler::"):
                    s.ghost[("inj", "%s:%s" % (call.name, o))] = True
                    tr.events.append(("option", call.name, o, call.args[2] if len(call.args) > 2 else None, s.copy(), call.site))
            elif p == "block_handler::extending_splice":
                tr.events.append(("splice", call.args, s.copy(), call.site))
                s.ghost[("inj", "spliced")] = True
                r_ = call.args[1]
                if isinstance(r_, StructV) and len(r_.fields) == 2 and isinstance(r_.fields[0], IntV):
                    s.ghost["splice_range"] = r_.fields[0].aff
            elif cbody is not None and cbody.get("id") in tr.serve_ids:
                s.ghost[("inj", "serve-called")] = True
            elif tr.neg_id is not None and cbody is not None and cbody.get("id") == tr.neg_id:
                tr.events.append(("negotiate", call.args, s.copy(), call.site))
                s.ghost[("inj", "negotiated")] = True
            elif p in ("core::cmp::min", "core::cmp::Ord::min") and call.ctx.body["path"].startswith("block_handler::"):
                tr.events.append(("min", call.args, s.copy(), call.site))
                s.ghost["min_args"] = tuple(call.args)
            elif p == BV + "::new" and call.ctx.body["path"].startswith("block_handler::"):
                tr.events.append(("bv-new", call.args, s.copy(), call.site, s.ghost.get("min_args")))
            elif p.endswith("::checked_sub") and call.ctx.body["path"].startswith("block_handler::"):
                tr.events.append(("checked_sub", call.args, s.copy(), call.site))
            elif p.startswith("alloc::vec::Vec::<T, A>::") and call.name in ("clear", "drain", "truncate", "resize", "retain", "pop", "remove", "swap_remove", "split_off", "set_len") \
                    and call.ctx.body["path"].startswith("block_handler::") and call.args and isinstance(call.args[0], RefV) \
                    and is_state_place(call.args[0].place, "buffer"):
                # the per-key upload buffer, still in the state, is cut or emptied by the handler itself
                grows = False
                if call.name == "resize" and len(call.args) > 1 and isinstance(call.args[1], IntV):
                    cur_ = I_.read(s, call.args[0].place)
                    grows = isinstance(cur_, VecV) and s.entails(call.args[1].aff - cur_.len)
                if not grows:
                    tr.events.append(("buffer-shrink", call.name, s.copy(), call.site))
            elif p == "error::HandlingError::bad_request":
                s.ghost[("inj", "bad_request")] = True
                tr.events.append(("bad_request", s.copy(), call.site))
            elif p in ("core::mem::take", "core::option::Option::<T>::take") and call.ctx.body["path"].startswith("block_handler::"):
                # mem::take(&mut opt) and opt.take() both leave None behind and hand out the old value
                a = call.args[0]
                if isinstance(a, RefV) and is_state_place(a.place, "buffer") and len(a.place.proj) == 1:
                    s.ghost[("inj", "buffer-taken")] = True
                    tr.events.append(("buffer-take", I_.read(s, a.place), call.site))
                if isinstance(a, RefV) and is_state_place(a.place, "cached_response") and len(a.place.proj) == 1:
                    tr.events.append(("cache-store", "None", None, s.copy(), call.site))
                    s.ghost[("inj", "cache:None")] = True
        I.call_hooks.append(call_hook)
        gfo = find_body(prog, "packet::Packet::get_first_option")
        if gfo is not None:
            def gfo_hook(I_, ctx, outs):
                tp = None
                for s_, rv_ in outs:
                    tp = opt_name(s_.cells.get((ctx.fid, 2)))
                    if tp in ("Block1", "Block2") and isinstance(rv_, EnumV) and len(rv_.variants) == 1:
                        s_.ghost["has_" + tp] = list(rv_.variants)[0] == 1
            I.return_hooks[gfo["id"]] = gfo_hook
            I.no_join_bodies.add(gfo["id"])
        # a Block option whose value does not decode is treated as absent by the handler: mark those paths
        bvdec = find_impl_fn(prog, "core::convert::TryFrom", BV, "alloc::vec::Vec<u8>", "try_from")
        if bvdec is not None and bvdec["id"] not in I.return_hooks:
            def dec_ret(I_, ctx, outs):
                for s_, rv_ in outs:
                    if isinstance(rv_, EnumV) and list(rv_.variants) == [1]:
                        s_.ghost[("inj", "block-undecodable")] = True
            I.return_hooks[bvdec["id"]] = dec_ret
            I.no_join_bodies.add(bvdec["id"])
        # "served from the cache" = the function cutting a block out of a cached reply returned Ok
        for sv in find_serve(prog):
            def serve_ret(I_, ctx, outs):
                for s_, rv_ in outs:
                    if isinstance(rv_, EnumV) and list(rv_.variants) == [0]:
                        s_.ghost[("inj", "served")] = True
            if sv["id"] != self.body["id"]:
                I.return_hooks[sv["id"]] = serve_ret
        for nm in ("packet::Packet::get_first_option_as",):
            b_ = find_body(prog, nm)
            if b_ is not None:
                I.no_join_bodies.add(b_["id"])

                # the typed accessor is the handler's view of "does the request carry Block1 / Block2": mark it here
                # too, so that the marks do not depend on how the accessor reaches the raw option state
                def gfoa_hook(I_, ctx, outs):
                    for s_, rv_ in outs:
                        tp = opt_name(s_.cells.get((ctx.fid, 2)))
                        if tp in ("Block1", "Block2") and isinstance(rv_, EnumV) and len(rv_.variants) == 1 and ("has_" + tp) not in s_.ghost:
                            s_.ghost["has_" + tp] = list(rv_.variants)[0] == 1
                I.return_hooks[b_["id"]] = gfoa_hook
        if setup is not None:
            setup(self, I, st)
        self.st0 = st
        I, res = run(prog, self.body, args=args, st=st, I=I, gargs=gargs)
        # Ok(flag) with a flag the path has decided (e.g. `Ok(block.more)` behind `if block.more`) is Ok(true) / Ok(false)
        self.res = [(s_, self._decide_ret(s_, rv_)) for s_, rv_ in res]

    @staticmethod
    def _decide_ret(s, rv):
        from absdom import holds
        if not (isinstance(rv, EnumV) and list(rv.variants) == [0]):
            return rv
        p = rv.variants[0]
        b = p.fields[0] if isinstance(p, StructV) and len(p.fields) == 1 else None
        if not isinstance(b, IntV) or b.ty != (1, False) or b.aff.is_const():
            return rv
        val = None
        if b.cond is not None:
            if holds(s, b.cond, True):
                val = 1
            elif holds(s, b.cond, False):
                val = 0
        if val is None:
            lo, hi = s.range(b.aff)
            if lo == hi:
                val = lo
        if val is None:
            return rv
        return EnumV(rv.path, {0: StructV([IntV(Aff.const(val), b.ty, cond=("const", bool(val)))])}, rv.ty)

    def ret_kind(self, rv):
        """'true' / 'false' / 'err' / '?' for Result<bool, HandlingError>"""
        if not isinstance(rv, EnumV):
            return {"?"}
        out = set()
        for vi, p in rv.variants.items():
            if vi == 1:
                out.add("err")
            else:
                b = p.fields[0] if isinstance(p, StructV) and p.fields else None
                if isinstance(b, IntV) and b.aff.is_const():
                    out.add("true" if b.aff.c else "false")
                else:
                    out.add("?")
        return out
