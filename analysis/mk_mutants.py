"""Builds /verif/mutants/<name>.diff from textual replacements against the
current /repo tree (one broken rule instance each).  Run again after /repo
changes; mutants whose anchor text is gone are reported and skipped."""
import difflib
import json
import os
import sys

REPO = "/repo"
OUT = os.path.join(os.path.dirname(os.path.dirname(os.path.abspath(__file__))), "mutants")

# name, file, [(old, new), ...], properties expected to report it
M = [
 ("c01_set_type_mask", "src/header.rs", [("let ver_tkl = 0xCF & self.ver_type_tkl;", "let ver_tkl = 0xC7 & self.ver_type_tkl;")], ["C01"]),
 ("c01_get_version_shift", "src/header.rs", [("self.ver_type_tkl >> 6", "self.ver_type_tkl >> 5")], ["C01"]),
 ("c01_swap_ack_rst", "src/header.rs", [("MessageType::Acknowledgement => 2,\n            MessageType::Reset => 3,", "MessageType::Acknowledgement => 3,\n            MessageType::Reset => 2,"),
                                         ("2 => MessageType::Acknowledgement,\n            3 => MessageType::Reset,", "3 => MessageType::Acknowledgement,\n            2 => MessageType::Reset,")], ["C01", "C05", "C07"]),
 ("c01_le_bytes", "src/header.rs", [("self.message_id.to_be_bytes()", "self.message_id.to_le_bytes()")], ["C01"]),
 ("c01_enc_delta_le269", "src/packet.rs", [("} else if delta < 269 {\n                    byte |= 13 << 4;", "} else if delta <= 269 {\n                    byte |= 13 << 4;")], ["C01", "C04"]),
 ("c01_enc_low_before_high", "src/packet.rs", [("let fix = delta - 269;\n                    header.push((fix >> 8) as u8);\n                    header.push((fix & 0xFF) as u8);", "let fix = delta - 269;\n                    header.push((fix & 0xFF) as u8);\n                    header.push((fix >> 8) as u8);")], ["C01"]),
 ("c01_push_front", "src/packet.rs", [("        if let Some(list) = self.options.get_mut(&num) {\n            list.push_back(value);", "        if let Some(list) = self.options.get_mut(&num) {\n            list.push_front(value);")], ["C01"]),
 ("c02_dec_268", "src/packet.rs", [(".checked_add(269)", ".checked_add(268)")], ["C02"]),
 ("c02_payload_plus2", "src/packet.rs", [("buf[(idx + 1)..buf.len()].to_vec()", "buf[(idx + 2).min(buf.len())..buf.len()].to_vec()")], ["C02"]),
 ("c02_dec_ext8_14", "src/packet.rs", [("delta = buf[idx] as u16 + 13;", "delta = buf[idx] as u16 + 14;")], ["C02"]),
 ("c03_no_guard_ext8", "src/packet.rs", [("                        13 => {\n                            if idx >= buf.len() {\n                                return Err(MessageError::InvalidOptionLength);\n                            }\n                            delta", "                        13 => {\n                            delta")], ["C03"]),
 ("c03_end_guard_off_by_one", "src/packet.rs", [("if end > buf.len() {", "if end > buf.len() + 1 {")], ["C03"]),
 ("c03_no_len15", "src/packet.rs", [("                        15 => {\n                            return Err(MessageError::InvalidOptionLength);\n                        }\n", "")], ["C03"]),
 ("c03_tkl_gt9", "src/packet.rs", [("if token_length > 8 {", "if token_length > 9 {")], ["C03", "C02"]),
 ("c03_overstrict_ext8", "src/packet.rs", [("                        13 => {\n                            if idx >= buf.len() {\n                                return Err(MessageError::InvalidOptionLength);\n                            }\n                            delta", "                        13 => {\n                            if idx + 1 >= buf.len() {\n                                return Err(MessageError::InvalidOptionLength);\n                            }\n                            delta")], ["C03"]),
 ("c03_overstrict_header", "src/header.rs", [("        if buf.len() < 4 {\n            return Err(MessageError::InvalidPacketLength);", "        if buf.len() < 5 {\n            return Err(MessageError::InvalidPacketLength);")], ["C03"]),
 ("c03_overstrict_tkl", "src/packet.rs", [("if token_length > 8 {", "if token_length > 7 {")], ["C03"]),
 ("c04_no_marker_account", "src/packet.rs", [("buf_length += 1 + self.payload.len();", "buf_length += self.payload.len();")], ["C04"]),
 ("c04_ge_limit", "src/packet.rs", [("limit.is_some() && buf_length > limit.unwrap()", "limit.is_some() && buf_length >= limit.unwrap()")], ["C04"]),
 ("c04_with_limit_ignores_arg", "src/packet.rs", [("        self.to_bytes_internal(Some(limit))", "        self.to_bytes_internal(Some(Self::MAX_SIZE.max(limit)))")], ["C04"]),
 ("c04_reserve_short", "src/packet.rs", [("options_bytes.reserve(header.len() + value.len());", "options_bytes.reserve(header.len());")], ["C04"]),
 ("c04_set_len_long", "src/packet.rs", [(".set_len(buf_len + header.len() + value.len());", ".set_len(buf_len + header.len() + value.len() + 1);")], ["C04"]),
 ("c04_copy_offset", "src/packet.rs", [("options_bytes.as_mut_ptr().add(buf_len + header.len()),", "options_bytes.as_mut_ptr().add(buf_len),")], ["C04"]),
 ("c05_gif_jpeg", "src/packet.rs", [("21 => Ok(ContentFormat::ImageGif),\n            22 => Ok(ContentFormat::ImageJpeg),", "22 => Ok(ContentFormat::ImageGif),\n            21 => Ok(ContentFormat::ImageJpeg),"),
                                     ("ContentFormat::ImageGif => 21,\n            ContentFormat::ImageJpeg => 22,", "ContentFormat::ImageGif => 22,\n            ContentFormat::ImageJpeg => 21,")], ["C05"]),
 ("c05_836_863", "src/packet.rs", [("836 => Ok(ContentFormat::ApplicationVoucherCoseCbor),", "863 => Ok(ContentFormat::ApplicationVoucherCoseCbor),"), ("ContentFormat::ApplicationVoucherCoseCbor => 836,", "ContentFormat::ApplicationVoucherCoseCbor => 863,")], ["C05"]),
 ("c05_continue_5e", "src/header.rs", [("0x5F => MessageClass::Response(ResponseType::Continue),", "0x5E => MessageClass::Response(ResponseType::Continue),"), ("MessageClass::Response(ResponseType::Continue) => 0x5F,", "MessageClass::Response(ResponseType::Continue) => 0x5E,")], ["C05"]),
 ("c05_conflict_incomplete", "src/header.rs", [("0x89 => MessageClass::Response(ResponseType::Conflict),", "0x88 => MessageClass::Response(ResponseType::Conflict),"), ("0x88 => {\n                MessageClass::Response(ResponseType::RequestEntityIncomplete)", "0x89 => {\n                MessageClass::Response(ResponseType::RequestEntityIncomplete)"),
                                                ("MessageClass::Response(ResponseType::Conflict) => 0x89,", "MessageClass::Response(ResponseType::Conflict) => 0x88,"), ("MessageClass::Response(ResponseType::RequestEntityIncomplete) => {\n                0x88", "MessageClass::Response(ResponseType::RequestEntityIncomplete) => {\n                0x89")], ["C05"]),
 ("c05_is_error_order", "src/header.rs", [("    Content,\n    Continue,\n\n    // 400 Codes\n    BadRequest,", "    Content,\n\n    // 400 Codes\n    BadRequest,\n    Continue,")], ["C05"]),
 ("c06_u16_width4", "src/option_value.rs", [("option_value_uint_impl!(OptionValueU16, u16, 2);", "option_value_uint_impl!(OptionValueU16, u16, 4);")], ["C06"]),
 ("c06_no_reverse", "src/option_value.rs", [("        output.reverse();\n", "")], ["C06"]),
 ("c06_shift_7", "src/option_value.rs", [("            draining_value >>= 8;", "            draining_value >>= 7;")], ["C06"]),
 ("c06_drain_gt_ff", "src/option_value.rs", [("        while draining_value > 0 {", "        while draining_value > 0xff {")], ["C06"]),
 ("c06_observe_mask24", "src/packet.rs", [("        self.add_option_as(CoapOption::Observe, OptionValueU32(value));", "        self.add_option_as(\n            CoapOption::Observe,\n            OptionValueU32(value & 0xff_ffff),\n        );")], ["C06"]),
 ("c13_decode_max_encoded", "src/block_handler/block_value.rs", [("        let num = u16::try_from(scalar >> 4).map_err(|e| {", "        let num = u16::try_from(scalar.saturating_add(15) >> 4).map_err(|e| {")], ["C13"]),
 ("c06_ge_width", "src/option_value.rs", [("if encoded.len() > value_size {", "if encoded.len() >= value_size {")], ["C06"]),
 ("c07_non_gets_ack", "src/response.rs", [("MessageType::NonConfirmable => MessageType::NonConfirmable,", "MessageType::NonConfirmable => MessageType::Acknowledgement,")], ["C07"]),
 ("c07_no_token", "src/response.rs", [("        packet.set_token(request.get_token().to_vec());\n", "")], ["C07"]),
 ("c07_echo_payload", "src/response.rs", [("        packet.set_token(request.get_token().to_vec());\n", "        packet.set_token(request.get_token().to_vec());\n        packet.payload = request.payload.clone();\n")], ["C07"]),
 ("c07_apply_true_without_code", "src/request.rs", [("                return true;\n            }\n        }\n        false", "                return true;\n            }\n            return true;\n        }\n        false")], ["C07"]),
 ("c08_clone_after_serve", "src/block_handler/mod.rs", [("                    let cached_response = response.message.clone();\n                    let has_more_chunks = Self::maybe_serve_cached_response(\n                        request,\n                        request_block2,\n                        &cached_response,\n                    )?;\n                    if has_more_chunks {\n                        state.cached_response = Some(cached_response);",
                                                            "                    let cached_response = response.message.clone();\n                    let has_more_chunks = Self::maybe_serve_cached_response(\n                        request,\n                        request_block2,\n                        &cached_response,\n                    )?;\n                    if has_more_chunks {\n                        state.cached_response = request.response.as_ref().map(|r| r.message.clone());")], ["C08"]),
 ("c08_skip_plus1", "src/block_handler/mod.rs", [("            .skip(usize::from(request_block2.num));", "            .skip(usize::from(request_block2.num) + 1);")], ["C08"]),
 ("c08_more_from_len", "src/block_handler/mod.rs", [("        let has_more_chunks = chunks.next().is_some();", "        let has_more_chunks =\n            cached_payload_chunk.len() == request_block_size;")], ["C08"]),
 ("c08_chunk_min64", "src/block_handler/mod.rs", [("            .chunks(request_block_size)\n", "            .chunks(request_block_size.max(64))\n")], ["C08"]),
 ("c08_block2_num_plus1", "src/block_handler/mod.rs", [("            more: has_more_chunks,\n            ..request_block2\n", "            more: has_more_chunks,\n            num: request_block2.num.wrapping_add(0) | 0,\n            size_exponent: request_block2.size_exponent.min(6),\n")], ["C08"]),
 ("c08_release_inverted", "src/block_handler/mod.rs", [("                if !has_more_chunks {\n                    state.cached_response = None", "                if has_more_chunks {\n                    state.cached_response = None")], ["C08"]),
 ("c08_skip_high_options", "src/block_handler/mod.rs", [("        for (&option, value) in src.options() {\n", "        for (&option, value) in src.options() {\n            if option > 20 {\n                continue;\n            }\n")], ["C08"]),
 ("c09_final_clones_buffer", "src/block_handler/mod.rs", [("                    let mut cached_payload =\n                        mem::take(&mut state.cached_request_payload).unwrap();", "                    let mut cached_payload =\n                        state.cached_request_payload.clone().unwrap();")], ["C09"]),
 ("c09_no_truncate", "src/block_handler/mod.rs", [("                    cached_payload.truncate(\n                        payload_offset + request.message.payload.len(),\n                    );\n", "")], ["C09"]),
 ("c09_truncate_block_end", "src/block_handler/mod.rs", [("                    cached_payload.truncate(\n                        payload_offset + request.message.payload.len(),\n                    );\n", "                    cached_payload.truncate(\n                        payload_offset + request_block1.size(),\n                    );\n")], ["C09"]),
 ("c09_continue_returns_false", "src/block_handler/mod.rs", [("                        MessageClass::Response(ResponseType::Continue);\n                    Ok(true)", "                        MessageClass::Response(ResponseType::Continue);\n                    Ok(false)")], ["C09"]),
 ("c09_413_without_block1", "src/block_handler/mod.rs", [("                    .ok_or_else(HandlingError::not_handled)?;\n                response\n                    .message\n                    .add_option_as(CoapOption::Block1, response_block1);\n                response.message.header.code = MessageClass::Response(\n                    ResponseType::RequestEntityTooLarge,", "                    .ok_or_else(HandlingError::not_handled)?;\n                let _ = response_block1;\n                response.message.header.code = MessageClass::Response(\n                    ResponseType::RequestEntityTooLarge,")], ["C09"]),
 ("c10_no_reserve", "src/block_handler/mod.rs", [("(message_size + BLOCK_OPTIONS_MAX_LENGTH) - total_payload_size;", "message_size - total_payload_size;")], ["C10"]),
 ("c10_saturating", "src/block_handler/mod.rs", [("        let max_block_size = max_total_message_size\n            .checked_sub(max_non_payload_size)\n            .ok_or_else(|| {", "        let max_block_size = Some(max_total_message_size\n            .saturating_sub(max_non_payload_size))\n            .ok_or_else(|| {")], ["C10"]),
 ("c10_min_to_max", "src/block_handler/mod.rs", [("                    min(request_block.size(), max_block_size);", "                    core::cmp::max(request_block.size(), max_block_size);")], ["C10", "C09"]),
 ("c10_reserve_4", "src/block_handler/mod.rs", [("const BLOCK_OPTIONS_MAX_LENGTH: usize = 12;", "const BLOCK_OPTIONS_MAX_LENGTH: usize = 4;")], ["C10"]),
 ("c11_unwrap_response", "src/block_handler/mod.rs", [("                if request_block1.more {\n                    let response = request\n                        .response\n                        .as_mut()\n                        .ok_or_else(HandlingError::not_handled)?;", "                if request_block1.more {\n                    let response = request\n                        .response\n                        .as_mut()\n                        .unwrap();")], ["C11"]),
 ("c11_reject_drops_buffer", "src/block_handler/mod.rs", [("                let cached_payload =\n                    state.cached_request_payload.as_mut().unwrap();\n", "                let mut taken =\n                    mem::take(&mut state.cached_request_payload).unwrap();\n                let cached_payload = &mut taken;\n"), ("                .map_err(HandlingError::internal)?;\n\n                if request_block1.more {", "                .map_err(HandlingError::internal)?;\n                state.cached_request_payload = Some(taken);\n\n                if request_block1.more {")], ["C11"]),
 ("c11_guard_16m", "src/block_handler/mod.rs", [("const MAXIMUM_UNCOMMITTED_BUFFER_RESERVE_LENGTH: usize = 16 * 1024;", "const MAXIMUM_UNCOMMITTED_BUFFER_RESERVE_LENGTH: usize = 16 * 1024 * 1024;")], ["C11"]),
 ("c11_guard_inverted", "src/block_handler/mod.rs", [("        if extend_len > maximum_reserve_len {", "        if extend_len < maximum_reserve_len {")], ["C11"]),
 ("c11_div_unguarded", "src/block_handler/mod.rs", [("                let num = reply_start_offset\n                    .checked_div(negotiated_block_size)", "                let num = Some(reply_start_offset / negotiated_block_size)")], ["C11"]),
 ("c12_static_counter", "src/block_handler/mod.rs", [("const BLOCK_OPTIONS_MAX_LENGTH: usize = 12;", "const BLOCK_OPTIONS_MAX_LENGTH: usize = 12;\nstatic TRANSFERS_SEEN: core::sync::atomic::AtomicUsize =\n    core::sync::atomic::AtomicUsize::new(0);"), ("        let state = self\n            .states\n            .entry(request.deref().into())\n            .or_insert(BlockState::default());\n        if let Some(ref mut response) = request.response {", "        TRANSFERS_SEEN.fetch_add(1, core::sync::atomic::Ordering::Relaxed);\n        let state = self\n            .states\n            .entry(request.deref().into())\n            .or_insert(BlockState::default());\n        if let Some(ref mut response) = request.response {")], ["C12"]),
 ("c12_requester_none", "src/block_handler/mod.rs", [("            requester: request.source.clone(),", "            requester: None,")], ["C12"]),
 ("c12_path_joined", "src/block_handler/mod.rs", [("            path: request.get_path_as_vec().unwrap_or_default(),", "            path: request.get_path().split('/').map(String::from).collect(),")], ["C12"]),
 ("c12_clone_header", "src/block_handler/mod.rs", [("        dst.header.code = src.header.code;\n", "        dst.header.code = src.header.code;\n        dst.header.message_id = src.header.message_id;\n")], ["C12"]),
 ("c13_more_bit2", "src/block_handler/block_value.rs", [("let more = scalar >> 3 & 0x1 == 0x1;", "let more = scalar >> 2 & 0x1 == 0x1;")], ["C13"]),
 ("c13_more_shift2", "src/block_handler/block_value.rs", [("| u32::from(block_value.more) << 3", "| u32::from(block_value.more) << 2")], ["C13"]),
 ("c13_size_plus3", "src/block_handler/block_value.rs", [("1 << (self.size_exponent + 4)", "1 << (self.size_exponent + 3)")], ["C13"]),
 ("c13_u16_scalar", "src/block_handler/block_value.rs", [("        let scalar = u32::from(block_value.num) << 4", "        let scalar = u32::from(block_value.num & 0x0FFF) << 4")], ["C13"]),
 ("c14_changed_creates", "src/observe.rs", [("                });\n            });\n    }\n\n    /// Resets the counter", "                });\n            })\n            .or_insert_with(|| Resource {\n                observers: Vec::new(),\n                sequence: 0,\n            });\n    }\n\n    /// Resets the counter")], ["C14"]),
 ("c14_changed_sweeps_all", "src/observe.rs", [("        self.resources\n            .entry(resource.to_string())\n            .and_modify(|resource| {\n                resource.sequence += 1;", "        self.resources.values_mut().for_each(|r| {\n            r.observers.retain(|o| {\n                o.unacknowledged_messages <= u16::from(unacknowledged_limit)\n            })\n        });\n        self.resources\n            .entry(resource.to_string())\n            .and_modify(|resource| {\n                resource.sequence += 1;")], ["C14"]),
 ("c14_dereg_endpoint_only", "src/observe.rs", [("                x.endpoint == *observer_endpoint && x.token == *token", "                x.endpoint == *observer_endpoint")], ["C14"]),
 ("c14_register_matches_token", "src/observe.rs", [(".position(|x| x.endpoint == observer.endpoint)", ".position(|x| x.endpoint == observer.endpoint && x.token == observer.token)")], ["C14"]),
 ("c14_or_insert_on_notify", "src/observe.rs", [("            .and_modify(|resource| {", "            .or_insert(Resource {\n                observers: Vec::new(),\n                sequence: 0,\n            });\n        self.resources\n            .entry(resource.to_string())\n            .and_modify(|resource| {")], ["C14"]),
 ("c15_retain_lt", "src/observe.rs", [("                    observer.unacknowledged_messages\n                        <= u16::from(unacknowledged_limit)", "                    observer.unacknowledged_messages\n                        < u16::from(unacknowledged_limit)")], ["C15"]),
 ("c15_count_nonconfirmable", "src/observe.rs", [("                    if is_confirmable {\n                        observer.unacknowledged_messages =", "                    if is_confirmable || observer.message_id.is_some() {\n                        observer.unacknowledged_messages =")], ["C15"]),
 ("c15_ack_or", "src/observe.rs", [("                    return x.endpoint == *observer_endpoint\n                        && observe_msg_id == message_id;", "                    return x.endpoint == *observer_endpoint\n                        || observe_msg_id == message_id;")], ["C15"]),
 ("c15_sequence_in_loop", "src/observe.rs", [("                resource.sequence += 1;\n\n                resource.observers.iter_mut().for_each(|observer| {", "                let n = resource.observers.len() as u32;\n                resource.sequence += n.max(1);\n\n                resource.observers.iter_mut().for_each(|observer| {")], ["C15"]),
 ("c15_u8_counter", "src/observe.rs", [("observer.unacknowledged_messages.saturating_add(1);", "observer.unacknowledged_messages + 1;")], ["C15"]),
 ("c16_no_backslash_escape", "src/link_format.rs", [("            if (c == '\"' || c == '\\\\') && self.0.error.is_none() {", "            if c == '\"' && self.0.error.is_none() {")], ["C16"]),
 ("c16_scanner_no_escape_skip", "src/link_format.rs", [("                            Some(QUOTE_ESCAPE_CHAR) => {\n                                // Slashes always escape the next character,\n                                // since we are scanning and not parsing we\n                                // just skip it.\n                                iter.next();\n                            }\n", "")], ["C16"]),
 ("c16_unquote_escape_literal", "src/link_format.rs", [("                    Some(QUOTE_ESCAPE_CHAR) => self.inner.next(),", "                    Some(QUOTE_ESCAPE_CHAR) => {\n                        self.inner.next().map(|_| QUOTE_ESCAPE_CHAR)\n                    }")], ["C16"]),
 ("c16_attr_scanner_conditional_skip", "src/link_format.rs", [("                            Some(QUOTE_ESCAPE_CHAR) => {\n                                iter.next();\n                            }", "                            Some(QUOTE_ESCAPE_CHAR) => {\n                                if iter.as_str().starts_with('\"') {\n                                    iter.next();\n                                }\n                            }")], ["C16"]),
 ("c16_writer_fast_path", "src/link_format.rs", [("        for c in value.chars() {\n            if (c == '\"' || c == '\\\\') && self.0.error.is_none() {", "        for c in value.chars().filter(|_| value.contains('\"')) {\n            if (c == '\"' || c == '\\\\') && self.0.error.is_none() {")], ["C16"]),
 ("c16_writer_escape_after", "src/link_format.rs", [("            if self.0.error.is_none() {\n                self.0.error = self.0.write.write_char(c).err();\n            }\n        }\n", "            if self.0.error.is_none() {\n                self.0.error = self.0.write.write_char(c).err();\n            }\n            if c == '\\\\' && self.0.error.is_none() {\n                self.0.error = self.0.write.write_char(c).err();\n            }\n        }\n")], ["C16"]),
 ("c17_error_keeps_inner", "src/link_format.rs", [("                Some(_) => {\n                    self.inner = \"\";\n                    return Some(Err(ErrorLinkFormat::ParseError));", "                Some(_) => {\n                    return Some(Err(ErrorLinkFormat::ParseError));")], ["C17"]),
 ("c17_to_cow_old", "src/link_format.rs", [("                match body.find('\"') {\n                    Some(end) => Cow::from(&body[..end]),\n                    None => Cow::from(body),\n                }", "                Cow::from(&body[..body.len() - 1])")], ["C17"]),
 ("c18_unguarded_quote", "src/link_format.rs", [("        self.internal_attr_key_eq(key);\n\n        if self.0.error.is_none() {\n            self.0.error = self.0.write.write_char('\"').err();\n        }\n\n        for c in value.chars() {", "        self.internal_attr_key_eq(key);\n\n        self.0.error = self.0.write.write_char('\"').err();\n\n        for c in value.chars() {")], ["C18"]),
 ("c18_finish_ok", "src/link_format.rs", [("    pub fn finish(self) -> Result<(), core::fmt::Error> {\n        if let Some(e) = self.0.error {\n            Err(e)\n        } else {\n            Ok(())\n        }", "    pub fn finish(self) -> Result<(), core::fmt::Error> {\n        if let Some(_e) = self.0.error {\n            Ok(())\n        } else {\n            Ok(())\n        }")], ["C18"]),
 ("c18_newline_unguarded", "src/link_format.rs", [("if self.add_newlines && self.error.is_none() {", "if self.add_newlines {")], ["C18"]),
 ("c19_fetch_as_get", "src/request.rs", [("MessageClass::Request(Method::Fetch) => &Method::Fetch,", "MessageClass::Request(Method::Fetch) => &Method::Get,")], ["C19"]),
 ("c19_drop_status_arm", "src/response.rs", [("            MessageClass::Response(Status::Conflict) => &Status::Conflict,\n", "")], ["C19"]),
 ("c19_observe_no_clear", "src/packet.rs", [("        self.clear_option(CoapOption::Observe);\n", "")], ["C19"]),
 ("c19_set_payload_appends", "src/impl_coap_message_0_3.rs", [("        self.payload = payload.into();\n        Ok(())", "        self.payload.extend_from_slice(payload);\n        Ok(())")], ["C19"]),
 ("c20_capacity", "src/block_handler/mod.rs", [("            states: LruCache::with_expiry_duration(\n                config.cache_expiry_duration,\n            ),", "            states: LruCache::with_expiry_duration_and_capacity(\n                config.cache_expiry_duration,\n                64,\n            ),")], ["C20"]),
 ("c20_const_duration", "src/block_handler/mod.rs", [("            states: LruCache::with_expiry_duration(\n                config.cache_expiry_duration,\n            ),", "            states: LruCache::with_expiry_duration(\n                Duration::from_secs(120),\n            ),")], ["C20"]),
 ("c20_peek", "src/block_handler/mod.rs", [("        let state = self\n            .states\n            .entry(request.deref().into())\n            .or_insert(BlockState::default());\n        if let Some(ref mut response) = request.response {", "        let _ = self.states.peek(&request.deref().into());\n        let state = self\n            .states\n            .entry(request.deref().into())\n            .or_insert(BlockState::default());\n        if let Some(ref mut response) = request.response {")], ["C20"]),
]


def main():
    os.makedirs(OUT, exist_ok=True)
    meta = {}
    skipped = []
    for name, fn, reps, props in M:
        path = os.path.join(REPO, fn)
        src = open(path).read()
        new = src
        ok = True
        for old, nw in reps:
            if new.count(old) != 1:
                ok = False
                break
            new = new.replace(old, nw)
        if not ok:
            skipped.append(name)
            continue
        diff = "".join(difflib.unified_diff(src.splitlines(True), new.splitlines(True), "a/" + fn, "b/" + fn))
        open(os.path.join(OUT, name + ".diff"), "w").write(diff)
        meta[name] = {"file": fn, "expect": props}
    json.dump(meta, open(os.path.join(OUT, "index.json"), "w"), indent=1, sort_keys=True)
    print("wrote", len(meta), "mutants; skipped (anchor text not unique/present):", skipped)


if __name__ == "__main__":
    main()
