"""Checker self-test: every patch in /verif/mutants is applied to a scratch
copy of the current /repo tree (outside /repo and /verif) and the checks of the
properties it is expected to break must report a violation.

  selftest.py [--admit] [--jobs N] [name ...]

--admit additionally builds the mutant and runs the repository's test suite on
it (a mutant is only admitted to the corpus if it compiles and the existing
tests still pass)."""
import concurrent.futures as cf
import json
import os
import shutil
import subprocess
import sys
import tempfile
import time

HERE = os.path.dirname(os.path.abspath(__file__))
VERIF = os.path.dirname(HERE)
MUT = os.path.join(VERIF, "mutants")


def one(name, meta, admit, worker_dir):
    work = tempfile.mkdtemp(prefix="mut-", dir=os.environ.get("VERIF_WORK") or tempfile.gettempdir())
    scratch = os.path.join(work, "repo")
    res = {"name": name, "expect": meta["expect"], "applies": False, "caught_by": [], "missed": [], "detail": {}}
    try:
        shutil.copytree("/repo", scratch, ignore=shutil.ignore_patterns("target", ".git"))
        p = subprocess.run(["patch", "-p1", "-s", "-i", os.path.join(MUT, name + ".diff")], cwd=scratch, capture_output=True, text=True)
        if p.returncode != 0:
            res["detail"]["patch"] = (p.stdout + p.stderr)[-300:]
            return res
        res["applies"] = True
        if admit:
            env = dict(os.environ, CARGO_TARGET_DIR=worker_dir, CARGO_NET_OFFLINE="true")
            t = subprocess.run(["cargo", "test", "--offline", "-q"], cwd=scratch, capture_output=True, text=True, env=env)
            res["tests_pass"] = t.returncode == 0
            if t.returncode != 0:
                res["detail"]["tests"] = (t.stdout + t.stderr)[-600:]
        for pid in meta["expect"]:
            env = dict(os.environ, VERIF_EVIDENCE_DIR=os.path.join(work, "ev"), PYTHONHASHSEED="0")
            r = subprocess.run([sys.executable, os.path.join(HERE, "check.py"), pid, "--tier", "quick", "--repo", scratch],
                               capture_output=True, text=True, env=env)
            rules = sorted(set(l.strip().split(":")[0].replace("rule ", "") for l in r.stdout.splitlines() if l.startswith("  rule ")))
            if r.returncode == 1:
                res["caught_by"].append(pid)
                res["detail"][pid] = rules
            else:
                res["missed"].append(pid)
                if r.returncode != 0:
                    res["detail"][pid] = (r.stdout + r.stderr)[-400:]
        return res
    finally:
        shutil.rmtree(work, ignore_errors=True)


def main():
    args = sys.argv[1:]
    admit = "--admit" in args
    jobs = 12
    if "--jobs" in args:
        jobs = int(args[args.index("--jobs") + 1])
    names = [a for a in args if not a.startswith("--") and not a.isdigit()]
    index = json.load(open(os.path.join(MUT, "index.json")))
    todo = [n for n in sorted(index) if not names or n in names]
    t0 = time.time()
    wdirs = [tempfile.mkdtemp(prefix="mut-tgt-", dir=os.environ.get("VERIF_WORK") or tempfile.gettempdir()) for _ in range(jobs)]
    results = {}
    try:
        with cf.ThreadPoolExecutor(max_workers=jobs) as ex:
            futs = {}
            for i, n in enumerate(todo):
                futs[ex.submit(one, n, index[n], admit, wdirs[i % jobs])] = n
            for f in cf.as_completed(futs):
                r = f.result()
                results[r["name"]] = r
                status = "CAUGHT" if r["caught_by"] and r["applies"] else ("SKIP(patch)" if not r["applies"] else "MISSED")
                extra = ""
                if admit and r["applies"]:
                    extra = " tests=%s" % ("pass" if r.get("tests_pass") else "FAIL")
                print("%-32s %-8s by %s missed %s%s" % (r["name"], status, r["caught_by"], r["missed"], extra), flush=True)
    finally:
        for d in wdirs:
            shutil.rmtree(d, ignore_errors=True)
    out = os.path.join(MUT, "results.json")
    old = {}
    if os.path.exists(out) and names:
        old = json.load(open(out)).get("results", {})
    old.update(results)
    json.dump({"at": time.strftime("%Y-%m-%dT%H:%M:%SZ", time.gmtime()), "results": old}, open(out, "w"), indent=1, sort_keys=True)
    n_c = sum(1 for r in results.values() if r["caught_by"])
    print("caught %d / %d (%.0fs)" % (n_c, len(results), time.time() - t0))


if __name__ == "__main__":
    main()
