"""Abstract domain: affine integer expressions over symbols with interval
bounds, exclusion sets and a set of linear facts (e >= 0); structured values
(structs, variant sets, references, vectors, slices, raw pointers); states.

Everything here is value-level bookkeeping for the abstract interpreter in
interp.py.  No solver is used: entailment is a bounded combination search over
the recorded facts.
"""
import itertools

INF = 1 << 200


# --------------------------------------------------------------- affine ----
class Aff:
    __slots__ = ("c", "t", "_h")

    def __init__(self, c=0, t=()):
        self.c = c
        self.t = t  # tuple of (sym, coeff) sorted by sym, coeff != 0
        self._h = None

    @staticmethod
    def const(c):
        return Aff(int(c), ())

    @staticmethod
    def sym(name, k=1):
        return Aff(0, ((name, k),))

    def is_const(self):
        return not self.t

    def syms(self):
        return [s for s, _ in self.t]

    def coeff(self, s):
        for x, k in self.t:
            if x == s:
                return k
        return 0

    def single(self):
        """(sym, k, c) if the expression is k*sym + c"""
        if len(self.t) == 1:
            return self.t[0][0], self.t[0][1], self.c
        return None

    def __add__(self, o):
        if isinstance(o, int):
            return Aff(self.c + o, self.t)
        if not o.t:
            return Aff(self.c + o.c, self.t)
        if not self.t:
            return Aff(self.c + o.c, o.t)
        d = dict(self.t)
        for s, k in o.t:
            v = d.get(s, 0) + k
            if v:
                d[s] = v
            else:
                d.pop(s, None)
        return Aff(self.c + o.c, tuple(sorted(d.items())))

    def __neg__(self):
        return Aff(-self.c, tuple((s, -k) for s, k in self.t))

    def __sub__(self, o):
        if isinstance(o, int):
            return Aff(self.c - o, self.t)
        return self + (-o)

    def scale(self, k):
        if k == 0:
            return Aff(0, ())
        return Aff(self.c * k, tuple((s, c * k) for s, c in self.t))

    def subst(self, m):
        """replace symbols by affine expressions (dict sym -> Aff)"""
        r = Aff(self.c, ())
        for s, k in self.t:
            if s in m:
                r = r + m[s].scale(k)
            else:
                r = r + Aff(0, ((s, k),))
        return r

    def __eq__(self, o):
        return isinstance(o, Aff) and self.c == o.c and self.t == o.t

    def __hash__(self):
        if self._h is None:
            self._h = hash((self.c, self.t))
        return self._h

    def __repr__(self):
        if not self.t:
            return str(self.c)
        parts = []
        for s, k in self.t:
            if k == 1:
                parts.append(s)
            elif k == -1:
                parts.append("-" + s)
            else:
                parts.append("%d*%s" % (k, s))
        r = " + ".join(parts).replace("+ -", "- ")
        if self.c:
            r += (" + %d" % self.c) if self.c > 0 else (" - %d" % -self.c)
        return r


# --------------------------------------------------------------- values ----
class Value:
    __slots__ = ()


class IntV(Value):
    """integer / bool / char: an affine expression; optional known bits
    (tuple LSB first of 0, 1, None or ('b', sym, i)); optional condition for
    booleans; ty = (bits, signed) or None"""
    __slots__ = ("aff", "ty", "bits", "cond", "origin")

    def __init__(self, aff, ty=None, bits=None, cond=None, origin=None):
        self.aff = aff
        self.ty = ty
        self.bits = bits
        self.cond = cond
        self.origin = origin

    def __eq__(self, o):
        return isinstance(o, IntV) and self.aff == o.aff and self.bits == o.bits

    def __hash__(self):
        return hash(("I", self.aff))

    def __repr__(self):
        return "Int(%r)" % (self.aff,)


class StructV(Value):
    __slots__ = ("fields",)

    def __init__(self, fields):
        self.fields = tuple(fields)

    def __eq__(self, o):
        return isinstance(o, StructV) and self.fields == o.fields

    def __hash__(self):
        return hash(("S", self.fields))

    def __repr__(self):
        return "{" + ", ".join(repr(f) for f in self.fields) + "}"


class EnumV(Value):
    """set of possible variants, each with its payload (StructV or None=lazy)"""
    __slots__ = ("path", "variants", "ty")

    def __init__(self, path, variants, ty=None):
        self.path = path
        self.variants = variants  # dict idx -> StructV | None
        self.ty = ty

    def __eq__(self, o):
        return isinstance(o, EnumV) and self.path == o.path and self.variants == o.variants

    def __hash__(self):
        return hash(("E", self.path, tuple(sorted(self.variants))))

    def __repr__(self):
        return "%s{%s}" % (self.path.split("::")[-1], ", ".join("%d:%r" % (k, v) for k, v in sorted(self.variants.items())))


class Place:
    __slots__ = ("key", "proj")

    def __init__(self, key, proj=()):
        self.key = key
        self.proj = tuple(proj)

    def __eq__(self, o):
        return isinstance(o, Place) and self.key == o.key and self.proj == o.proj

    def __hash__(self):
        return hash((self.key, self.proj))

    def extend(self, *elems):
        return Place(self.key, self.proj + tuple(elems))

    def __repr__(self):
        k = self.key
        if isinstance(k, tuple) and k and k[0] == "h":
            s = str(k[1])
        else:
            s = "_%s" % (k[-1],)
        for e in self.proj:
            if e[0] == "f":
                s += ".%d" % e[1]
            elif e[0] == "v":
                s += "@%d" % e[1]
            else:
                s += ".%s" % (e[0],)
        return s


class RefV(Value):
    __slots__ = ("place", "mut")

    def __init__(self, place, mut=False):
        self.place = place
        self.mut = mut

    def __eq__(self, o):
        return isinstance(o, RefV) and self.place == o.place

    def __hash__(self):
        return hash(("R", self.place))

    def __repr__(self):
        return "&%r" % (self.place,)


class VecV(Value):
    """Vec<T> / String: length, capacity lower bound (or None), content tag,
    generation (bumped whenever the buffer may be reallocated)"""
    __slots__ = ("len", "cap", "tag", "gen", "init")

    def __init__(self, len_, cap=None, tag=None, gen=0, init=None):
        self.len = len_
        self.cap = cap
        self.tag = tag
        self.gen = gen
        self.init = init  # ranges initialised beyond len through raw copies

    def __eq__(self, o):
        return (isinstance(o, VecV) and self.len == o.len and self.cap == o.cap
                and self.tag == o.tag and self.gen == o.gen and self.init == o.init)

    def __hash__(self):
        return hash(("V", self.len))

    def __repr__(self):
        return "Vec(len=%r cap>=%r tag=%r)" % (self.len, self.cap, self.tag)


class SliceV(Value):
    """fat pointer to a slice / str region: length, base object tag, offset"""
    __slots__ = ("len", "base", "off", "mut")

    def __init__(self, len_, base=None, off=None, mut=False):
        self.len = len_
        self.base = base
        self.off = off if off is not None else Aff.const(0)
        self.mut = mut

    def __eq__(self, o):
        return isinstance(o, SliceV) and self.len == o.len and self.base == o.base and self.off == o.off

    def __hash__(self):
        return hash(("SL", self.len, self.base))

    def __repr__(self):
        return "Slice(%r[%r..+%r])" % (self.base, self.off, self.len)


class PtrV(Value):
    """raw pointer into the buffer of the Vec at `place` (or a slice base)"""
    __slots__ = ("place", "off", "gen", "mut")

    def __init__(self, place, off, gen=0, mut=False):
        self.place = place
        self.off = off
        self.gen = gen
        self.mut = mut

    def __eq__(self, o):
        return isinstance(o, PtrV) and self.place == o.place and self.off == o.off and self.gen == o.gen

    def __hash__(self):
        return hash(("P", self.place))

    def __repr__(self):
        return "Ptr(%r + %r)" % (self.place, self.off)


class TopV(Value):
    __slots__ = ("ty", "why")

    def __init__(self, ty=None, why=None):
        self.ty = ty
        self.why = why

    def __eq__(self, o):
        return isinstance(o, TopV) and self.ty == o.ty

    def __hash__(self):
        return hash(("T", self.ty))

    def __repr__(self):
        return "Top"


class FnV(Value):
    __slots__ = ("desc",)

    def __init__(self, desc):
        self.desc = desc

    def __eq__(self, o):
        return isinstance(o, FnV) and self.desc.get("path") == o.desc.get("path")

    def __hash__(self):
        return hash(("F", self.desc.get("path")))

    def __repr__(self):
        return "fn(%s)" % self.desc.get("path")


class OpaqueV(Value):
    """a library object we do not look into (maps, lists, iterators ...),
    with a small attribute record used by structural rules"""
    __slots__ = ("ty", "attrs")

    def __init__(self, ty=None, attrs=()):
        self.ty = ty
        self.attrs = tuple(sorted(attrs)) if not isinstance(attrs, tuple) else attrs

    def get(self, k, d=None):
        for a, b in self.attrs:
            if a == k:
                return b
        return d

    def with_(self, **kw):
        d = dict(self.attrs)
        d.update(kw)
        return OpaqueV(self.ty, tuple(sorted(d.items(), key=lambda x: x[0])))

    def __eq__(self, o):
        return isinstance(o, OpaqueV) and self.ty == o.ty and self.attrs == o.attrs

    def __hash__(self):
        return hash(("O", self.ty))

    def __repr__(self):
        return "Opaque(%s %s)" % ((self.ty[1] if self.ty and len(self.ty) > 1 else "?"), dict(self.attrs))


UNIT = StructV(())


# ---------------------------------------------------------------- state ----
class State:
    __slots__ = ("cells", "bounds", "excl", "facts", "dead", "ghost", "trail", "_fx", "_fxn", "_seen")

    def __init__(self):
        self._fx = None
        self._fxn = -1
        self.cells = {}
        self.bounds = {}
        self.excl = {}
        self.facts = []
        self.dead = False
        self.ghost = {}
        self.trail = ()

    def copy(self):
        s = State()
        s.cells = dict(self.cells)
        s.bounds = dict(self.bounds)
        s.excl = dict(self.excl)
        s.facts = list(self.facts)
        s.dead = self.dead
        s.ghost = dict(self.ghost)
        s.trail = self.trail
        return s

    # ------------------------------------------------------- intervals --
    def lo_hi(self, sym):
        return self.bounds.get(sym, (-INF, INF))

    def lower(self, e):
        r = e.c
        for s, k in e.t:
            lo, hi = self.bounds.get(s, (-INF, INF))
            if k > 0:
                if lo <= -INF:
                    return -INF
                r += k * lo
            else:
                if hi >= INF:
                    return -INF
                r += k * hi
        return r

    def upper(self, e):
        r = e.c
        for s, k in e.t:
            lo, hi = self.bounds.get(s, (-INF, INF))
            if k > 0:
                if hi >= INF:
                    return INF
                r += k * hi
            else:
                if lo <= -INF:
                    return INF
                r += k * lo
        return r

    def range(self, e):
        """interval of e using bounds and (cheaply) the facts"""
        lo, hi = self.lower(e), self.upper(e)
        if e.t and self.facts:
            # e >= c  <=  entails(e - c >= 0): refine by single-fact combination
            lo2 = self._refine_lower(e, lo)
            hi2 = -self._refine_lower(-e, -hi)
            lo, hi = max(lo, lo2), min(hi, hi2)
        return lo, hi

    def _refine_lower(self, e, lo):
        best = lo
        es = set(s for s, _ in e.t)
        for f in self.facts:
            if not es.intersection(s for s, _ in f.t):
                continue
            for s, kf in f.t:
                ke = e.coeff(s)
                if ke and ke * kf > 0:
                    # |kf| e - |ke| f
                    d = e.scale(abs(kf)) - f.scale(abs(ke))
                    l = self.lower(d)
                    if l > -INF:
                        # |kf| e >= l  =>  e >= ceil(l/|kf|)
                        v = -((-l) // abs(kf))
                        if v > best:
                            best = v
        return best

    # ------------------------------------------------------ entailment --
    def entails(self, e, depth=3):
        """is e >= 0 in every concretisation?  Bounded elimination: the symbol
        that spoils the interval lower bound is cancelled against a recorded
        fact containing it with the same sign."""
        if self.lower(e) >= 0:
            return True
        if not e.t or depth <= 0 or not self.facts:
            return False
        fx = self._fx
        if fx is None or self._fxn != len(self.facts):
            fx = {}
            for i, f in enumerate(self.facts):
                for s, k in f.t:
                    fx.setdefault(s, []).append((i, f, k))
            self._fx = fx
            self._fxn = len(self.facts)
        self._seen = set()
        return self._elim(e, depth, ())

    def _elim(self, e, depth, used):
        key = (e, depth)
        seen = self._seen
        if key in seen:
            return False        # already explored (and failed) within this query
        seen.add(key)
        bad = []
        bounds = self.bounds
        for s, k in e.t:
            lo, hi = bounds.get(s, (-INF, INF))
            if k > 0:
                c = -INF if lo <= -INF else k * lo
            else:
                c = -INF if hi >= INF else k * hi
            if c < 0 or (k > 0 and lo > -INF) or (k < 0 and hi < INF):
                bad.append((c, s, k))
        if not bad:
            return False
        bad.sort(key=lambda x: x[0])
        fx = self._fx
        for c, s, k in bad[:3]:
            for i, f, kf in fx.get(s, ()):
                if i in used or k * kf <= 0:
                    continue
                d = e.scale(abs(kf)) - f.scale(abs(k))
                if self.lower(d) >= 0:
                    return True
                if depth > 1 and d.t and len(d.t) <= 6:
                    if self._elim(d, depth - 1, used + (i,)):
                        return True
        return False

    def entails_eq(self, a, b):
        d = a - b
        if d.is_const():
            return d.c == 0
        return self.entails(d) and self.entails(-d)

    # ----------------------------------------------------------- facts --
    def add_fact(self, e):
        """assume e >= 0"""
        if self.dead:
            return
        if not e.t:
            if e.c < 0:
                self.dead = True
            return
        if self.upper(e) < 0:
            self.dead = True
            return
        sg = e.single()
        if sg is not None:
            s, k, c = sg
            lo, hi = self.bounds.get(s, (-INF, INF))
            if k > 0:
                # k s + c >= 0 -> s >= ceil(-c/k)
                v = -((c) // k)
                if v > lo:
                    lo = v
            else:
                # s <= floor(c/(-k))
                v = c // (-k)
                if v < hi:
                    hi = v
            ex = self.excl.get(s)
            if ex:
                while lo in ex and lo <= hi:
                    lo += 1
                while hi in ex and hi >= lo:
                    hi -= 1
            changed = self.bounds.get(s, (-INF, INF)) != (lo, hi)
            self.bounds[s] = (lo, hi)
            if lo > hi:
                self.dead = True
            elif changed and self.facts:
                self._cascade([s])
            return
        if self.lower(e) >= 0:
            return
        if e in self.facts:
            return
        self.facts.append(e)
        self._propagate(e)

    def _cascade(self, work, budget=48):
        """interval propagation: a tightened bound is pushed through the recorded facts that mention the symbol"""
        work = list(work)
        while work and budget > 0 and not self.dead:
            s = work.pop()
            for f in self.facts:
                if f.coeff(s) == 0:
                    continue
                budget -= 1
                before = [self.bounds.get(x, (-INF, INF)) for x, _ in f.t]
                self._propagate(f)
                for (x, _), b in zip(f.t, before):
                    nb = self.bounds.get(x, (-INF, INF))
                    if nb != b:
                        if nb[0] > nb[1]:
                            self.dead = True
                            return
                        if x != s and x not in work:
                            work.append(x)
                if budget <= 0:
                    break

    def _propagate(self, e):
        # tighten each symbol's bound from the others' bounds
        for s, k in e.t:
            rest = Aff(e.c, tuple((x, c) for x, c in e.t if x != s))
            lo, hi = self.bounds.get(s, (-INF, INF))
            if k > 0:
                u = self.upper(rest)  # k s >= -rest >= -u
                if u < INF:
                    v = -((u) // k)
                    if v > lo:
                        lo = v
            else:
                u = self.upper(rest)  # -|k| s + rest >= 0 -> s <= rest/|k| <= u/|k|
                if u < INF:
                    v = u // (-k)
                    if v < hi:
                        hi = v
            if (lo, hi) != self.bounds.get(s, (-INF, INF)):
                self.bounds[s] = (lo, hi)
                if lo > hi:
                    self.dead = True
                    return

    def add_eq(self, a, b):
        d = a - b
        if len(d.t) > 1 and self.facts and not self.dead and (self.entails(d - 1, 2) or self.entails(-d - 1, 2)):
            self.dead = True       # the state already knows a != b (needs the recorded facts, not only the intervals)
            return
        self.add_fact(a - b)
        self.add_fact(b - a)

    def add_ne(self, a, b):
        d = a - b
        if not d.t:
            if d.c == 0:
                self.dead = True
            return
        sg = d.single()
        if sg is not None and abs(sg[1]) == 1:
            s, k, c = sg
            v = -c * k  # k s + c != 0 -> s != -c/k
            lo, hi = self.bounds.get(s, (-INF, INF))
            if v < lo or v > hi:
                return
            if v == lo:
                lo += 1
            elif v == hi:
                hi -= 1
            else:
                ex = set(self.excl.get(s, ()))
                ex.add(v)
                self.excl[s] = frozenset(ex)
            ex = self.excl.get(s)
            if ex:
                while lo in ex and lo <= hi:
                    lo += 1
                while hi in ex and hi >= lo:
                    hi -= 1
            self.bounds[s] = (lo, hi)
            if lo > hi:
                self.dead = True
            return
        if self.entails(d):
            self.add_fact(d - 1)
        elif self.entails(-d):
            self.add_fact(-d - 1)

    def may_equal_const(self, e, v):
        lo, hi = self.range(e)
        if v < lo or v > hi:
            return False
        sg = e.single()
        if sg is not None and abs(sg[1]) == 1:
            s, k, c = sg
            sv = (v - c) * k
            if sv in self.excl.get(s, ()):
                return False
        return True

    # -------------------------------------------------------- liveness --
    def used_syms(self):
        out = set()
        for v in self.cells.values():
            collect_syms(v, out)
        return out

    def gc_heap(self):
        """drop heap cells that no live reference can reach"""
        reach = set()
        work = []

        def refs(v):
            if isinstance(v, RefV):
                if v.place is not None:
                    work.append(v.place.key)
            elif isinstance(v, PtrV):
                if isinstance(v.place, Place):
                    work.append(v.place.key)
            elif isinstance(v, StructV):
                for f in v.fields:
                    refs(f)
            elif isinstance(v, EnumV):
                for p in v.variants.values():
                    if p is not None:
                        refs(p)
            elif isinstance(v, SliceV):
                b = v.base
                if isinstance(b, tuple) and len(b) > 1 and isinstance(b[1], Place):
                    work.append(b[1].key)
            elif isinstance(v, OpaqueV):
                for _, a in v.attrs:
                    if isinstance(a, Value):
                        refs(a)
                    elif isinstance(a, Place):
                        work.append(a.key)
                    elif isinstance(a, tuple):
                        for x in a:
                            if isinstance(x, Value):
                                refs(x)
                            elif isinstance(x, Place):
                                work.append(x.key)
        for k, v in self.cells.items():
            if not (isinstance(k, tuple) and k and k[0] == "h"):
                refs(v)
        while work:
            k = work.pop()
            if k in reach:
                continue
            reach.add(k)
            v = self.cells.get(k)
            if v is not None:
                refs(v)
        for k in [k for k in self.cells if isinstance(k, tuple) and k and k[0] == "h" and k not in reach]:
            del self.cells[k]

    def gc(self, keep=()):
        self.gc_heap()
        live = self.used_syms()
        live.update(keep)
        dead = set()
        for f in self.facts:
            for s, _ in f.t:
                if s not in live:
                    dead.add(s)
        # eliminate dead symbols by combining the facts that mention them
        # (Fourier-Motzkin, bounded), so that relations passing through a
        # dead symbol survive
        for d in sorted(dead):
            pos, neg, rest = [], [], []
            for f in self.facts:
                k = f.coeff(d)
                if k > 0:
                    pos.append((f, k))
                elif k < 0:
                    neg.append((f, -k))
                else:
                    rest.append(f)
            lo, hi = self.bounds.get(d, (-INF, INF))
            if lo > -INF:
                pos.append((Aff.sym(d) - lo, 1))
            if hi < INF:
                neg.append((Aff.const(hi) - Aff.sym(d), 1))
            if len(pos) * len(neg) <= 400:
                for fp, kp in pos:
                    for fn, kn in neg:
                        c = fp.scale(kn) + fn.scale(kp)
                        if c.t and self.lower(c) < 0 and c not in rest and len(c.t) <= 4:
                            rest.append(c)
            self.facts = rest
        self.facts = [f for f in self.facts if all(s in live for s, _ in f.t)]
        self._fx = None
        for s in list(self.bounds):
            if s not in live:
                del self.bounds[s]
                self.excl.pop(s, None)


def collect_syms(v, out):
    if isinstance(v, IntV):
        for s, _ in v.aff.t:
            out.add(s)
        if v.cond is not None:
            collect_cond_syms(v.cond, out)
    elif isinstance(v, StructV):
        for f in v.fields:
            collect_syms(f, out)
    elif isinstance(v, EnumV):
        for p in v.variants.values():
            if p is not None:
                collect_syms(p, out)
    elif isinstance(v, VecV):
        for s, _ in v.len.t:
            out.add(s)
        if v.cap is not None:
            for s, _ in v.cap.t:
                out.add(s)
        if v.init:
            for a, b in v.init:
                for s, _ in a.t:
                    out.add(s)
                for s, _ in b.t:
                    out.add(s)
    elif isinstance(v, SliceV):
        for s, _ in v.len.t:
            out.add(s)
        for s, _ in v.off.t:
            out.add(s)
    elif isinstance(v, PtrV):
        for s, _ in v.off.t:
            out.add(s)
    elif isinstance(v, OpaqueV):
        for _, a in v.attrs:
            if isinstance(a, Value):
                collect_syms(a, out)
            elif isinstance(a, Aff):
                for s, _ in a.t:
                    out.add(s)


def collect_cond_syms(c, out):
    if c is None:
        return
    k = c[0]
    if k == "cmp":
        for s, _ in c[2].t:
            out.add(s)
        for s, _ in c[3].t:
            out.add(s)
    elif k == "not":
        collect_cond_syms(c[1], out)
    elif k in ("and", "or"):
        collect_cond_syms(c[1], out)
        collect_cond_syms(c[2], out)
    elif k == "ovf":
        for s, _ in c[1].t:
            out.add(s)


# ----------------------------------------------------------- conditions ----
def negate_cmp(op):
    return {"Lt": "Ge", "Le": "Gt", "Gt": "Le", "Ge": "Lt", "Eq": "Ne", "Ne": "Eq"}[op]


def assume(st, cond, truth):
    """refine a copy-free state list by cond == truth.  Returns list of states
    (the input state may be mutated and returned)."""
    if st.dead:
        return []
    if cond is None:
        return [st]
    k = cond[0]
    if k == "const":
        if bool(cond[1]) == truth:
            return [st]
        return []
    if k == "not":
        return assume(st, cond[1], not truth)
    if k == "cmp":
        op, a, b = cond[1], cond[2], cond[3]
        if not truth:
            op = negate_cmp(op)
        if op == "Lt":
            st.add_fact(b - a - 1)
        elif op == "Le":
            st.add_fact(b - a)
        elif op == "Gt":
            st.add_fact(a - b - 1)
        elif op == "Ge":
            st.add_fact(a - b)
        elif op == "Eq":
            st.add_eq(a, b)
        elif op == "Ne":
            st.add_ne(a, b)
        return [] if st.dead else [st]
    if k == "ovf":
        e, lo, hi = cond[1], cond[2], cond[3]
        if truth:
            s2 = st.copy()
            st.add_fact(Aff.const(lo) - e - 1)
            s2.add_fact(e - hi - 1)
            return [x for x in (st, s2) if not x.dead]
        st.add_fact(e - lo)
        st.add_fact(Aff.const(hi) - e)
        return [] if st.dead else [st]
    if k in ("and", "or"):
        conj = (k == "and") == truth
        # and/true, or/false: both sides constrained; otherwise split
        if conj:
            out = []
            for s1 in assume(st, cond[1], truth):
                out.extend(assume(s1, cond[2], truth))
            return out
        s2 = st.copy()
        out = assume(st, cond[1], truth)
        for s3 in assume(s2, cond[1], not truth):
            out.extend(assume(s3, cond[2], truth))
        return out
    if k == "hook":
        # ('hook', fn) : fn(state, truth) -> list of states
        return cond[1](st, truth)
    return [st]


def holds(st, cond, truth):
    """is cond == truth entailed?"""
    if cond is None:
        return False
    k = cond[0]
    if k == "const":
        return bool(cond[1]) == truth
    if k == "not":
        return holds(st, cond[1], not truth)
    if k == "cmp":
        op, a, b = cond[1], cond[2], cond[3]
        if not truth:
            op = negate_cmp(op)
        if op == "Lt":
            return st.entails(b - a - 1)
        if op == "Le":
            return st.entails(b - a)
        if op == "Gt":
            return st.entails(a - b - 1)
        if op == "Ge":
            return st.entails(a - b)
        if op == "Eq":
            return st.entails_eq(a, b)
        if op == "Ne":
            d = a - b
            if st.entails(d - 1) or st.entails(-d - 1):
                return True
            if d.is_const():
                return d.c != 0
            return not st.may_equal_const(d, 0)
        return False
    if k == "ovf":
        e, lo, hi = cond[1], cond[2], cond[3]
        if truth:
            return st.entails(Aff.const(lo) - e - 1) or st.entails(e - hi - 1)
        return st.entails(e - lo) and st.entails(Aff.const(hi) - e)
    if k == "and":
        if truth:
            return holds(st, cond[1], True) and holds(st, cond[2], True)
        return holds(st, cond[1], False) or holds(st, cond[2], False)
    if k == "or":
        if truth:
            return holds(st, cond[1], True) or holds(st, cond[2], True)
        return holds(st, cond[1], False) and holds(st, cond[2], False)
    return False


def int_range(ty):
    bits, signed = ty
    if signed:
        return -(1 << (bits - 1)), (1 << (bits - 1)) - 1
    return 0, (1 << bits) - 1
